//! C13 harness — PCZT encoding, combination and roles.
//!
//! Observation is through public API only: every PCZT is rendered with its public `Debug`
//! implementation, parsed by a generic parser for Rust's `{:?}` grammar and printed as a Coq term of
//! type `D` (positional records, lists, options, maps, small numbers and *interned* opaque atoms:
//! the merge/role/encoding properties only ever compare leaves for equality). The first case of a
//! run (`CShape`) carries the struct and field names seen in the Debug output so that the positional
//! encoding can be checked against the schema regenerated from the Rust source.
use std::collections::BTreeMap;

use pczt::{
    roles::{
        combiner::Combiner, creator::Creator, io_finalizer::IoFinalizer, redactor::Redactor,
        signer::Signer, spend_finalizer::SpendFinalizer, tx_extractor::TransactionExtractor,
        updater::Updater,
    },
    Pczt,
};
use shardtree::{store::memory::MemoryShardStore, ShardTree};
use vcommon::*;
use zcash_primitives::transaction::{
    builder::{BuildConfig, Builder, BundlePadding, DeferredPcztBuilder, PcztResult},
    fees::zip317,
};
use zcash_protocol::{
    consensus::BlockHeight, local_consensus::LocalNetwork, memo::MemoBytes, value::Zatoshis,
};
use zcash_transparent::{
    address::TransparentAddress,
    bundle::{OutPoint, TxOut},
    keys::{AccountPrivKey, IncomingViewingKey},
};

// ---------------------------------------------------------------------------------------------
// Generic parser for `{:?}` output
// ---------------------------------------------------------------------------------------------

#[derive(Clone, Debug)]
enum Dv {
    Struct(String, Vec<(String, Dv)>),
    Tuple(String, Vec<Dv>), // named (enum variant / tuple struct) or unnamed ("")
    List(Vec<Dv>),
    Map(Vec<(Dv, Dv)>),
    Num(String),
    Str(String),
}

struct P<'a> {
    s: &'a [u8],
    i: usize,
}

impl<'a> P<'a> {
    fn ws(&mut self) {
        while self.i < self.s.len() && (self.s[self.i] == b' ' || self.s[self.i] == b'\n') {
            self.i += 1;
        }
    }
    fn peek(&mut self) -> u8 {
        self.ws();
        if self.i < self.s.len() { self.s[self.i] } else { 0 }
    }
    fn eat(&mut self, c: u8) -> bool {
        if self.peek() == c {
            self.i += 1;
            true
        } else {
            false
        }
    }
    fn expect(&mut self, c: u8) {
        if !self.eat(c) {
            panic!("debug parser: expected {:?} at {}: {:?}", c as char, self.i, String::from_utf8_lossy(&self.s[self.i.saturating_sub(30)..(self.i + 30).min(self.s.len())]));
        }
    }
    fn ident(&mut self) -> String {
        self.ws();
        let st = self.i;
        while self.i < self.s.len() && (self.s[self.i].is_ascii_alphanumeric() || self.s[self.i] == b'_' || self.s[self.i] == b':') {
            // `::` may occur in paths; a single ':' ends a field name
            if self.s[self.i] == b':' && !(self.i + 1 < self.s.len() && self.s[self.i + 1] == b':') && !(self.i > st && self.s[self.i - 1] == b':') {
                break;
            }
            self.i += 1;
        }
        String::from_utf8(self.s[st..self.i].to_vec()).unwrap()
    }
    fn seq(&mut self, close: u8) -> Vec<Dv> {
        let mut v = vec![];
        loop {
            if self.eat(close) {
                break;
            }
            v.push(self.value());
            if !self.eat(b',') {
                self.expect(close);
                break;
            }
        }
        v
    }
    fn value(&mut self) -> Dv {
        let c = self.peek();
        match c {
            b'[' => {
                self.i += 1;
                Dv::List(self.seq(b']'))
            }
            b'(' => {
                self.i += 1;
                Dv::Tuple(String::new(), self.seq(b')'))
            }
            b'{' => {
                self.i += 1;
                let mut m = vec![];
                loop {
                    if self.eat(b'}') {
                        break;
                    }
                    let k = self.value();
                    self.expect(b':');
                    let v = self.value();
                    m.push((k, v));
                    if !self.eat(b',') {
                        self.expect(b'}');
                        break;
                    }
                }
                Dv::Map(m)
            }
            b'"' => {
                self.i += 1;
                let st = self.i;
                while self.s[self.i] != b'"' {
                    if self.s[self.i] == b'\\' {
                        self.i += 1;
                    }
                    self.i += 1;
                }
                let t = String::from_utf8_lossy(&self.s[st..self.i]).to_string();
                self.i += 1;
                Dv::Str(t)
            }
            b'-' | b'0'..=b'9' => {
                let st = self.i;
                self.i += 1;
                while self.i < self.s.len() && (self.s[self.i].is_ascii_alphanumeric() || self.s[self.i] == b'.' || self.s[self.i] == b'_') {
                    self.i += 1;
                }
                Dv::Num(String::from_utf8(self.s[st..self.i].to_vec()).unwrap())
            }
            _ => {
                let name = self.ident();
                if name.is_empty() {
                    panic!("debug parser: unexpected byte {:?} at {}", c as char, self.i);
                }
                match self.peek() {
                    b'{' => {
                        self.i += 1;
                        let mut fs = vec![];
                        loop {
                            if self.eat(b'}') {
                                break;
                            }
                            let f = self.ident();
                            self.expect(b':');
                            let v = self.value();
                            fs.push((f, v));
                            if !self.eat(b',') {
                                self.expect(b'}');
                                break;
                            }
                        }
                        Dv::Struct(name, fs)
                    }
                    b'(' => {
                        self.i += 1;
                        Dv::Tuple(name, self.seq(b')'))
                    }
                    _ => Dv::Tuple(name, vec![]),
                }
            }
        }
    }
}

fn parse_debug(s: &str) -> Dv {
    let mut p = P { s: s.as_bytes(), i: 0 };
    let v = p.value();
    p.ws();
    assert!(p.i == s.len(), "debug parser: trailing input");
    v
}

fn text(d: &Dv) -> String {
    match d {
        Dv::Struct(n, fs) => format!("{}{{{}}}", n, fs.iter().map(|(f, v)| format!("{}:{}", f, text(v))).collect::<Vec<_>>().join(",")),
        Dv::Tuple(n, vs) => format!("{}({})", n, vs.iter().map(text).collect::<Vec<_>>().join(",")),
        Dv::List(vs) => format!("[{}]", vs.iter().map(text).collect::<Vec<_>>().join(",")),
        Dv::Map(m) => format!("{{{}}}", m.iter().map(|(k, v)| format!("{}:{}", text(k), text(v))).collect::<Vec<_>>().join(",")),
        Dv::Num(n) => n.clone(),
        Dv::Str(s) => format!("\"{}\"", s),
    }
}

/// Per-case interning of opaque leaves. Ids 0.. are reserved for leaves the model must recognise.
struct Intern {
    m: BTreeMap<String, usize>,
    dvs: BTreeMap<usize, Dv>,
}

fn zero32() -> String {
    format!("[{}]", vec!["0"; 32].join(","))
}

impl Intern {
    fn new() -> Self {
        let mut m = BTreeMap::new();
        m.insert(zero32(), 0); // DEFAULT_ANCHOR
        m.insert("V2()".into(), 1); // NoteVersion::V2
        m.insert("V3()".into(), 2); // NoteVersion::V3
        m.insert("(0,false())".into(), 3); // zero Orchard value_sum
        m.insert("0".into(), 4); // the number 0 (default lock time)
        m.insert("4294967295".into(), 5); // u32::MAX (default sequence)
        Intern { m, dvs: BTreeMap::new() }
    }
    fn id(&mut self, t: String) -> usize {
        let n = self.m.len();
        *self.m.entry(t).or_insert(n)
    }
    fn id_dv(&mut self, d: &Dv) -> usize {
        let i = self.id(text(d));
        self.dvs.entry(i).or_insert_with(|| d.clone());
        i
    }
    fn atom(&mut self, d: &Dv) -> String {
        format!("DA {}", self.id_dv(d))
    }
    /// The serde value of every interned leaf (Coq `list wval`, indexed by id).
    fn table(&self) -> String {
        let n = self.m.len();
        let mut out = vec![];
        for i in 0..n {
            out.push(match i {
                0 => format!("(VL [{}])", vec!["(VN 0)"; 32].join("; ")),
                1 => "(VE 0 (VL []))".to_string(),
                2 => "(VE 1 (VL []))".to_string(),
                3 => "(VL [(VN 0); (VB false)])".to_string(),
                4 => "(VN 0)".to_string(),
                5 => "(VN 4294967295)".to_string(),
                _ => self.dvs.get(&i).map(dv_wval).unwrap_or_else(|| "(VL [])".to_string()),
            });
        }
        format!("[{}]", out.join("; "))
    }
}

/// The serde value of a leaf, from its Debug structure (which mirrors the serde structure for the
/// leaf types of a PCZT: byte arrays and vectors, strings, integers, tuples, `Zip32Derivation`).
fn dv_wval(d: &Dv) -> String {
    match d {
        Dv::Num(n) => {
            if n.starts_with('-') {
                format!("(VZ ({}))", n)
            } else {
                format!("(VN {})", n)
            }
        }
        Dv::Str(t) => format!("(VL [{}])", t.as_bytes().iter().map(|b| format!("(VN {})", b)).collect::<Vec<_>>().join("; ")),
        Dv::List(vs) => format!("(VL [{}])", vs.iter().map(dv_wval).collect::<Vec<_>>().join("; ")),
        Dv::Tuple(n, vs) if n.is_empty() => format!("(VL [{}])", vs.iter().map(dv_wval).collect::<Vec<_>>().join("; ")),
        Dv::Tuple(n, vs) if vs.is_empty() && n == "true" => "(VB true)".into(),
        Dv::Tuple(n, vs) if vs.is_empty() && n == "false" => "(VB false)".into(),
        Dv::Tuple(n, vs) if vs.is_empty() && n == "V2" => "(VE 0 (VL []))".into(),
        Dv::Tuple(n, vs) if vs.is_empty() && n == "V3" => "(VE 1 (VL []))".into(),
        Dv::Tuple(_, vs) if vs.len() == 1 => dv_wval(&vs[0]), // newtype struct: transparent in serde
        Dv::Tuple(_, vs) => format!("(VL [{}])", vs.iter().map(dv_wval).collect::<Vec<_>>().join("; ")),
        Dv::Struct(_, fs) => format!("(VL [{}])", fs.iter().map(|(_, v)| dv_wval(v)).collect::<Vec<_>>().join("; ")),
        Dv::Map(m) => format!("(VL [{}])", m.iter().map(|(k, v)| format!("(VL [{}; {}])", dv_wval(k), dv_wval(v))).collect::<Vec<_>>().join("; ")),
    }
}

/// Shapes (struct name -> field names) seen while converting; printed once per run.
type Shapes = BTreeMap<String, (String, Vec<String>)>;

fn conv(d: &Dv, it: &mut Intern, sh: &mut Shapes, path: &str) -> String {
    match d {
        Dv::Struct(n, fs) => {
            let names: Vec<String> = fs.iter().map(|(f, _)| f.clone()).collect();
            if let Some(old) = sh.get(path) {
                assert!(old.0 == *n && old.1 == names, "record at {} printed with two different shapes", path);
            } else {
                sh.insert(path.to_string(), (n.clone(), names));
            }
            format!("DS [{}]", fs.iter().map(|(f, v)| conv(v, it, sh, &(if path.is_empty() { f.clone() } else { format!("{}.{}", path, f) }))).collect::<Vec<_>>().join("; "))
        }
        Dv::List(vs) if vs.is_empty() => {
            // an empty vector of records (the only record vectors of a PCZT) vs an empty byte vector
            let last = path.rsplit('.').next().unwrap_or("");
            if ["inputs", "outputs", "spends", "actions"].contains(&last) {
                "DL []".into()
            } else {
                it.atom(d)
            }
        }
        Dv::List(vs) if vs.iter().all(|v| matches!(v, Dv::Struct(..))) => {
            format!("DL [{}]", vs.iter().map(|v| format!("({})", conv(v, it, sh, path))).collect::<Vec<_>>().join("; "))
        }
        Dv::Tuple(n, vs) if n == "Some" && vs.len() == 1 => format!("DOS {}", it.id_dv(&vs[0])),
        Dv::Tuple(n, vs) if n == "None" && vs.is_empty() => "DON".into(),
        Dv::Tuple(n, vs) if n == "Encrypted" && vs.len() == 1 => format!("DT 0 {}", it.id_dv(&vs[0])),
        Dv::Tuple(n, vs) if n == "MemoPlaintext" && vs.len() == 1 => format!("DT 1 {}", it.id_dv(&vs[0])),
        Dv::Map(m) => format!("DM [{}]", m.iter().map(|(k, v)| format!("KV {} {}", it.id_dv(k), it.id_dv(v))).collect::<Vec<_>>().join("; ")),
        Dv::Num(n) => match n.parse::<i128>() {
            Ok(x) => format!("DN {}", z(x)),
            Err(_) => it.atom(d),
        },
        _ => it.atom(d),
    }
}

fn tree(p: &Pczt, it: &mut Intern, sh: &mut Shapes) -> String {
    let d = parse_debug(&format!("{:?}", p));
    format!("({})", conv(&d, it, sh, ""))
}

// ---------------------------------------------------------------------------------------------
// Building base PCZTs
// ---------------------------------------------------------------------------------------------

fn network(v6: bool) -> LocalNetwork {
    LocalNetwork {
        overwinter: Some(BlockHeight::from_u32(1)),
        sapling: Some(BlockHeight::from_u32(2)),
        blossom: Some(BlockHeight::from_u32(3)),
        heartwood: Some(BlockHeight::from_u32(4)),
        canopy: Some(BlockHeight::from_u32(5)),
        nu5: Some(BlockHeight::from_u32(6)),
        nu6: Some(BlockHeight::from_u32(7)),
        nu6_1: Some(BlockHeight::from_u32(8)),
        nu6_2: Some(BlockHeight::from_u32(9)),
        nu6_3: if v6 { Some(BlockHeight::from_u32(10)) } else { None },
    }
}

#[derive(Clone, Debug, Default)]
struct Spec {
    v6: bool,
    deferred: bool, // v6 only: DeferredPcztBuilder (anchors absent)
    tin: Vec<u64>,  // transparent input values
    tout: usize,
    zero_tout: bool, // append a zero-valued transparent output (prefix families)
    sout: usize,
    oout: usize,
    iout: usize,
    ospend: bool,
    sspend: bool,
    memo: u8, // 0 empty, 1 = 512 non-zero bytes, 2 = 511 non-zero bytes, 3 = one byte
}

fn memo_of(kind: u8) -> MemoBytes {
    match kind {
        1 => MemoBytes::from_bytes(&[0x41u8; 512]).unwrap(),
        2 => MemoBytes::from_bytes(&[0x42u8; 511]).unwrap(),
        3 => MemoBytes::from_bytes(&[0x43u8; 1]).unwrap(),
        _ => MemoBytes::empty(),
    }
}

struct Keys {
    t_sk: secp256k1::SecretKey,
    t_pk: secp256k1::PublicKey,
    t_addr: TransparentAddress,
    o_ask: orchard::keys::SpendAuthorizingKey,
    o_fvk: orchard::keys::FullViewingKey,
    s_extsk: sapling::zip32::ExtendedSpendingKey,
}

fn keys(v6: bool) -> Keys {
    let params = network(v6);
    let acc = AccountPrivKey::from_seed(&params, &[1; 32], zip32::AccountId::ZERO).unwrap();
    let (t_addr, idx) = acc.to_account_pubkey().derive_external_ivk().unwrap().default_address();
    let t_sk = acc.derive_external_secret_key(idx).unwrap();
    let secp = secp256k1::Secp256k1::signing_only();
    let t_pk = t_sk.public_key(&secp);
    let o_sk = orchard::keys::SpendingKey::from_bytes([7; 32]).unwrap();
    Keys {
        t_sk,
        t_pk,
        t_addr,
        o_ask: orchard::keys::SpendAuthorizingKey::from(&o_sk),
        o_fvk: orchard::keys::FullViewingKey::from(&o_sk),
        s_extsk: sapling::zip32::ExtendedSpendingKey::master(&[2; 32]),
    }
}

struct Base {
    pczt: Pczt,
    spec: Spec,
    o_spend_idx: Option<usize>,
    s_spend_idx: Option<usize>,
}

fn orchard_note(k: &Keys, rng: &mut Rng, value: u64) -> (orchard::Note, orchard::Anchor, orchard::tree::MerklePath) {
    use orchard::tree::MerkleHashOrchard;
    let recipient = k.o_fvk.address_at(0u32, orchard::keys::Scope::External);
    let ivk = k.o_fvk.to_ivk(orchard::keys::Scope::External);
    let bv = orchard::bundle::BundleVersion::orchard_v2();
    let mut b = orchard::builder::Builder::new(orchard::builder::BundleType::DEFAULT, bv, bv.default_flags(), orchard::Anchor::empty_tree()).unwrap();
    b.add_output(None, recipient, orchard::value::NoteValue::from_raw(value), [0u8; 512]).unwrap();
    let (bundle, meta) = b.build::<i64>(&mut rng.0).unwrap().unwrap();
    let action = bundle.actions().get(meta.output_action_index(0).unwrap()).unwrap();
    let domain = orchard::note_encryption::OrchardDomain::for_action(action);
    let (note, _, _) = zcash_note_encryption::try_note_decryption(&domain, &ivk.prepare(), action).unwrap();
    let cmx: orchard::note::ExtractedNoteCommitment = note.commitment().into();
    let leaf = MerkleHashOrchard::from_cmx(&cmx);
    let mut tree = ShardTree::<_, 32, 16>::new(MemoryShardStore::<MerkleHashOrchard, u32>::empty(), 100);
    tree.append(leaf, incrementalmerkletree::Retention::Marked).unwrap();
    tree.checkpoint(9_999_999).unwrap();
    let mp = tree.witness_at_checkpoint_depth(0.into(), 0).unwrap().unwrap();
    let anchor = mp.root(leaf);
    (note, anchor.into(), mp.into())
}

fn sapling_note(k: &Keys, rng: &mut Rng, value: u64) -> (sapling::Note, sapling::Anchor, sapling::MerklePath) {
    let dfvk = k.s_extsk.to_diversifiable_full_viewing_key();
    let recipient = dfvk.default_address().1;
    let mut rs = [0u8; 32];
    rs.copy_from_slice(&rng.bytes(32));
    let note = sapling::Note::from_parts(recipient, sapling::value::NoteValue::from_raw(value), sapling::Rseed::AfterZip212(rs));
    let leaf = sapling::Node::from_cmu(&note.cmu());
    let mut tree = ShardTree::<_, 32, 16>::new(MemoryShardStore::<sapling::Node, u32>::empty(), 100);
    tree.append(leaf, incrementalmerkletree::Retention::Marked).unwrap();
    tree.checkpoint(9_999_999).unwrap();
    let mp = tree.witness_at_checkpoint_depth(0.into(), 0).unwrap().unwrap();
    let anchor = mp.root(leaf);
    (note, anchor.into(), mp)
}

fn outpoint(i: usize) -> OutPoint {
    let mut h = [0x11u8; 32];
    h[0] = i as u8;
    OutPoint::new(h, i as u32)
}

/// Builds the PCZT for `spec`; the last output receives whatever balances the transaction.
fn build_base(spec: &Spec, k: &Keys, rng: &mut Rng) -> Option<Base> {
    let fee_rule = zip317::FeeRule::standard();
    let n_out = spec.tout + spec.sout + spec.oout + spec.iout;
    if n_out == 0 {
        return None;
    }
    let o_in = if spec.ospend { Some(orchard_note(k, rng, 1_000_000)) } else { None };
    let s_in = if spec.sspend { Some(sapling_note(k, rng, 1_000_000)) } else { None };
    let total_in: u64 = spec.tin.iter().sum::<u64>() + if spec.ospend { 1_000_000 } else { 0 } + if spec.sspend { 1_000_000 } else { 0 };
    let each = 10_000u64;

    if spec.deferred {
        // v6, anchors deferred to proving (ZIP 374): Orchard spend -> Orchard/Ironwood outputs
        let mk = |change: u64, rng: &mut Rng| -> Option<DeferredPcztBuilder<LocalNetwork>> {
            let mut b = DeferredPcztBuilder::new::<zip317::FeeRule>(network(true), 10_000_000.into(), BundlePadding::DEFAULT, BundlePadding::DEFAULT).ok()?;
            let (note, _, _) = o_in.clone()?;
            b.add_orchard_spend::<zip317::FeeRule>(k.o_fvk.clone(), note).ok()?;
            let n = spec.oout + spec.iout;
            let mut j = 0;
            let ovk = k.o_fvk.to_ovk(orchard::keys::Scope::External);
            let rcp = k.o_fvk.address_at(0u32, orchard::keys::Scope::External);
            for _ in 0..spec.oout {
                j += 1;
                let v = if j == n { change } else { each };
                b.add_orchard_output::<zip317::FeeRule>(Some(ovk.clone()), rcp, Zatoshis::from_u64(v).ok()?, memo_of(spec.memo)).ok()?;
            }
            for _ in 0..spec.iout {
                j += 1;
                let v = if j == n { change } else { each };
                b.add_ironwood_output::<zip317::FeeRule>(Some(ovk.clone()), rcp, Zatoshis::from_u64(v).ok()?, memo_of(spec.memo)).ok()?;
            }
            let _ = rng;
            Some(b)
        };
        if spec.oout + spec.iout == 0 {
            return None;
        }
        let fee: u64 = mk(1, rng)?.get_fee(&fee_rule).ok()?.into();
        let others = each * (spec.oout + spec.iout - 1) as u64;
        let change = total_in.checked_sub(fee + others)?;
        let PcztResult { pczt_parts, orchard_meta, .. } = mk(change, rng)?.build_for_pczt(&mut rng.0, &fee_rule).ok()?;
        let pczt = Creator::build_from_parts(pczt_parts)?;
        return Some(Base { pczt, spec: spec.clone(), o_spend_idx: orchard_meta.spend_action_index(0), s_spend_idx: None });
    }

    let mk = |change: u64| -> Option<Builder<LocalNetwork, ()>> {
        let mut b = Builder::new(
            network(spec.v6),
            10_000_000.into(),
            BuildConfig::Standard {
                sapling_anchor: if spec.sspend { s_in.as_ref().map(|x| x.1) } else if spec.sout > 0 { Some(sapling::Anchor::empty_tree()) } else { None },
                orchard_anchor: if spec.ospend { o_in.as_ref().map(|x| x.1) } else if spec.oout > 0 { Some(orchard::Anchor::empty_tree()) } else { None },
                ironwood_anchor: if spec.v6 && spec.iout > 0 { Some(orchard::Anchor::empty_tree()) } else { None },
                orchard_padding: BundlePadding::DEFAULT,
                ironwood_padding: BundlePadding::DEFAULT,
            },
        );
        for (i, v) in spec.tin.iter().enumerate() {
            let coin = TxOut::new(Zatoshis::from_u64(*v).ok()?, k.t_addr.script().into());
            b.add_transparent_p2pkh_input(k.t_pk, outpoint(i), coin).ok()?;
        }
        if let Some((note, _, mp)) = o_in.clone() {
            b.add_orchard_spend::<zip317::FeeRule>(k.o_fvk.clone(), note, mp).ok()?;
        }
        if let Some((note, _, mp)) = s_in.clone() {
            let fvk = k.s_extsk.to_diversifiable_full_viewing_key().fvk().clone();
            b.add_sapling_spend::<zip317::FeeRule>(fvk, note, mp).ok()?;
        }
        let mut j = 0;
        let val = |j: usize| if j == n_out { change } else { each };
        for _ in 0..spec.tout {
            j += 1;
            b.add_transparent_output(&k.t_addr, Zatoshis::from_u64(val(j)).ok()?).ok()?;
        }
        for _ in 0..spec.sout {
            j += 1;
            let to = k.s_extsk.to_diversifiable_full_viewing_key().default_address().1;
            b.add_sapling_output::<zip317::FeeRule>(None, to, Zatoshis::from_u64(val(j)).ok()?, memo_of(spec.memo)).ok()?;
        }
        let ovk = k.o_fvk.to_ovk(orchard::keys::Scope::External);
        let rcp = k.o_fvk.address_at(0u32, orchard::keys::Scope::External);
        for _ in 0..spec.oout {
            j += 1;
            b.add_orchard_output::<zip317::FeeRule>(Some(ovk.clone()), rcp, Zatoshis::from_u64(val(j)).ok()?, memo_of(spec.memo)).ok()?;
        }
        for _ in 0..spec.iout {
            j += 1;
            b.add_ironwood_output::<zip317::FeeRule>(Some(ovk.clone()), rcp, Zatoshis::from_u64(val(j)).ok()?, memo_of(spec.memo)).ok()?;
        }
        if spec.zero_tout {
            b.add_transparent_output(&k.t_addr, Zatoshis::ZERO).ok()?;
        }
        Some(b)
    };
    let fee: u64 = mk(1)?.get_fee(&fee_rule).ok()?.into();
    let others = each * (n_out - 1) as u64;
    let change = total_in.checked_sub(fee + others)?;
    let PcztResult { pczt_parts, orchard_meta, sapling_meta, .. } = mk(change)?.build_for_pczt(&mut rng.0, &fee_rule).ok()?;
    let pczt = Creator::build_from_parts(pczt_parts)?;
    Some(Base {
        pczt,
        spec: spec.clone(),
        o_spend_idx: if spec.ospend { orchard_meta.spend_action_index(0) } else { None },
        s_spend_idx: if spec.sspend { sapling_meta.spend_index(0) } else { None },
    })
}

// ---------------------------------------------------------------------------------------------
// Roles applied to per-party copies
// ---------------------------------------------------------------------------------------------

#[derive(Clone, Copy, Debug, PartialEq)]
enum Role {
    Updater = 1,
    Redactor = 2,
    IoFinalizer = 3,
    Signer = 4,
    SpendFinalizer = 5,
    Combiner = 6,
    Prover = 7,
}

fn txid_of(p: &Pczt) -> Option<Vec<u8>> {
    catch(|| zcash_pool_migration::pczt_txid::pczt_txid(p).ok().map(|t| t.as_ref().to_vec())).flatten()
}

struct Ctx<'a> {
    rng: &'a mut Rng,
    k: &'a Keys,
    shapes: &'a mut Shapes,
    n_cases: usize,
    stats: BTreeMap<String, u64>,
    tampered: bool,
}

impl<'a> Ctx<'a> {
    fn bump(&mut self, k: &str) {
        *self.stats.entry(k.into()).or_insert(0) += 1;
    }
    /// Emit a role case: role id, whether the role succeeded, PCZT before/after, txids.
    fn role_case(&mut self, role: Role, sub: u32, before: &Pczt, after: Option<&Pczt>) {
        let mut it = Intern::new();
        let tb = tree(before, &mut it, self.shapes);
        let xb = txid_of(before);
        let xb_s = opt(xb.as_ref().map(|x| format!("{}", it.id(hex(x)))));
        match after {
            Some(a) => {
                let ta = tree(a, &mut it, self.shapes);
                let xa = txid_of(a);
                let xa_s = opt(xa.as_ref().map(|x| format!("{}", it.id(hex(x)))));
                case(format!("CRole {} {} {} (Some {}) {} {}", role as u32, sub, tb, ta, xb_s, xa_s));
                // the same step seen after `resolve_fields` (derived / compact representations expanded)
                let shielded = !before.orchard().actions().is_empty() || !before.ironwood().actions().is_empty();
                if shielded && (self.tampered || role == Role::Redactor) {
                    let mut rb = before.clone();
                    let mut ra = a.clone();
                    let ok = catch(|| rb.resolve_fields().is_ok() && ra.resolve_fields().is_ok()).unwrap_or(false);
                    if ok {
                        let trb = tree(&rb, &mut it, self.shapes);
                        let tra = tree(&ra, &mut it, self.shapes);
                        case(format!("CResolved {} {} {}", role as u32, trb, tra));
                        self.n_cases += 1;
                        self.bump("resolved");
                    }
                }
            }
            None => case(format!("CRole {} {} {} None {} None", role as u32, sub, tb, xb_s)),
        }
        self.n_cases += 1;
        self.bump(&format!("role_{:?}", role));
    }
}

fn derivation(seed: u8, hardened: bool) -> (Vec<u32>, [u8; 32]) {
    let h = if hardened { 1u32 << 31 } else { 0 };
    (vec![h | 44, h | 133, h | seed as u32], [seed; 32])
}

/// A random Updater step. `tagv` differentiates the data written by different parties.
fn updater_step(cx: &mut Ctx, p: &Pczt, tagv: u8) -> Option<Pczt> {
    // (every library call below runs under `catch`: a panic is an outcome, not a harness crash)
    let g = p.clone();
    let n_tin = g.transparent().inputs().len();
    let n_tout = g.transparent().outputs().len();
    let n_ss = g.sapling().spends().len();
    let n_so = g.sapling().outputs().len();
    let n_oa = g.orchard().actions().len();
    let n_ia = g.ironwood().actions().len();
    let mut choices: Vec<u32> = vec![0];
    if n_tin > 0 { choices.extend([1, 2]); }
    if n_tout > 0 { choices.push(3); }
    if n_ss > 0 { choices.push(4); }
    if n_so > 0 { choices.push(5); }
    if n_oa > 0 { choices.extend([6, 7]); }
    if n_ia > 0 { choices.push(8); }
    if *g.global().tx_version() == 6 { choices.extend([9, 10]); }
    let c = *cx.rng.pick(&choices);
    let key = format!("k{}", cx.rng.below(2));
    let val = vec![tagv, cx.rng.below(2) as u8];
    let r = catch(|| match c {
        0 => Some(Updater::new(g).update_global_with(|mut u| u.set_proprietary(key, val)).finish()),
        1 => {
            let i = cx.rng.below(n_tin as u64) as usize;
            let (path, fp) = derivation(tagv, false);
            let pk = cx.k.t_pk.serialize();
            Updater::new(g)
                .update_transparent_with(|mut u| {
                    u.update_input_with(i, |mut iu| {
                        iu.set_bip32_derivation(pk, zcash_transparent::pczt::Bip32Derivation::parse(fp, path).unwrap());
                        Ok(())
                    })
                })
                .ok()
                .map(|u| u.finish())
        }
        2 => {
            let i = cx.rng.below(n_tin as u64) as usize;
            let pre = vec![tagv; 3];
            Updater::new(g)
                .update_transparent_with(|mut u| {
                    u.update_input_with(i, |mut iu| {
                        iu.set_sha256_preimage(pre.clone());
                        iu.set_hash160_preimage(pre.clone());
                        iu.set_proprietary(key, val);
                        Ok(())
                    })
                })
                .ok()
                .map(|u| u.finish())
        }
        3 => {
            let i = cx.rng.below(n_tout as u64) as usize;
            Updater::new(g)
                .update_transparent_with(|mut u| {
                    u.update_output_with(i, |mut ou| {
                        ou.set_user_address(format!("addr{}", val[1]));
                        ou.set_proprietary(key, val);
                        Ok(())
                    })
                })
                .ok()
                .map(|u| u.finish())
        }
        4 => {
            let i = cx.rng.below(n_ss as u64) as usize;
            let (path, fp) = derivation(tagv, true);
            let pgk = cx.k.s_extsk.expsk.proof_generation_key();
            Updater::new(g)
                .update_sapling_with(|mut u| {
                    u.update_spend_with(i, |mut su| {
                        su.set_zip32_derivation(sapling::pczt::Zip32Derivation::parse(fp, path).unwrap());
                        su.set_proprietary(key, val);
                        let _ = su.set_proof_generation_key(pgk.clone());
                        Ok(())
                    })
                })
                .ok()
                .map(|u| u.finish())
        }
        5 => {
            let i = cx.rng.below(n_so as u64) as usize;
            Updater::new(g)
                .update_sapling_with(|mut u| {
                    u.update_output_with(i, |mut ou| {
                        ou.set_user_address(format!("zs{}", val[1]));
                        ou.set_proprietary(key, val);
                        Ok(())
                    })
                })
                .ok()
                .map(|u| u.finish())
        }
        6 | 8 => {
            let n = if c == 6 { n_oa } else { n_ia };
            let i = cx.rng.below(n as u64) as usize;
            let (path, fp) = derivation(tagv, true);
            let f = |mut u: orchard::pczt::Updater<'_>| {
                u.update_action_with(i, |mut au| {
                    au.set_spend_zip32_derivation(orchard::pczt::Zip32Derivation::parse(fp, path).unwrap());
                    au.set_output_user_address(format!("u{}", val[1]));
                    au.set_spend_proprietary(key.clone(), val.clone());
                    au.set_output_proprietary(key, val);
                    Ok(())
                })
            };
            if c == 6 {
                Updater::new(g).update_orchard_with(f).ok().map(|u| u.finish())
            } else {
                Updater::new(g).update_ironwood_with(f).ok().map(|u| u.finish())
            }
        }
        7 => {
            let i = cx.rng.below(n_oa as u64) as usize;
            Updater::new(g)
                .update_orchard_with(|mut u| {
                    u.update_action_with(i, |mut au| {
                        au.set_output_user_address(format!("u{}", val[1]));
                        Ok(())
                    })
                })
                .ok()
                .map(|u| u.finish())
        }
        9 => Updater::new(g).set_orchard_anchor(orchard::Anchor::empty_tree()).ok().map(|u| u.finish()),
        _ => Updater::new(g).set_ironwood_anchor(orchard::Anchor::empty_tree()).ok().map(|u| u.finish()),
    })
    .flatten();
    cx.role_case(Role::Updater, c, p, r.as_ref());
    r
}

/// A random Redactor step (only redactions whose result the receiver can still interpret, plus the
/// self-validating compaction of resolvable fields).
fn redactor_step(cx: &mut Ctx, p: &Pczt) -> Option<Pczt> {
    let c = cx.rng.below(12) as u32;
    let g = p.clone();
    let r = catch(|| match c {
        0 => Redactor::new(g).redact_global_with(|mut r| r.clear_proprietary()).finish(),
        1 => Redactor::new(g)
            .redact_transparent_with(|mut t| {
                t.redact_inputs(|mut i| {
                    i.clear_bip32_derivation();
                    i.clear_sha256_preimages();
                    i.clear_proprietary();
                });
                t.redact_outputs(|mut o| {
                    o.clear_user_address();
                    o.clear_proprietary();
                });
            })
            .finish(),
        2 => Redactor::new(g)
            .redact_transparent_with(|mut t| {
                t.redact_inputs(|mut i| {
                    i.clear_partial_signatures();
                    i.clear_hash160_preimages();
                });
            })
            .finish(),
        3 => Redactor::new(g)
            .redact_sapling_with(|mut s| {
                s.redact_spends(|mut sp| {
                    sp.clear_zip32_derivation();
                    sp.clear_proprietary();
                    sp.clear_alpha();
                    sp.clear_witness();
                });
                s.redact_outputs(|mut o| {
                    o.clear_user_address();
                    o.clear_ock();
                    o.clear_proprietary();
                });
            })
            .finish(),
        4 => Redactor::new(g)
            .redact_sapling_with(|mut s| {
                s.redact_spends(|mut sp| {
                    sp.clear_value();
                    sp.clear_rcv();
                    sp.clear_recipient();
                    sp.clear_rseed();
                    sp.clear_proof_generation_key();
                    sp.clear_spend_auth_sig();
                });
                s.redact_outputs(|mut o| {
                    o.clear_value();
                    o.clear_rcv();
                    o.clear_recipient();
                    o.clear_rseed();
                    o.clear_zip32_derivation();
                });
            })
            .finish(),
        5 | 6 => {
            let f = |mut o: pczt::roles::redactor::orchard::OrchardRedactor<'_>| {
                o.redact_actions(|mut a| {
                    a.clear_spend_zip32_derivation();
                    a.clear_spend_proprietary();
                    a.clear_output_user_address();
                    a.clear_output_proprietary();
                    a.clear_output_zip32_derivation();
                    a.clear_spend_alpha();
                    a.clear_spend_witness();
                    a.clear_spend_fvk();
                    a.clear_output_ock();
                });
            };
            if c == 5 { Redactor::new(g).redact_orchard_with(f).finish() } else { Redactor::new(g).redact_ironwood_with(f).finish() }
        }
        7 | 8 => {
            let f = |mut o: pczt::roles::redactor::orchard::OrchardRedactor<'_>| {
                o.compact_resolvable_fields();
            };
            if c == 7 { Redactor::new(g).redact_orchard_with(f).finish() } else { Redactor::new(g).redact_ironwood_with(f).finish() }
        }
        9 => Redactor::new(g)
            .redact_orchard_with(|mut o| {
                o.redact_actions(|mut a| {
                    a.clear_spend_auth_sig();
                    a.clear_spend_dummy_sk();
                });
                o.clear_zkproof();
            })
            .finish(),
        10 => Redactor::new(g)
            .redact_orchard_with(|mut o| o.clear_bsk())
            .redact_sapling_with(|mut s| s.clear_bsk())
            .finish(),
        _ => Redactor::new(g)
            .redact_orchard_with(|mut o| {
                o.redact_actions(|mut a| {
                    a.clear_output_recipient();
                    a.clear_output_rseed();
                    a.clear_spend_recipient();
                    a.clear_spend_rho();
                    a.clear_spend_rseed();
                });
            })
            .finish(),
    });
    cx.role_case(Role::Redactor, c, p, r.as_ref());
    r
}

fn iofinalizer_step(cx: &mut Ctx, p: &Pczt) -> Option<Pczt> {
    let r = catch(|| IoFinalizer::new(p.clone()).finalize_io().ok()).flatten();
    cx.role_case(Role::IoFinalizer, 0, p, r.as_ref());
    r
}

fn signer_step(cx: &mut Ctx, p: &Pczt, b: &Base) -> Option<Pczt> {
    let n_tin = p.transparent().inputs().len();
    let mut choices: Vec<u32> = vec![];
    if n_tin > 0 { choices.push(0); }
    if b.o_spend_idx.is_some() { choices.push(1); }
    if b.s_spend_idx.is_some() { choices.push(2); }
    if choices.is_empty() {
        return None;
    }
    let c = *cx.rng.pick(&choices);
    let idx_t = cx.rng.below(n_tin.max(1) as u64) as usize;
    let k = cx.k;
    let r = catch(|| {
        let mut s = Signer::new(p.clone()).ok()?;
        match c {
            0 => s.sign_transparent(idx_t, &k.t_sk).ok()?,
            1 => s.sign_orchard(b.o_spend_idx?, &k.o_ask).ok()?,
            _ => s.sign_sapling(b.s_spend_idx?, &k.s_extsk.expsk.ask).ok()?,
        }
        Some(s.finish())
    })
    .flatten();
    cx.role_case(Role::Signer, c, p, r.as_ref());
    r
}

fn spendfinalizer_step(cx: &mut Ctx, p: &Pczt) -> Option<Pczt> {
    let r = catch(|| SpendFinalizer::new(p.clone()).finalize_spends().ok()).flatten();
    cx.role_case(Role::SpendFinalizer, 0, p, r.as_ref());
    r
}

/// One party's copy: a few random role steps on the base.
fn party(cx: &mut Ctx, b: &Base, tagv: u8, conflict_bias: bool) -> Pczt {
    let mut p = b.pczt.clone();
    let steps = cx.rng.range(0, 4);
    for _ in 0..steps {
        let c = cx.rng.below(if conflict_bias { 8 } else { 10 });
        let q = match c {
            0..=3 => updater_step(cx, &p, if conflict_bias { tagv } else { 0 }),
            4 => redactor_step(cx, &p),
            5 => iofinalizer_step(cx, &p),
            6 => signer_step(cx, &p, b),
            7 => spendfinalizer_step(cx, &p),
            _ => updater_step(cx, &p, 0),
        };
        if let Some(q) = q {
            p = q;
        }
    }
    p
}

// ---------------------------------------------------------------------------------------------
// Combination
// ---------------------------------------------------------------------------------------------

#[derive(Clone, Debug)]
enum Expr {
    P(usize),
    C(Vec<Expr>),
}

fn expr_coq(e: &Expr) -> String {
    match e {
        Expr::P(i) => format!("EP {}", i),
        Expr::C(l) => format!("EC [{}]", l.iter().map(|x| format!("({})", expr_coq(x))).collect::<Vec<_>>().join("; ")),
    }
}

fn eval_expr(e: &Expr, ps: &[Pczt]) -> Option<Pczt> {
    match e {
        Expr::P(i) => Some(ps[*i].clone()),
        Expr::C(l) => {
            let mut v = vec![];
            for x in l {
                v.push(eval_expr(x, ps)?);
            }
            Combiner::new(v).combine().ok()
        }
    }
}

fn permutations(n: usize) -> Vec<Vec<usize>> {
    fn go(cur: &mut Vec<usize>, used: &mut Vec<bool>, n: usize, out: &mut Vec<Vec<usize>>) {
        if cur.len() == n {
            out.push(cur.clone());
            return;
        }
        for i in 0..n {
            if !used[i] {
                used[i] = true;
                cur.push(i);
                go(cur, used, n, out);
                cur.pop();
                used[i] = false;
            }
        }
    }
    let mut out = vec![];
    go(&mut vec![], &mut vec![false; n], n, &mut out);
    out
}

/// All flat permutations, plus for every permutation the two-level groupings.
fn exprs(n: usize, rng: &mut Rng, full: bool) -> Vec<Expr> {
    let mut out = vec![];
    for i in 0..n {
        out.push(Expr::C(vec![Expr::P(i)]));
        out.push(Expr::C(vec![Expr::P(i), Expr::P(i)]));
    }
    for i in 0..n {
        for j in 0..n {
            if i != j {
                out.push(Expr::C(vec![Expr::P(i), Expr::P(j)]));
            }
        }
    }
    if n >= 3 {
        for perm in permutations(n) {
            let ps: Vec<Expr> = perm.iter().map(|i| Expr::P(*i)).collect();
            out.push(Expr::C(ps.clone()));
            if full || rng.chance(1, 3) {
                // right-nested grouping a . (b . (c . d))
                let mut e = ps[n - 1].clone();
                for x in ps[..n - 1].iter().rev() {
                    e = Expr::C(vec![x.clone(), e]);
                }
                out.push(e);
                if n == 4 {
                    out.push(Expr::C(vec![Expr::C(vec![ps[0].clone(), ps[1].clone()]), Expr::C(vec![ps[2].clone(), ps[3].clone()])]));
                }
            }
        }
    }
    out
}

fn combine_case(cx: &mut Ctx, ps: &[Pczt], full: bool) {
    let mut it = Intern::new();
    let pts: Vec<String> = ps.iter().map(|p| tree(p, &mut it, cx.shapes)).collect();
    let es = exprs(ps.len(), cx.rng, full);
    let mut tbl: Vec<String> = vec![];
    let mut rs = vec![];
    let mut n_ok = 0;
    for e in &es {
        let r = catch(|| eval_expr(e, ps));
        let o = match r {
            None => "Panic".to_string(),
            Some(None) => "(Ok None)".to_string(),
            Some(Some(q)) => {
                n_ok += 1;
                let t = tree(&q, &mut it, cx.shapes);
                let idx = match pts.iter().chain(tbl.iter()).position(|x| *x == t) {
                    Some(i) => i,
                    None => {
                        tbl.push(t);
                        pts.len() + tbl.len() - 1
                    }
                };
                format!("(Ok (Some {}))", idx)
            }
        };
        rs.push(format!("({}, {})", expr_coq(e), o));
    }
    case(format!("CCombine {} {} {}", list(pts), list(tbl), list(rs)));
    cx.n_cases += 1;
    cx.bump(&format!("combine_n{}", ps.len()));
    cx.bump(if n_ok == 0 { "combine_all_fail" } else if n_ok == es.len() { "combine_all_ok" } else { "combine_mixed" });
}

// ---------------------------------------------------------------------------------------------
// Serialisation
// ---------------------------------------------------------------------------------------------

fn ser_case(cx: &mut Ctx, p: &Pczt) {
    let mut it = Intern::new();
    let t = tree(p, &mut it, cx.shapes);
    let r = catch(|| p.clone().serialize().ok());
    let o = match r {
        None => "Panic".to_string(),
        Some(None) => "(Ok None)".to_string(),
        Some(Some(bytes)) => {
            let ver = u32::from_le_bytes(bytes[4..8].try_into().unwrap());
            let magic_ok = &bytes[..4] == b"PCZT";
            let back = catch(|| Pczt::parse(&bytes).ok()).flatten();
            let back_t = opt(back.as_ref().map(|q| tree(q, &mut it, cx.shapes)));
            // re-serialisation is a fixed point
            let again = back.and_then(|q| q.serialize().ok());
            let stable = again.as_deref() == Some(&bytes[..]);
            cx.bump(&format!("ser_v{}", ver));
            format!("(Ok (Some ({}, {}, {}, {})))", ver, boolc(magic_ok), back_t, boolc(stable))
        }
    };
    // explicit encodings
    let v1 = catch(|| pczt::v1::Pczt::try_from(p.clone()).ok().map(|x| x.serialize())).flatten();
    let v1_back = v1.as_ref().and_then(|b| catch(|| Pczt::parse(b).ok()).flatten());
    let v2 = catch(|| pczt::v2::Pczt::try_from(p.clone()).ok().map(|x| x.serialize())).flatten();
    let v2_back = v2.as_ref().and_then(|b| catch(|| Pczt::parse(b).ok()).flatten());
    let v1s = opt(v1.as_ref().map(|_| opt(v1_back.as_ref().map(|q| tree(q, &mut it, cx.shapes)))));
    let v2s = opt(v2.as_ref().map(|_| opt(v2_back.as_ref().map(|q| tree(q, &mut it, cx.shapes)))));
    case(format!("CSer {} {} {} {}", t, o, v1s, v2s));
    cx.n_cases += 1;
}


/// The logical tree, the serde value of each of its leaves, the bytes `Pczt::serialize` writes and the
/// tree parsed back from them: ties the embedding of logical trees into wire values to the crate.
fn serb_case(cx: &mut Ctx, p: &Pczt) {
    let mut it = Intern::new();
    let t = tree(p, &mut it, cx.shapes);
    let bytes = match catch(|| p.clone().serialize().ok()).flatten() {
        Some(b) => b,
        None => return,
    };
    if bytes.len() > 30_000 {
        return;
    }
    let back = catch(|| Pczt::parse(&bytes).ok()).flatten();
    let back_t = opt(back.as_ref().map(|q| tree(q, &mut it, cx.shapes)));
    let v1ok = catch(|| pczt::v1::Pczt::try_from(p.clone()).is_ok()).unwrap_or(false);
    case(format!("CSerB {} {} {} {} {}", t, it.table(), hn(&bytes), back_t, boolc(v1ok)));
    cx.n_cases += 1;
    cx.bump("serb");
}

/// Malformed stream: mutated encodings must be rejected or parse to something that re-serialises.
fn parse_case(cx: &mut Ctx, bytes: &[u8]) {
    let r = catch(|| Pczt::parse(bytes).ok());
    let impl_ok = matches!(r, Some(Some(_)));
    let o = match r {
        None => "Panic".to_string(),
        Some(None) => "(Ok None)".to_string(),
        Some(Some(q)) => {
            let mut it = Intern::new();
            let t = tree(&q, &mut it, cx.shapes);
            let again = catch(|| q.clone().serialize().ok()).flatten();
            let back = again.as_ref().and_then(|b| catch(|| Pczt::parse(b).ok()).flatten());
            let bt = opt(back.as_ref().map(|x| tree(x, &mut it, cx.shapes)));
            format!("(Ok (Some ({}, {})))", t, bt)
        }
    };
    if bytes.len() <= 4000 {
        case(format!("CMut {} {}", hn(bytes), boolc(impl_ok)));
        cx.n_cases += 1;
    }
    let head: Vec<u8> = bytes.iter().take(8).cloned().collect();
    case(format!("CParse {} {} {}", hn(&head), bytes.len(), o));
    cx.n_cases += 1;
    cx.bump("parse_mutant");
}

/// Rewrites `global.tx_modifiable` in an encoding (the Constructor role, which sets these flags, has
/// no implementation in the crate): the byte follows the postcard encoding of the six preceding
/// integer fields of `Global`.
fn with_flags(p: &Pczt, flags: u8) -> Option<Pczt> {
    #[derive(serde::Deserialize)]
    struct Prefix(u32, u32, u32, Option<u32>, u32, u32);
    let mut bytes = pczt::v2::Pczt::try_from(p.clone()).ok()?.serialize();
    let body = &bytes[8..];
    let (_, rest) = postcard::take_from_bytes::<Prefix>(body).ok()?;
    let pos = bytes.len() - rest.len();
    bytes[pos] = flags;
    catch(|| Pczt::parse(&bytes).ok()).flatten()
}

/// A copy whose Sapling `value_sum` differs (same spends and outputs): the last byte of its varint is
/// edited in the v2 encoding. Only for PCZTs whose encoding ends with
/// `value_sum, Some(anchor), None (bsk), None (orchard), None (ironwood)`.
fn with_sapling_value_sum_tweak(p: &Pczt) -> Option<Pczt> {
    if !p.orchard().actions().is_empty() || !p.ironwood().actions().is_empty() || p.sapling().anchor().is_none() {
        return None;
    }
    let mut bytes = pczt::v2::Pczt::try_from(p.clone()).ok()?.serialize();
    let n = bytes.len();
    if n < 40 || bytes[n - 1] != 0 || bytes[n - 2] != 0 || bytes[n - 3] != 0 || bytes[n - 36] != 1 {
        return None;
    }
    bytes[n - 37] ^= 0x02;
    let q = catch(|| Pczt::parse(&bytes).ok()).flatten()?;
    if q.sapling().value_sum() == p.sapling().value_sum() || q.sapling().outputs().len() != p.sapling().outputs().len() {
        return None;
    }
    Some(q)
}

fn extract_case(cx: &mut Ctx, p: &Pczt) {
    let mut it = Intern::new();
    let t = tree(p, &mut it, cx.shapes);
    let xp = txid_of(p);
    let tx = catch(|| TransactionExtractor::new(p.clone()).extract().ok()).flatten();
    let xt = tx.as_ref().map(|t| t.txid().as_ref().to_vec());
    let a = opt(xp.map(|x| format!("{}", it.id(hex(&x)))));
    let b = opt(xt.map(|x| format!("{}", it.id(hex(&x)))));
    case(format!("CExtract {} {} {}", t, a, b));
    cx.n_cases += 1;
    cx.bump(if tx.is_some() { "extract_ok" } else { "extract_err" });
}



// ---------------------------------------------------------------------------------------------
// The serde tree of a value as a Coq term of type `wval` (coq/C13/Postcard.v)
// ---------------------------------------------------------------------------------------------
mod wtree {
    use serde::ser::{self, Serialize};
    use std::fmt;

    #[derive(Debug)]
    pub struct E(String);
    impl fmt::Display for E {
        fn fmt(&self, f: &mut fmt::Formatter) -> fmt::Result {
            write!(f, "{}", self.0)
        }
    }
    impl std::error::Error for E {}
    impl ser::Error for E {
        fn custom<T: fmt::Display>(m: T) -> Self {
            E(m.to_string())
        }
    }

    pub struct S;
    pub struct Seq {
        items: Vec<String>,
        variant: Option<u32>,
    }
    pub struct Map {
        items: Vec<String>,
        key: Option<String>,
    }

    fn vl(items: &[String]) -> String {
        format!("(VL [{}])", items.join("; "))
    }
    pub fn to_coq<T: Serialize + ?Sized>(v: &T) -> Result<String, E> {
        v.serialize(S)
    }

    impl ser::Serializer for S {
        type Ok = String;
        type Error = E;
        type SerializeSeq = Seq;
        type SerializeTuple = Seq;
        type SerializeTupleStruct = Seq;
        type SerializeTupleVariant = Seq;
        type SerializeMap = Map;
        type SerializeStruct = Seq;
        type SerializeStructVariant = Seq;

        fn serialize_bool(self, v: bool) -> Result<String, E> {
            Ok(format!("(VB {})", v))
        }
        fn serialize_i8(self, v: i8) -> Result<String, E> {
            Ok(format!("(VZ ({}))", v))
        }
        fn serialize_i16(self, v: i16) -> Result<String, E> {
            Ok(format!("(VZ ({}))", v))
        }
        fn serialize_i32(self, v: i32) -> Result<String, E> {
            Ok(format!("(VZ ({}))", v))
        }
        fn serialize_i64(self, v: i64) -> Result<String, E> {
            Ok(format!("(VZ ({}))", v))
        }
        fn serialize_i128(self, v: i128) -> Result<String, E> {
            Ok(format!("(VZ ({}))", v))
        }
        fn serialize_u8(self, v: u8) -> Result<String, E> {
            Ok(format!("(VN {})", v))
        }
        fn serialize_u16(self, v: u16) -> Result<String, E> {
            Ok(format!("(VN {})", v))
        }
        fn serialize_u32(self, v: u32) -> Result<String, E> {
            Ok(format!("(VN {})", v))
        }
        fn serialize_u64(self, v: u64) -> Result<String, E> {
            Ok(format!("(VN {})", v))
        }
        fn serialize_u128(self, v: u128) -> Result<String, E> {
            Ok(format!("(VN {})", v))
        }
        fn serialize_f32(self, _v: f32) -> Result<String, E> {
            Err(E("f32".into()))
        }
        fn serialize_f64(self, _v: f64) -> Result<String, E> {
            Err(E("f64".into()))
        }
        fn serialize_char(self, _v: char) -> Result<String, E> {
            Err(E("char".into()))
        }
        fn serialize_str(self, v: &str) -> Result<String, E> {
            self.serialize_bytes(v.as_bytes())
        }
        fn serialize_bytes(self, v: &[u8]) -> Result<String, E> {
            Ok(vl(&v.iter().map(|b| format!("(VN {})", b)).collect::<Vec<_>>()))
        }
        fn serialize_none(self) -> Result<String, E> {
            Ok("(VO None)".into())
        }
        fn serialize_some<T: Serialize + ?Sized>(self, v: &T) -> Result<String, E> {
            Ok(format!("(VO (Some {}))", v.serialize(S)?))
        }
        fn serialize_unit(self) -> Result<String, E> {
            Ok("(VL [])".into())
        }
        fn serialize_unit_struct(self, _n: &'static str) -> Result<String, E> {
            Ok("(VL [])".into())
        }
        fn serialize_unit_variant(self, _n: &'static str, i: u32, _v: &'static str) -> Result<String, E> {
            Ok(format!("(VE {} (VL []))", i))
        }
        fn serialize_newtype_struct<T: Serialize + ?Sized>(self, _n: &'static str, v: &T) -> Result<String, E> {
            v.serialize(S)
        }
        fn serialize_newtype_variant<T: Serialize + ?Sized>(self, _n: &'static str, i: u32, _v: &'static str, v: &T) -> Result<String, E> {
            Ok(format!("(VE {} {})", i, v.serialize(S)?))
        }
        fn serialize_seq(self, _len: Option<usize>) -> Result<Seq, E> {
            Ok(Seq { items: vec![], variant: None })
        }
        fn serialize_tuple(self, _len: usize) -> Result<Seq, E> {
            Ok(Seq { items: vec![], variant: None })
        }
        fn serialize_tuple_struct(self, _n: &'static str, _len: usize) -> Result<Seq, E> {
            Ok(Seq { items: vec![], variant: None })
        }
        fn serialize_tuple_variant(self, _n: &'static str, i: u32, _v: &'static str, _len: usize) -> Result<Seq, E> {
            Ok(Seq { items: vec![], variant: Some(i) })
        }
        fn serialize_map(self, _len: Option<usize>) -> Result<Map, E> {
            Ok(Map { items: vec![], key: None })
        }
        fn serialize_struct(self, _n: &'static str, _len: usize) -> Result<Seq, E> {
            Ok(Seq { items: vec![], variant: None })
        }
        fn serialize_struct_variant(self, _n: &'static str, i: u32, _v: &'static str, _len: usize) -> Result<Seq, E> {
            Ok(Seq { items: vec![], variant: Some(i) })
        }
        fn is_human_readable(&self) -> bool {
            false
        }
    }

    impl Seq {
        fn push<T: Serialize + ?Sized>(&mut self, v: &T) -> Result<(), E> {
            self.items.push(v.serialize(S)?);
            Ok(())
        }
        fn done(self) -> Result<String, E> {
            Ok(match self.variant {
                None => vl(&self.items),
                Some(i) => format!("(VE {} {})", i, vl(&self.items)),
            })
        }
    }
    impl ser::SerializeSeq for Seq {
        type Ok = String;
        type Error = E;
        fn serialize_element<T: Serialize + ?Sized>(&mut self, v: &T) -> Result<(), E> {
            self.push(v)
        }
        fn end(self) -> Result<String, E> {
            self.done()
        }
    }
    impl ser::SerializeTuple for Seq {
        type Ok = String;
        type Error = E;
        fn serialize_element<T: Serialize + ?Sized>(&mut self, v: &T) -> Result<(), E> {
            self.push(v)
        }
        fn end(self) -> Result<String, E> {
            self.done()
        }
    }
    impl ser::SerializeTupleStruct for Seq {
        type Ok = String;
        type Error = E;
        fn serialize_field<T: Serialize + ?Sized>(&mut self, v: &T) -> Result<(), E> {
            self.push(v)
        }
        fn end(self) -> Result<String, E> {
            self.done()
        }
    }
    impl ser::SerializeTupleVariant for Seq {
        type Ok = String;
        type Error = E;
        fn serialize_field<T: Serialize + ?Sized>(&mut self, v: &T) -> Result<(), E> {
            self.push(v)
        }
        fn end(self) -> Result<String, E> {
            self.done()
        }
    }
    impl ser::SerializeStruct for Seq {
        type Ok = String;
        type Error = E;
        fn serialize_field<T: Serialize + ?Sized>(&mut self, _k: &'static str, v: &T) -> Result<(), E> {
            self.push(v)
        }
        fn end(self) -> Result<String, E> {
            self.done()
        }
    }
    impl ser::SerializeStructVariant for Seq {
        type Ok = String;
        type Error = E;
        fn serialize_field<T: Serialize + ?Sized>(&mut self, _k: &'static str, v: &T) -> Result<(), E> {
            self.push(v)
        }
        fn end(self) -> Result<String, E> {
            self.done()
        }
    }
    impl ser::SerializeMap for Map {
        type Ok = String;
        type Error = E;
        fn serialize_key<T: Serialize + ?Sized>(&mut self, k: &T) -> Result<(), E> {
            self.key = Some(k.serialize(S)?);
            Ok(())
        }
        fn serialize_value<T: Serialize + ?Sized>(&mut self, v: &T) -> Result<(), E> {
            let k = self.key.take().ok_or_else(|| E("value without key".into()))?;
            self.items.push(format!("(VL [{}; {}])", k, v.serialize(S)?));
            Ok(())
        }
        fn end(self) -> Result<String, E> {
            Ok(vl(&self.items))
        }
    }
}

/// The serde tree of both explicit encodings together with the bytes the crate writes.
fn bytes_case(cx: &mut Ctx, p: &Pczt) {
    if let Some(x) = catch(|| pczt::v1::Pczt::try_from(p.clone()).ok()).flatten() {
        if let Ok(t) = wtree::to_coq(&x) {
            case(format!("CBytes 1 {} {}", t, hn(&x.serialize())));
            cx.n_cases += 1;
            cx.bump("bytes_v1");
        }
    }
    if let Some(x) = catch(|| pczt::v2::Pczt::try_from(p.clone()).ok()).flatten() {
        if let Ok(t) = wtree::to_coq(&x) {
            case(format!("CBytes 2 {} {}", t, hn(&x.serialize())));
            cx.n_cases += 1;
            cx.bump("bytes_v2");
        }
    }
}

// ---------------------------------------------------------------------------------------------
// The transaction a PCZT describes, as the implementation computes it (Pczt::into_effects)
// ---------------------------------------------------------------------------------------------

fn btext(b: &[u8]) -> String {
    format!("[{}]", b.iter().map(|x| x.to_string()).collect::<Vec<_>>().join(","))
}

fn orchard_tx(b: Option<&orchard::Bundle<orchard::bundle::EffectsOnly, zcash_protocol::value::ZatBalance>>, v6: bool, it: &mut Intern) -> Option<String> {
    let b = match b {
        None => return Some("DA 0".into()),
        Some(b) => b,
    };
    let acts: Vec<String> = b
        .actions()
        .iter()
        .map(|a| {
            let rk: [u8; 32] = a.rk().into();
            let en = a.encrypted_note();
            format!(
                "DS [DA {}; DA {}; DA {}; DA {}; DA {}; DA {}; DA {}]",
                it.id(btext(&a.nullifier().to_bytes())),
                it.id(btext(&rk)),
                it.id(btext(&a.cmx().to_bytes())),
                it.id(btext(&en.epk_bytes)),
                it.id(btext(&en.enc_ciphertext)),
                it.id(btext(&en.out_ciphertext)),
                it.id(btext(&a.cv_net().to_bytes()))
            )
        })
        .collect();
    let flags = b.flags().to_byte(b.bundle_version())?;
    let vb: i64 = (*b.value_balance()).into();
    let vs = format!("({},{}())", vb.unsigned_abs(), if vb < 0 { "true" } else { "false" });
    let an = if v6 { "DA 0".to_string() } else { format!("DA {}", it.id(btext(&b.anchor().to_bytes()))) };
    Some(format!("DS [DL [{}]; DN {}; DA {}; {}]", acts.join("; "), flags, it.id(vs), an))
}

/// The effects as a Coq term of the layout documented at `tx_post` in coq/C13/Model.v.
fn effects_tree(p: &Pczt, it: &mut Intern) -> Option<String> {
    use zcash_transparent::sighash::TransparentAuthorizingContext;
    let t = catch(|| p.clone().into_effects().ok()).flatten()?;
    let txv = *p.global().tx_version();
    let v6 = txv == 6;
    let (mut vin, mut vout) = (vec![], vec![]);
    if let Some(b) = t.transparent_bundle() {
        let amounts = b.authorization.input_amounts();
        let scripts = b.authorization.input_scriptpubkeys();
        for (i, x) in b.vin.iter().enumerate() {
            vin.push(format!(
                "DS [DA {}; DN {}; DA {}; DN {}; DA {}]",
                it.id(btext(x.prevout().hash())),
                x.prevout().n(),
                it.id(x.sequence().to_string()),
                u64::from(amounts[i]),
                it.id(btext(&scripts[i].0 .0))
            ));
        }
        for o in b.vout.iter() {
            vout.push(format!("DS [DN {}; DA {}]", u64::from(o.value()), it.id(btext(&o.script_pubkey().0 .0))));
        }
    }
    let sap = match t.sapling_bundle() {
        None => "DA 0".to_string(),
        Some(b) => {
            let sp: Vec<String> = b
                .shielded_spends()
                .iter()
                .map(|s| {
                    let rk: [u8; 32] = (*s.rk()).into();
                    format!("DS [DA {}; DA {}; DA {}]", it.id(btext(&s.cv().to_bytes())), it.id(btext(&s.nullifier().0)), it.id(btext(&rk)))
                })
                .collect();
            let an = match b.shielded_spends().first() {
                Some(s) if !v6 => format!("DA {}", it.id(btext(&s.anchor().to_bytes()))),
                _ => "DA 0".to_string(),
            };
            let ou: Vec<String> = b
                .shielded_outputs()
                .iter()
                .map(|o| {
                    format!(
                        "DS [DA {}; DA {}; DA {}; DA {}; DA {}]",
                        it.id(btext(&o.cv().to_bytes())),
                        it.id(btext(&o.cmu().to_bytes())),
                        it.id(btext(&o.ephemeral_key().0)),
                        it.id(btext(&o.enc_ciphertext()[..])),
                        it.id(btext(&o.out_ciphertext()[..]))
                    )
                })
                .collect();
            let vb: i64 = (*b.value_balance()).into();
            format!("DS [DL [{}]; {}; DL [{}]; DN {}]", sp.join("; "), an, ou.join("; "), z(vb as i128))
        }
    };
    let orc = orchard_tx(t.orchard_bundle(), v6, it)?;
    let iro = orchard_tx(t.ironwood_bundle(), v6, it)?;
    Some(format!(
        "(DS [DN {}; DN {}; DN {}; DA {}; DN {}; DL [{}]; DL [{}]; {}; {}; {}])",
        txv,
        t.version().version_group_id(),
        u32::from(t.consensus_branch_id()),
        it.id(t.lock_time().to_string()),
        u32::from(t.expiry_height()),
        vin.join("; "),
        vout.join("; "),
        sap,
        orc,
        iro
    ))
}

fn effects_case(cx: &mut Ctx, p: &Pczt) {
    let mut it = Intern::new();
    let t = tree(p, &mut it, cx.shapes);
    let e = effects_tree(p, &mut it);
    cx.bump(if e.is_some() { "effects_some" } else { "effects_none" });
    case(format!("CEffects {} {}", t, opt(e)));
    cx.n_cases += 1;
}


// ---------------------------------------------------------------------------------------------
// Inconsistent-but-parseable PCZTs: one advertised note field of an Orchard / Ironwood output is
// edited in the v2 encoding (the ciphertext, cmx and cv_net keep describing the original note)
// ---------------------------------------------------------------------------------------------

fn varint(mut v: u64) -> Vec<u8> {
    let mut out = vec![];
    loop {
        if v < 128 {
            out.push(v as u8);
            return out;
        }
        out.push((v & 0x7f) as u8 | 0x80);
        v >>= 7;
    }
}

fn find_unique(hay: &[u8], needle: &[u8]) -> Option<usize> {
    let mut found = None;
    if needle.is_empty() || hay.len() < needle.len() {
        return None;
    }
    for i in 0..=(hay.len() - needle.len()) {
        if &hay[i..i + needle.len()] == needle {
            if found.is_some() {
                return None;
            }
            found = Some(i);
        }
    }
    found
}

/// kind 0: advertised value + 1 (or - 1); 1: one bit of the recipient's diversifier; 2: one bit of rseed.
fn tamper_output(p: &Pczt, ironwood: bool, idx: usize, kind: u32, rng: &mut Rng) -> Option<Pczt> {
    let b = if ironwood { p.ironwood() } else { p.orchard() };
    let a = b.actions().get(idx)?;
    let rcp = (*a.output().recipient())?;
    let val = (*a.output().value())?;
    let mut bytes = pczt::v2::Pczt::try_from(p.clone()).ok()?.serialize();
    let vi = varint(val);
    let mut pat = vec![1u8];
    pat.extend_from_slice(&rcp);
    pat.push(1);
    pat.extend_from_slice(&vi);
    pat.push(1); // rseed: Some
    let pos = find_unique(&bytes, &pat)?;
    match kind {
        0 => {
            let nv = if val & 0x7f != 0x7f { val + 1 } else { val - 1 };
            let ni = varint(nv);
            if ni.len() != vi.len() {
                return None;
            }
            let at = pos + 1 + 43 + 1;
            bytes[at..at + ni.len()].copy_from_slice(&ni);
        }
        1 => {
            let at = pos + 1 + rng.below(11) as usize;
            bytes[at] ^= 1 << rng.below(8);
        }
        _ => {
            let at = pos + pat.len() + rng.below(32) as usize;
            bytes[at] ^= 1 << rng.below(8);
        }
    }
    let q = catch(|| Pczt::parse(&bytes).ok()).flatten()?;
    Some(q)
}


/// A copy whose first transparent input requires a lock time (kind 0: height 500, kind 1: time
/// 500000001): the `None` of the field is replaced by `Some(varint)` in the v2 encoding (the crate
/// has no Constructor role that would set it).
fn with_required_lock_time(p: &Pczt, kind: u32) -> Option<Pczt> {
    let inp = p.transparent().inputs().first()?;
    if inp.sequence().is_some() {
        return None;
    }
    let mut pat: Vec<u8> = inp.prevout_txid().to_vec();
    pat.extend_from_slice(&varint(*inp.prevout_index() as u64));
    pat.extend_from_slice(&[0, 0, 0]); // sequence, required_time_lock_time, required_height_lock_time: None
    let bytes = pczt::v2::Pczt::try_from(p.clone()).ok()?.serialize();
    let pos = find_unique(&bytes, &pat)?;
    let at = pos + pat.len() - if kind == 0 { 1 } else { 2 };
    let mut out = bytes[..at].to_vec();
    out.push(1);
    out.extend_from_slice(&varint(if kind == 0 { 500 } else { 500_000_001 }));
    out.extend_from_slice(&bytes[at + 1..]);
    catch(|| Pczt::parse(&out).ok()).flatten()
}

/// Sign every transparent input, finalise the spends and extract, on a copy with a required lock time.
fn lock_time_flow(cx: &mut Ctx, b: &Base, kind: u32) {
    let t = match with_required_lock_time(&b.pczt, kind) {
        Some(t) => t,
        None => return,
    };
    cx.bump(&format!("required_lock_time{}", kind));
    effects_case(cx, &t);
    let mut p = t.clone();
    if let Some(q) = iofinalizer_step(cx, &p) {
        p = q;
    }
    let k = cx.k;
    for i in 0..p.transparent().inputs().len() {
        let r = catch(|| {
            let mut s = Signer::new(p.clone()).ok()?;
            s.sign_transparent(i, &k.t_sk).ok()?;
            Some(s.finish())
        })
        .flatten();
        cx.role_case(Role::Signer, 0, &p, r.as_ref());
        if let Some(q) = r {
            p = q;
        }
    }
    if let Some(q) = spendfinalizer_step(cx, &p) {
        extract_case(cx, &q);
    }
}

fn compact_all(p: &Pczt) -> Pczt {
    catch(|| {
        Redactor::new(p.clone())
            .redact_orchard_with(|mut o| o.compact_resolvable_fields())
            .redact_ironwood_with(|mut o| o.compact_resolvable_fields())
            .finish()
    })
    .unwrap_or_else(|| p.clone())
}

/// Role steps on tampered copies: the identifier and the (resolved) effecting fields must not move.
fn tamper_stream(cx: &mut Ctx, b: &Base, rounds: usize) {
    cx.tampered = true;
    for round in 0..rounds {
        let ironwood = !b.pczt.ironwood().actions().is_empty() && (b.pczt.orchard().actions().is_empty() || cx.rng.bool());
        let n = if ironwood { b.pczt.ironwood().actions().len() } else { b.pczt.orchard().actions().len() };
        if n == 0 {
            break;
        }
        let idx = cx.rng.below(n as u64) as usize;
        let kind = if round < 2 { 0 } else { cx.rng.below(3) as u32 };
        // the first rounds tamper every action in turn so that the paying output is always hit
        let idx = if round < n { round } else { idx };
        let t = match tamper_output(&b.pczt, ironwood, idx, kind, cx.rng) {
            Some(t) => t,
            None => {
                cx.bump("tamper_unavailable");
                continue;
            }
        };
        cx.bump(&format!("tamper_kind{}", kind));
        // Redactor: compaction of resolvable fields
        let r = compact_all(&t);
        cx.role_case(Role::Redactor, 30 + kind, &t, Some(&r));
        // ... and the other roles on the tampered copy and on its compacted form
        for src in [&t, &r] {
            match cx.rng.below(4) {
                0 => {
                    updater_step(cx, src, 0);
                }
                1 => {
                    iofinalizer_step(cx, src);
                }
                2 => {
                    signer_step(cx, src, b);
                }
                _ => {
                    redactor_step(cx, src);
                }
            }
        }
        if let Some(f) = iofinalizer_step(cx, &t) {
            let r2 = compact_all(&f);
            cx.role_case(Role::Redactor, 40 + kind, &f, Some(&r2));
        }
    }
    cx.tampered = false;
}

// ---------------------------------------------------------------------------------------------

fn random_spec(rng: &mut Rng) -> Spec {
    let v6 = rng.bool();
    let kind = rng.below(8);
    let mut s = Spec { v6, memo: rng.below(4) as u8, ..Default::default() };
    match kind {
        0 => {
            // transparent only
            s.tin = vec![1_000_000; rng.range(1, 3) as usize];
            s.tout = rng.range(1, 2) as usize;
        }
        1 => {
            s.tin = vec![1_000_000; rng.range(1, 2) as usize];
            s.tout = rng.below(2) as usize;
            s.oout = rng.range(1, 2) as usize;
        }
        2 => {
            s.tin = vec![1_000_000];
            s.sout = rng.range(1, 2) as usize;
            s.tout = rng.below(2) as usize;
        }
        3 => {
            s.ospend = true;
            s.oout = rng.range(1, 2) as usize;
            s.tout = rng.below(2) as usize;
        }
        4 => {
            s.sspend = true;
            s.sout = rng.range(1, 2) as usize;
            s.oout = rng.below(2) as usize;
        }
        5 => {
            s.v6 = true;
            s.tin = vec![1_000_000];
            s.iout = rng.range(1, 2) as usize;
            s.oout = rng.below(2) as usize;
        }
        6 => {
            s.v6 = true;
            s.deferred = true;
            s.ospend = true;
            s.oout = rng.below(2) as usize;
            s.iout = rng.range(1, 2) as usize;
        }
        _ => {
            s.tin = vec![1_000_000];
            s.ospend = rng.bool();
            s.sout = 1;
            s.oout = 1;
            s.tout = 1;
        }
    }
    s
}

/// Creator-made empty PCZT compatible with `b` (all-modifiable flags; no inputs or outputs).
fn template(b: &Base) -> Option<Pczt> {
    template_with(b, true)
}

fn template_with(b: &Base, fallback: bool) -> Option<Pczt> {
    let g = b.pczt.global();
    let sa = *b.pczt.sapling().anchor();
    let oa = *b.pczt.orchard().anchor();
    let mut c = Creator::new(*g.consensus_branch_id(), *g.expiry_height(), 1, sa, oa).ok()?;
    if fallback {
        c = c.with_fallback_lock_time(0);
    }
    if let Some(a) = b.pczt.ironwood().anchor() {
        c = c.with_ironwood_anchor(*a).ok()?;
    }
    c.build().ok()
}

fn main() {
    let a = args();
    quiet_panics();
    let mut rng = Rng::new(a.seed, 13);
    let mut shapes = Shapes::new();
    let n_scen = a.budget(40, 600);
    let k5 = keys(false);
    let k6 = keys(true);
    let mut out_stats = BTreeMap::new();
    let mut total = 0usize;
    let mut sers: Vec<Vec<u8>> = vec![];

    let mut run = |rng: &mut Rng, shapes: &mut Shapes, spec: &Spec, mode: u32| {
        let k = if spec.v6 { &k6 } else { &k5 };
        let b = match catch(|| build_base(spec, k, rng)).flatten() {
            Some(b) => b,
            None => return,
        };
        let mut cx = Ctx { rng, k, shapes, n_cases: 0, stats: BTreeMap::new(), tampered: false };
        cx.bump(&format!("spec_v{}_t{}_{}_s{}{}_o{}{}_i{}{}", if spec.v6 { 6 } else { 5 }, spec.tin.len(), spec.tout, spec.sspend as u8, spec.sout, spec.ospend as u8, spec.oout, spec.iout, if spec.deferred { "_deferred" } else { "" }));
        let n = cx.rng.range(2, 4) as usize;
        let mut ps: Vec<Pczt> = vec![];
        match mode {
            0 | 1 => {
                for i in 0..n {
                    ps.push(party(&mut cx, &b, i as u8 + 1, mode == 1));
                }
            }
            2 => {
                // Creator template (empty, all-modifiable) + flag variants: vector extension
                if let Some(t) = template(&b) {
                    ps.push(t);
                }
                ps.push(party(&mut cx, &b, 1, false));
                let fl = *cx.rng.pick(&[0x83u8, 0x80, 0x03, 0x01, 0x02, 0x00, 0x04, 0x87, 0x08, 0x10, 0x43]);
                if let Some(q) = with_flags(&b.pczt, fl) {
                    ps.push(q);
                }
                if cx.rng.chance(1, 3) || spec.sout + spec.oout + spec.iout == 0 {
                    // a Creator copy that disagrees on the fallback lock time (an effecting field)
                    if let Some(t) = template_with(&b, false) {
                        cx.bump("template_no_fallback");
                        ps.push(t);
                    }
                }
                if n == 4 {
                    if let Some(t) = template(&b).and_then(|t| with_flags(&t, *cx.rng.pick(&[0x00u8, 0x80, 0x03, 0x83]))) {
                        ps.push(t);
                    }
                }
            }
            _ => {
                // finalised vs unfinalised copies (bsk present on some parties only)
                ps.push(b.pczt.clone());
                if let Some(f) = iofinalizer_step(&mut cx, &b.pczt) {
                    ps.push(f.clone());
                    if cx.rng.bool() {
                        if let Some(s) = signer_step(&mut cx, &f, &b) {
                            ps.push(s);
                        }
                    }
                }
                if cx.rng.bool() {
                    ps.push(party(&mut cx, &b, 2, false));
                }
                if let Some(q) = with_sapling_value_sum_tweak(&b.pczt) {
                    cx.bump("value_sum_tweak");
                    ps.push(q);
                }
            }
        }
        ps.truncate(4);
        if ps.len() >= 2 {
            let full = cx.rng.chance(1, 4);
            combine_case(&mut cx, &ps, full);
        }
        for p in ps.iter() {
            if cx.rng.chance(1, 2) {
                ser_case(&mut cx, p);
            }
            if cx.rng.chance(1, 2) {
                effects_case(&mut cx, p);
            }
            if cx.rng.chance(1, 4) {
                serb_case(&mut cx, p);
            }
        }
        effects_case(&mut cx, &b.pczt);
        if cx.rng.chance(1, 3) {
            let q = ps[cx.rng.below(ps.len() as u64) as usize].clone();
            bytes_case(&mut cx, &q);
        }
        if let Ok(bytes) = ps[0].clone().serialize() {
            sers.push(bytes);
        }
        if spec.oout + spec.iout > 0 && (mode == 0 || cx.rng.chance(1, 3)) {
            let rounds = if mode == 0 { 3 } else { 2 };
            tamper_stream(&mut cx, &b, rounds);
        }
        // compaction of resolvable fields (memo plaintext instead of the ciphertext), then encode
        if spec.oout + spec.iout > 0 {
            let r = compact_all(&b.pczt);
            cx.role_case(Role::Redactor, 20, &b.pczt, Some(&r));
            ser_case(&mut cx, &r);
            effects_case(&mut cx, &r);
            if cx.rng.chance(1, 3) || spec.memo == 1 {
                bytes_case(&mut cx, &r);
                serb_case(&mut cx, &r);
            }
            cx.bump(&format!("compact_memo{}", spec.memo));
        }
        // transparent-only: complete the transaction and extract it
        if spec.sout + spec.oout + spec.iout == 0 && !spec.ospend && !spec.sspend {
            let mut p = b.pczt.clone();
            let mut ok = true;
            // (the Sapling extractor wants `bsk` even for an empty bundle: IO-finalise first)
            if let Some(q) = iofinalizer_step(&mut cx, &p) {
                p = q;
            }
            for i in 0..spec.tin.len() {
                let r = catch(|| {
                    let mut s = Signer::new(p.clone()).ok()?;
                    s.sign_transparent(i, &k.t_sk).ok()?;
                    Some(s.finish())
                })
                .flatten();
                cx.role_case(Role::Signer, 0, &p, r.as_ref());
                match r {
                    Some(q) => p = q,
                    None => ok = false,
                }
            }
            if ok {
                if let Some(q) = spendfinalizer_step(&mut cx, &p) {
                    extract_case(&mut cx, &q);
                }
            }
            extract_case(&mut cx, &b.pczt);
            lock_time_flow(&mut cx, &b, mode % 2);
        }
        total += cx.n_cases;
        for (k, v) in cx.stats {
            *out_stats.entry(k).or_insert(0u64) += v;
        }
    };

    // corpus: fixed scenarios always present (boundary lattice over pools x tx formats)
    let mut corpus: Vec<(Spec, u32)> = vec![];
    for v6 in [false, true] {
        for mode in 0..4u32 {
            corpus.push((Spec { v6, tin: vec![1_000_000], tout: 1, ..Default::default() }, mode));
            corpus.push((Spec { v6, tin: vec![1_000_000], oout: 1, memo: (mode % 4) as u8, ..Default::default() }, mode));
            corpus.push((Spec { v6, tin: vec![1_000_000], sout: 1, ..Default::default() }, mode));
            corpus.push((Spec { v6, ospend: true, oout: 1, ..Default::default() }, mode));
            corpus.push((Spec { v6, sspend: true, sout: 1, ..Default::default() }, mode));
        }
    }
    for mode in 0..4u32 {
        corpus.push((Spec { v6: true, tin: vec![1_000_000], iout: 1, memo: (mode % 4) as u8, ..Default::default() }, mode));
        corpus.push((Spec { v6: true, deferred: true, ospend: true, iout: 1, ..Default::default() }, mode));
    }
    for (s, m) in corpus.iter() {
        if catch(|| run(&mut rng, &mut shapes, s, *m)).is_none() {
            stat("{\"scenario_panicked\": 1}".into());
        }
    }
    for _ in 0..n_scen {
        let s = random_spec(&mut rng);
        let m = rng.below(4) as u32;
        if catch(|| run(&mut rng, &mut shapes, &s, m)).is_none() {
            stat("{\"scenario_panicked\": 1}".into());
        }
    }
    drop(run);

    // prefix families (transparent-only, zero-valued extra input/output keep the fee unchanged)
    {
        let k = &k5;
        let fam: Vec<Spec> = vec![
            Spec { tin: vec![110_000], tout: 1, ..Default::default() },
            Spec { tin: vec![110_000], tout: 1, zero_tout: true, ..Default::default() },
            Spec { tin: vec![110_000, 0], tout: 1, ..Default::default() },
            Spec { tin: vec![110_000, 0], tout: 1, zero_tout: true, ..Default::default() },
        ];
        let bases: Vec<Base> = fam.iter().filter_map(|s| build_base(s, k, &mut rng)).collect();
        let mut cx = Ctx { rng: &mut rng, k, shapes: &mut shapes, n_cases: 0, stats: BTreeMap::new(), tampered: false };
        cx.bump(&format!("prefix_family_{}", bases.len()));
        let flagsets: [u8; 6] = [0x83, 0x03, 0x01, 0x02, 0x00, 0x80];
        let rounds = a.budget(40, 300);
        for _ in 0..rounds {
            if bases.len() < 2 {
                break;
            }
            let n = cx.rng.range(2, 4) as usize;
            let mut ps = vec![];
            for _ in 0..n {
                let b = &bases[cx.rng.below(bases.len() as u64) as usize];
                let f = *cx.rng.pick(&flagsets);
                let mut p = with_flags(&b.pczt, f).unwrap_or_else(|| b.pczt.clone());
                if cx.rng.chance(1, 3) {
                    if let Some(q) = updater_step(&mut cx, &p, 0) {
                        p = q;
                    }
                }
                ps.push(p);
            }
            combine_case(&mut cx, &ps, true);
        }
        total += cx.n_cases;
        for (k, v) in cx.stats {
            *out_stats.entry(k).or_insert(0u64) += v;
        }
    }

    // malformed stream: byte mutations, truncations, header lattice
    {
        let k = &k5;
        let mut cx = Ctx { rng: &mut rng, k, shapes: &mut shapes, n_cases: 0, stats: BTreeMap::new(), tampered: false };
        let n_mut = a.budget(150, 2000);
        for i in 0..n_mut {
            if sers.is_empty() {
                break;
            }
            let mut b = sers[i % sers.len()].clone();
            match cx.rng.below(5) {
                0 => {
                    let l = cx.rng.below(b.len() as u64 + 1) as usize;
                    b.truncate(l);
                }
                1 => {
                    let v = *cx.rng.pick(&[0u32, 1, 2, 3, 0xffff_ffff]);
                    if b.len() >= 8 {
                        b[4..8].copy_from_slice(&v.to_le_bytes());
                    }
                }
                2 => {
                    if !b.is_empty() {
                        let p = cx.rng.below(b.len().min(12) as u64) as usize;
                        b[p] ^= 1 << cx.rng.below(8);
                    }
                }
                _ => {
                    for _ in 0..cx.rng.range(1, 3) {
                        let p = cx.rng.below(b.len() as u64) as usize;
                        b[p] = cx.rng.below(256) as u8;
                    }
                }
            }
            parse_case(&mut cx, &b);
        }
        for l in 0..10usize {
            parse_case(&mut cx, &b"PCZT\x01\x00\x00\x00\x00\x00"[..l]);
        }
        total += cx.n_cases;
        for (k, v) in cx.stats {
            *out_stats.entry(k).or_insert(0u64) += v;
        }
    }

    // shape case (names of the positional records)
    let sh: Vec<String> = shapes
        .iter()
        .map(|(p, (n, fs))| format!("(\"{}\"%string, \"{}\"%string, [{}])", p, n, fs.iter().map(|f| format!("\"{}\"%string", f)).collect::<Vec<_>>().join("; ")))
        .collect();
    case(format!("CShape [{}]", sh.join("; ")));

    let st: Vec<String> = out_stats.iter().map(|(k, v)| format!("\"{}\": {}", k, v)).collect();
    stat(format!("{{\"cases\": {}, {}}}", total + 1, st.join(", ")));
}
