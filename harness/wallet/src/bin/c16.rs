//! C16 harness: `plan_denominations` (the ZIP 318 canonical 1-2-5 planner) under a family of
//! preparation-cost oracles (count-only stub, refusing, over-charging, table-driven, stateful,
//! value-dependent, huge answers), each case planned twice under different RNG seeds;
//! `largest_one_two_five`, `is_canonical_denomination` and `DenominationPlan::from_stored_parts`
//! on boundary lattices. Prints Coq `case` terms (coq/C16/Corr.v) with the observed outcome.
use std::cell::Cell;
use std::collections::BTreeMap;
use std::num::NonZeroUsize;

use rand_chacha::ChaCha8Rng;
use rand_core::SeedableRng;
use vcommon::*;
use zcash_pool_migration::denomination::{plan_denominations, CanonicalOneTwoFive, DenominationPlan, DenominationStrategy};
use zcash_pool_migration::engine::{plan_migration_with, MigrationError};
use zcash_pool_migration::preparation::default_portfolio;
use zcash_pool_migration_memory::MockBackend;
use zcash_protocol::consensus::BlockHeight;
use zcash_protocol::local_consensus::LocalNetwork;
use zcash_pool_migration::preparation::FUNDING_OUTPUTS_PER_TX;
use zcash_protocol::value::{Zatoshis, MAX_MONEY};
use zcash_protocol::zip318::{is_canonical_denomination, largest_one_two_five, DENOM_CAP, MAX_RESIDUAL_VALUE};

// ---------------------------------------------------------------------------------------------
// Oracle family. The same encoding is interpreted by `eval_oracle` in coq/C16/Corr.v.
// ---------------------------------------------------------------------------------------------
#[derive(Clone, Debug)]
enum OSpec {
    /// one padded transaction per FUNDING_OUTPUTS_PER_TX notes
    Stub,
    /// the same answer to every question (None = always refuse)
    Const(Option<u64>),
    /// refuse layouts of more than k notes, otherwise the stub
    RefuseAbove(u64),
    /// m * stub + a (over-charging)
    Affine(u64, u64),
    /// answer by the number of notes asked about (1-based index into the table), default otherwise
    ByLen(Vec<Option<u64>>, Option<u64>),
    /// stateful: answer by the number of earlier questions
    ByCall(Vec<Option<u64>>, Option<u64>),
    /// value dependent: if sum(notes) mod m < r then a else b
    BySum(u64, u64, Option<u64>, Option<u64>),
}

fn stub(len: usize) -> u64 {
    len.div_ceil(FUNDING_OUTPUTS_PER_TX) as u64
}

impl OSpec {
    fn answer(&self, call: usize, notes: &[Zatoshis]) -> Option<usize> {
        let len = notes.len();
        let r: Option<u64> = match self {
            OSpec::Stub => Some(stub(len)),
            OSpec::Const(a) => *a,
            OSpec::RefuseAbove(k) => {
                if len as u64 > *k {
                    None
                } else {
                    Some(stub(len))
                }
            }
            OSpec::Affine(m, a) => Some(m * stub(len) + a),
            OSpec::ByLen(t, d) => {
                if len >= 1 && len - 1 < t.len() {
                    t[len - 1]
                } else {
                    *d
                }
            }
            OSpec::ByCall(t, d) => {
                if call < t.len() {
                    t[call]
                } else {
                    *d
                }
            }
            OSpec::BySum(m, r, a, b) => {
                let s: u128 = notes.iter().map(|v| v.into_u64() as u128).sum();
                if (s % (*m as u128)) < *r as u128 {
                    *a
                } else {
                    *b
                }
            }
        };
        r.map(|x| x as usize)
    }
    fn coq(&self) -> String {
        let on = |x: &Option<u64>| opt(x.map(|v| n(v as u128)));
        match self {
            OSpec::Stub => "OStub".into(),
            OSpec::Const(a) => format!("(OConst {})", on(a)),
            OSpec::RefuseAbove(k) => format!("(ORefuseAbove {})", n(*k as u128)),
            OSpec::Affine(m, a) => format!("(OAffine {} {})", n(*m as u128), n(*a as u128)),
            OSpec::ByLen(t, d) => format!("(OByLen {} {})", list(t.iter().map(on)), on(d)),
            OSpec::ByCall(t, d) => format!("(OByCall {} {})", list(t.iter().map(on)), on(d)),
            OSpec::BySum(m, r, a, b) => format!("(OBySum {} {} {} {})", n(*m as u128), n(*r as u128), on(a), on(b)),
        }
    }
    fn kind(&self) -> &'static str {
        match self {
            OSpec::Stub => "stub",
            OSpec::Const(None) => "refuse",
            OSpec::Const(Some(_)) => "const",
            OSpec::RefuseAbove(_) => "refuse_above",
            OSpec::Affine(..) => "affine",
            OSpec::ByLen(..) => "by_len",
            OSpec::ByCall(..) => "by_call",
            OSpec::BySum(..) => "by_sum",
        }
    }
}

// ---------------------------------------------------------------------------------------------
// One plan case
// ---------------------------------------------------------------------------------------------
#[derive(Clone, Debug)]
struct PlanIn {
    total: u64,
    nc: usize,
    cap: usize,
    buffer: u64,
    fee: u64,
    os: OSpec,
}

fn zt(v: u64) -> Zatoshis {
    Zatoshis::from_u64(v).expect("generator keeps amounts within MAX_MONEY")
}

/// Runs the real planner once; returns the plan and the number of oracle questions.
fn run_once(i: &PlanIn, rng_seed: u64) -> Option<(DenominationPlan, Vec<u64>, usize)> {
    let calls = Cell::new(0usize);
    let os = i.os.clone();
    let oracle = |notes: &[Zatoshis]| {
        let c = calls.get();
        calls.set(c + 1);
        os.answer(c, notes)
    };
    let mut rng = ChaCha8Rng::seed_from_u64(rng_seed);
    let r = catch(|| {
        let p = plan_denominations(
            zt(i.total),
            i.nc,
            NonZeroUsize::new(i.cap).expect("cap >= 1"),
            zt(i.buffer),
            zt(i.fee),
            &oracle,
            &mut rng,
        );
        let outs: Vec<u64> = p.migration_outputs().iter().map(|v| v.into_u64()).collect();
        (p, outs)
    });
    r.map(|(p, outs)| (p, outs, calls.get()))
}

struct Out {
    n: usize,
    stats: BTreeMap<String, u64>,
}
impl Out {
    fn c(&mut self, s: String) {
        self.n += 1;
        case(s);
    }
    fn bump(&mut self, k: &str) {
        *self.stats.entry(k.to_string()).or_insert(0) += 1;
    }
}

fn zl(v: &[u64]) -> String {
    list(v.iter().map(|x| zu(*x as u128)))
}

fn plan_case(o: &mut Out, i: &PlanIn, seeds: (u64, u64)) {
    let a = run_once(i, seeds.0);
    let b = run_once(i, seeds.1);
    let same = match (&a, &b) {
        (Some((p, po, pc)), Some((q, qo, qc))) => p == q && po == qo && pc == qc,
        (None, None) => true,
        _ => false,
    };
    let outcome = match &a {
        None => {
            o.bump("plan_panic");
            PANIC.to_string()
        }
        Some((p, outs, calls)) => {
            let cross: Vec<u64> = p.crossing_values().iter().map(|v| v.into_u64()).collect();
            o.bump(&format!("len_{}", match cross.len() { 0 => "0", 1 => "1", 2..=5 => "2-5", 6..=14 => "6-14", 15..=28 => "15-28", _ => "29+" }));
            if cross.len() == i.cap {
                o.bump("cap_reached");
            }
            o.bump(&format!("calls_{}", match *calls { 0 => "0", 1 => "1", 2..=4 => "2-4", _ => "5+" }));
            if p.change().is_none() {
                o.bump("no_change");
            }
            if u64::from(p.prep_fees()) == 0 && !cross.is_empty() {
                o.bump("nonempty_zero_fees");
            }
            ok(format!(
                "(mkPlan {} {} {} {} {} {} {} {})",
                zl(&cross),
                zl(outs),
                opt(p.change().map(|v| zu(v.into_u64() as u128))),
                zu(u64::from(p.prep_fees()) as u128),
                zu(u64::from(p.total_input()) as u128),
                zu(u64::from(p.total_migratable()) as u128),
                zu(u64::from(p.note_fee_buffer()) as u128),
                zu(*calls as u128)
            ))
        }
    };
    o.bump(&format!("oracle_{}", i.os.kind()));
    if i.nc == 1 {
        o.bump("single_note");
    }
    o.c(format!(
        "Plan {} {} {} {} {} {} {} {}",
        zu(i.total as u128),
        zu(i.nc as u128),
        zu(i.cap as u128),
        zu(i.buffer as u128),
        zu(i.fee as u128),
        i.os.coq(),
        outcome,
        boolc(same)
    ));
}

// ---------------------------------------------------------------------------------------------
// Generators
// ---------------------------------------------------------------------------------------------
// asserted equal to the repository's MAX_RESIDUAL_VALUE / DENOM_CAP at start-up
const MIN: u64 = 1_000_000;
const CAPD: u64 = 1_000_000_000_000;
const ZIP317_BUFFER: u64 = 15_000;
const PREP_FEE: u64 = 80_000;

/// Every `{1,2,5} * 10^k` value of u64, ascending.
fn all_125() -> Vec<u64> {
    let mut v = vec![];
    let mut p: u64 = 1;
    loop {
        for m in [1u64, 2, 5] {
            if let Some(x) = p.checked_mul(m) {
                v.push(x);
            }
        }
        match p.checked_mul(10) {
            Some(q) => p = q,
            None => break,
        }
    }
    v
}
fn series() -> Vec<u64> {
    all_125().into_iter().filter(|x| (MIN..=CAPD).contains(x)).collect()
}

fn buffers() -> Vec<u64> {
    vec![0, 1, 9_999, 10_000, ZIP317_BUFFER, ZIP317_BUFFER + 1, MIN - 1, MIN, MIN + 1, 3 * MIN, CAPD, MAX_MONEY]
}
fn fees() -> Vec<u64> {
    vec![0, 1, 4, 5_000, PREP_FEE, PREP_FEE + 1, MIN / 2, MIN - 1, MIN, MIN + 1, 7 * MIN, CAPD, MAX_MONEY]
}
fn caps() -> Vec<usize> {
    vec![1, 2, 3, 4, 7, 13, 14, 15, 16, 27, 28, 29, 30, 42, 43, 50, 63, 64]
}
fn note_counts() -> Vec<usize> {
    vec![0, 1, 2, 3, 50, usize::MAX]
}

fn rand_opt(r: &mut Rng) -> Option<u64> {
    match r.below(10) {
        0 | 1 => None,
        2 => Some(0),
        3 => Some(r.below(3)),
        4 => Some(r.below(20)),
        5 => Some(r.below(1 << 20)),
        6 => Some(1 << 62),
        7 => Some(u64::MAX - r.below(3)),
        8 => Some(r.u64()),
        _ => Some(r.below(6)),
    }
}

fn rand_oracle(r: &mut Rng, adversarial: bool) -> OSpec {
    let k = if adversarial { 3 + r.below(12) } else { r.below(15) };
    match k {
        0..=4 => OSpec::Stub,
        5 => OSpec::Const(None),
        6 => OSpec::Const(Some(*r.pick(&[0u64, 1, 2, 3, 5, 100, 1 << 32, 1 << 62, (1 << 62) + 1, u64::MAX / 4 + 1, u64::MAX]))),
        7 => OSpec::RefuseAbove(r.below(20)),
        8 => OSpec::Affine(r.below(4), r.below(4)),
        9 => OSpec::Affine(*r.pick(&[1u64, 2, 10, 1000, 1 << 20, 1 << 40, 1 << 58]), *r.pick(&[0u64, 1, 7, 1 << 30, 1 << 61])),
        10 => {
            let l = r.below(20) as usize;
            OSpec::ByLen((0..l).map(|_| rand_opt(r)).collect(), rand_opt(r))
        }
        11 => {
            let l = r.below(12) as usize;
            OSpec::ByCall((0..l).map(|_| rand_opt(r)).collect(), rand_opt(r))
        }
        12 => OSpec::BySum(1 + r.below(7), r.below(5), rand_opt(r), rand_opt(r)),
        13 => OSpec::BySum(*r.pick(&[MIN, 2 * MIN, 10 * MIN, 1_000_000_007]), r.below(3 * MIN), rand_opt(r), Some(r.below(4))),
        _ => OSpec::Const(rand_opt(r)),
    }
}

/// A balance assembled from a few denominations plus their buffers and fees, then nudged.
fn structured_total(r: &mut Rng, buffer: u64, fee: u64) -> u64 {
    let s = series();
    let width = *r.pick(&[1u64, 2, 4, 8, 20, 40]);
    let parts = 1 + r.below(width);
    let mut t: u128 = 0;
    for _ in 0..parts {
        t += *r.pick(&s) as u128 + buffer as u128;
    }
    let txs = (parts as u128).div_ceil(FUNDING_OUTPUTS_PER_TX as u128);
    if r.chance(3, 4) {
        t += txs * fee as u128;
    }
    let nudge: i128 = match r.below(8) {
        0 => 0,
        1 => 1,
        2 => -1,
        3 => buffer as i128,
        4 => -(buffer as i128),
        5 => fee as i128,
        6 => r.below(2 * MIN) as i128 - MIN as i128,
        _ => r.below(1000) as i128 - 500,
    };
    let t = t as i128 + nudge;
    t.clamp(0, MAX_MONEY as i128) as u64
}

fn rand_small(r: &mut Rng, lattice: &[u64]) -> u64 {
    match r.below(6) {
        0 | 1 => *r.pick(lattice),
        2 => r.below(100_000),
        3 => r.below(3 * MIN),
        4 => (*r.pick(lattice)).saturating_add(r.below(5)).saturating_sub(2).min(MAX_MONEY),
        _ => {
            if r.chance(1, 6) {
                r.below(MAX_MONEY + 1)
            } else {
                ZIP317_BUFFER
            }
        }
    }
}

fn rand_plan(r: &mut Rng, adversarial: bool) -> PlanIn {
    let buffer = if r.chance(1, 2) && !adversarial { ZIP317_BUFFER } else { rand_small(r, &buffers()) };
    let fee = if r.chance(1, 2) && !adversarial { PREP_FEE } else { rand_small(r, &fees()) };
    let total = match r.below(11) {
        10 => {
            let all: Vec<u64> = all_125().into_iter().filter(|&x| x <= MAX_MONEY).collect();
            (*r.pick(&all)).saturating_add(buffer).min(MAX_MONEY)
        }
        0 => r.below(MAX_MONEY + 1),
        1 => r.below(200 * MIN),
        2 => r.below(100_000 * MIN),
        3 => MAX_MONEY - r.below(3),
        _ => structured_total(r, buffer, fee),
    };
    let cap = if r.chance(1, 3) { *r.pick(&caps()) } else { r.range(1, 64) as usize };
    let nc = if r.chance(1, 3) { 1 } else { *r.pick(&note_counts()) };
    PlanIn { total, nc, cap, buffer, fee, os: rand_oracle(r, adversarial) }
}

/// Exhaustive lattice around every denomination boundary.
fn boundary_plans(o: &mut Out, thorough: bool, seeds: (u64, u64)) {
    let s = series();
    let cfgs: Vec<(u64, u64)> = if thorough {
        vec![(ZIP317_BUFFER, PREP_FEE), (0, 0), (ZIP317_BUFFER, 0), (0, PREP_FEE), (1, 1), (MIN, MIN), (MIN - 1, 7 * MIN)]
    } else {
        vec![(ZIP317_BUFFER, PREP_FEE), (0, 0), (1, 4)]
    };
    let oracles = [OSpec::Stub, OSpec::Const(Some(0)), OSpec::Const(None), OSpec::Affine(2, 1)];
    for &(buffer, fee) in &cfgs {
        for &d in &s {
            let mut totals = vec![];
            for base in [d, d + buffer, d + buffer + fee, d + fee] {
                for dz in [-1i128, 0, 1] {
                    let t = base as i128 + dz;
                    if (0..=MAX_MONEY as i128).contains(&t) {
                        totals.push(t as u64);
                    }
                }
            }
            totals.sort();
            totals.dedup();
            for &total in &totals {
                for nc in [1usize, 2] {
                    for (k, os) in oracles.iter().enumerate() {
                        if !thorough && k >= 2 && nc == 2 {
                            continue;
                        }
                        let cap = if k == 0 { 50 } else { 1 + (total as usize + k) % 3 };
                        plan_case(o, &PlanIn { total, nc, cap, buffer, fee, os: os.clone() }, seeds);
                    }
                }
            }
        }
    }
    // every 1-2-5 value OUTSIDE the canonical range (below 0.01 ZEC, above 10,000 ZEC up to
    // MAX_MONEY): on the series but not a denomination, so neither the exact-funding shortcut nor
    // the greedy may emit it
    let outside: Vec<u64> = all_125().into_iter().filter(|&x| x <= MAX_MONEY && !(MIN..=CAPD).contains(&x)).collect();
    let out_cfgs: Vec<(u64, u64)> = if thorough { cfgs.clone() } else { vec![(ZIP317_BUFFER, PREP_FEE), (0, 0)] };
    for &(buffer, fee) in &out_cfgs {
        for (j, &d) in outside.iter().enumerate() {
            let mut totals = vec![];
            for base in [d as u128, d as u128 + buffer as u128, d as u128 + buffer as u128 + fee as u128, d as u128 + fee as u128] {
                for dz in [-1i128, 0, 1] {
                    let t = base as i128 + dz;
                    if (0..=MAX_MONEY as i128).contains(&t) {
                        totals.push(t as u64);
                    }
                }
            }
            totals.sort();
            totals.dedup();
            for (i, &total) in totals.iter().enumerate() {
                for nc in [0usize, 1, 2] {
                    let cap = [1usize, 2, 14, 50, 64][(i + j + nc) % 5];
                    plan_case(o, &PlanIn { total, nc, cap, buffer, fee, os: OSpec::Const(Some(0)) }, seeds);
                    if nc == 1 || thorough {
                        plan_case(o, &PlanIn { total, nc, cap, buffer, fee, os: OSpec::Stub }, seeds);
                    }
                }
            }
        }
    }
    // small balances around the smallest self-funding note
    for buffer in [0u64, 1, ZIP317_BUFFER] {
        for fee in [0u64, 1, PREP_FEE] {
            for dz in -2i128..=2 {
                for base in [0u64, MIN, MIN + buffer, MIN + buffer + fee, 2 * (MIN + buffer) + fee] {
                    let t = (base as i128 + dz).clamp(0, MAX_MONEY as i128) as u64;
                    for nc in [0usize, 1, 2] {
                        plan_case(o, &PlanIn { total: t, nc, cap: 2, buffer, fee, os: OSpec::Stub }, seeds);
                    }
                }
            }
        }
    }
}

/// Hand-written witnesses that must always be part of the corpus.
fn corpus(o: &mut Out, seeds: (u64, u64)) {
    // over-charging oracle whose claimed transaction count times the fee exceeds u64 (design-round witness)
    plan_case(o, &PlanIn { total: 12_345_678_900, nc: 2, cap: 8, buffer: ZIP317_BUFFER, fee: 4, os: OSpec::Const(Some(1 << 62)) }, seeds);
    plan_case(o, &PlanIn { total: 12_345_678_900, nc: 2, cap: 8, buffer: ZIP317_BUFFER, fee: 4, os: OSpec::ByCall(vec![Some(1 << 62), Some((1 << 62) + 1)], Some(1)) }, seeds);
    plan_case(o, &PlanIn { total: MAX_MONEY, nc: 2, cap: 64, buffer: 0, fee: MAX_MONEY, os: OSpec::Const(Some(u64::MAX)) }, seeds);
    plan_case(o, &PlanIn { total: MAX_MONEY, nc: 2, cap: 64, buffer: 0, fee: 2, os: OSpec::Const(Some(1 << 63)) }, seeds);
    plan_case(o, &PlanIn { total: MAX_MONEY, nc: 2, cap: 64, buffer: 0, fee: 3, os: OSpec::Const(Some(6148914691236517206)) }, seeds);
    // exact-funding note whose direct use the oracle prices beyond u64: refused, nothing migrates
    plan_case(o, &PlanIn { total: 100_015_000, nc: 1, cap: 50, buffer: ZIP317_BUFFER, fee: PREP_FEE, os: OSpec::Const(Some(1 << 62)) }, seeds);
    plan_case(o, &PlanIn { total: 100_015_000, nc: 1, cap: 50, buffer: ZIP317_BUFFER, fee: PREP_FEE, os: OSpec::Const(Some(0)) }, seeds);
    plan_case(o, &PlanIn { total: 100_015_000, nc: 1, cap: 50, buffer: ZIP317_BUFFER, fee: PREP_FEE, os: OSpec::Stub }, seeds);
    // the ZIP's worked examples and the crate's golden vectors
    for t in [54_000_000_000u64, 12_345_000_000, 2_500_000_000_000, 374_861_740_000, 711_010_000, 1_520_000, 100_015_000] {
        for nc in [1usize, 2] {
            plan_case(o, &PlanIn { total: t, nc, cap: 50, buffer: ZIP317_BUFFER, fee: 0, os: OSpec::Stub }, seeds);
            plan_case(o, &PlanIn { total: t, nc, cap: 64, buffer: 0, fee: 0, os: OSpec::Stub }, seeds);
            plan_case(o, &PlanIn { total: t, nc, cap: 50, buffer: ZIP317_BUFFER, fee: PREP_FEE, os: OSpec::Const(Some(0)) }, seeds);
        }
    }
    // whale
    plan_case(o, &PlanIn { total: MAX_MONEY, nc: 55, cap: 50, buffer: ZIP317_BUFFER, fee: PREP_FEE, os: OSpec::Stub }, seeds);
    plan_case(o, &PlanIn { total: MAX_MONEY, nc: 1, cap: 64, buffer: MAX_MONEY, fee: MAX_MONEY, os: OSpec::Stub }, seeds);
}

// ---------------------------------------------------------------------------------------------
// CanonicalOneTwoFive::new with caller-chosen bounds (minimum a power of ten, as documented)
// ---------------------------------------------------------------------------------------------
#[derive(Clone, Debug)]
struct NewIn {
    p: PlanIn,
    maxd: u64,
    mind: u64,
}

fn new_once(i: &NewIn, rng_seed: u64) -> Option<(DenominationPlan, Vec<u64>, usize)> {
    let calls = Cell::new(0usize);
    let os = i.p.os.clone();
    let oracle = |notes: &[Zatoshis]| {
        let c = calls.get();
        calls.set(c + 1);
        os.answer(c, notes)
    };
    let mut rng = ChaCha8Rng::seed_from_u64(rng_seed);
    let r = catch(|| {
        let s = CanonicalOneTwoFive::new(i.p.cap, zt(i.maxd), zt(i.mind), zt(i.p.buffer));
        let p = s.plan(zt(i.p.total), i.p.nc, zt(i.p.fee), &oracle, &mut rng);
        let outs: Vec<u64> = p.migration_outputs().iter().map(|v| v.into_u64()).collect();
        (p, outs)
    });
    r.map(|(p, outs)| (p, outs, calls.get()))
}

fn new_case(o: &mut Out, i: &NewIn, seeds: (u64, u64)) {
    let a = new_once(i, seeds.0);
    let b = new_once(i, seeds.1);
    let same = match (&a, &b) {
        (Some((p, po, pc)), Some((q, qo, qc))) => p == q && po == qo && pc == qc,
        (None, None) => true,
        _ => false,
    };
    let outcome = match &a {
        None => {
            o.bump("new_panic");
            PANIC.to_string()
        }
        Some((p, outs, calls)) => {
            let cross: Vec<u64> = p.crossing_values().iter().map(|v| v.into_u64()).collect();
            o.bump(if cross.is_empty() { "new_empty" } else { "new_nonempty" });
            ok(format!(
                "(mkPlan {} {} {} {} {} {} {} {})",
                zl(&cross),
                zl(outs),
                opt(p.change().map(|v| zu(v.into_u64() as u128))),
                zu(u64::from(p.prep_fees()) as u128),
                zu(u64::from(p.total_input()) as u128),
                zu(u64::from(p.total_migratable()) as u128),
                zu(u64::from(p.note_fee_buffer()) as u128),
                zu(*calls as u128)
            ))
        }
    };
    if i.maxd < i.mind {
        o.bump("new_max_below_min");
    }
    o.c(format!(
        "PlanNew {} {} {} {} {} {} {} {} {} {}",
        zu(i.p.total as u128),
        zu(i.p.nc as u128),
        zu(i.p.cap as u128),
        zu(i.maxd as u128),
        zu(i.mind as u128),
        zu(i.p.buffer as u128),
        zu(i.p.fee as u128),
        i.p.os.coq(),
        outcome,
        boolc(same)
    ));
}

fn new_cases(o: &mut Out, r: &mut Rng, nrand: usize, thorough: bool, seeds: (u64, u64)) {
    let all: Vec<u64> = all_125().into_iter().filter(|&x| x <= MAX_MONEY).collect();
    let pows: Vec<u64> = all.iter().copied().filter(|x| x.to_string().starts_with('1')).collect();
    // lattice: every 1-2-5 value as an exactly held single note / two notes, under a few bound pairs
    let mut bounds: Vec<(u64, u64)> = vec![(1, MAX_MONEY), (100, 30_000), (MIN, 3 * MIN), (10 * MIN, MIN)];
    if thorough {
        bounds.extend([(1, 7), (MIN, CAPD), (CAPD, CAPD), (1_000_000_000_000_000, MAX_MONEY), (1_000, 0)]);
    }
    for &(mind, maxd) in &bounds {
        for &d in &all {
            for (buffer, fee) in [(0u64, 0u64), (ZIP317_BUFFER, PREP_FEE)] {
                for dz in [0i128, -1, 1] {
                    let t = d as i128 + buffer as i128 + dz;
                    if !(0..=MAX_MONEY as i128).contains(&t) || (dz != 0 && buffer != 0) {
                        continue;
                    }
                    for nc in [1usize, 2] {
                        let cap = [0usize, 1, 3, 50][(nc + (d % 7) as usize) % 4];
                        let p = PlanIn { total: t as u64, nc, cap, buffer, fee, os: if nc == 1 { OSpec::Const(Some(0)) } else { OSpec::Stub } };
                        new_case(o, &NewIn { p, maxd, mind }, seeds);
                    }
                }
            }
        }
    }
    for _ in 0..nrand {
        let mind = *r.pick(&pows);
        let maxd = match r.below(6) {
            0 => *r.pick(&all),
            1 => r.below(MAX_MONEY + 1),
            2 => mind.saturating_mul(*r.pick(&[1u64, 2, 3, 5, 7, 10, 49, 50, 1000, 100_000])).min(MAX_MONEY),
            3 => mind.saturating_sub(r.below(2)),
            4 => MAX_MONEY,
            _ => r.below(1 + 1000 * mind.min(MAX_MONEY / 1000)),
        };
        let adv = r.chance(1, 4);
        let mut p = rand_plan(r, adv);
        if r.chance(1, 8) {
            p.cap = 0;
        }
        if r.chance(2, 3) {
            // a balance assembled from admissible parts
            let adm: Vec<u64> = all.iter().copied().filter(|x| (mind..=maxd).contains(x)).collect();
            if !adm.is_empty() {
                let parts = 1 + r.below(6);
                let mut t: u128 = 0;
                for _ in 0..parts {
                    t += *r.pick(&adm) as u128 + p.buffer as u128;
                }
                t += r.below(3) as u128 * p.fee as u128 + r.below(3) as u128;
                p.total = t.min(MAX_MONEY as u128) as u64;
            }
        }
        new_case(o, &NewIn { p, maxd, mind }, seeds);
    }
}

// ---------------------------------------------------------------------------------------------
// engine::plan_migration_with: the same planner behind the real preparation planner as oracle
// ---------------------------------------------------------------------------------------------
fn local_net() -> LocalNetwork {
    let h = Some(BlockHeight::from_u32(1));
    LocalNetwork { overwinter: h, sapling: h, blossom: h, heartwood: h, canopy: h, nu5: h, nu6: h, nu6_1: h, nu6_2: h, nu6_3: h }
}

/// (crossings, outputs, change, prep_fees, total_input, total_migratable, buffer, n_txs) or an error tag
fn engine_once(notes: &[u64], cap: usize, rng_seed: u64) -> Option<Result<(DenominationPlan, Vec<u64>, usize), &'static str>> {
    let backend = MockBackend::new(notes.to_vec(), 1000);
    let mut rng = ChaCha8Rng::seed_from_u64(rng_seed);
    let net = local_net();
    catch(|| {
        match plan_migration_with(&default_portfolio(), NonZeroUsize::new(cap).expect("cap >= 1"), &net, &backend, &mut rng) {
            Ok(plan) => {
                let d = plan.denominations().clone();
                let outs: Vec<u64> = d.migration_outputs().iter().map(|v| v.into_u64()).collect();
                Ok((d, outs, plan.preparation().transaction_count()))
            }
            Err(MigrationError::NothingToMigrate) => Err("ENothing"),
            Err(MigrationError::UnfundableSplit) => Err("EUnfundable"),
            Err(_) => Err("EOther"),
        }
    })
}

fn engine_case(o: &mut Out, notes: &[u64], cap: usize, fees: (u64, u64), seeds: (u64, u64)) {
    let a = engine_once(notes, cap, seeds.0);
    let b = engine_once(notes, cap, seeds.1);
    let same = a == b;
    let outcome = match &a {
        None => {
            o.bump("engine_panic");
            PANIC.to_string()
        }
        Some(Err(e)) => {
            o.bump(&format!("engine_{}", e));
            err(e)
        }
        Some(Ok((p, outs, ntx))) => {
            let cross: Vec<u64> = p.crossing_values().iter().map(|v| v.into_u64()).collect();
            o.bump("engine_ok");
            if *ntx == 0 {
                o.bump("engine_direct_funding");
            }
            if cross.len() == cap {
                o.bump("engine_cap_reached");
            }
            assert_eq!(u64::from(p.note_fee_buffer()), fees.0, "transfer-fee buffer differs from the calibrated one");
            ok(format!(
                "((mkPlan {} {} {} {} {} {} {} 0), {})",
                zl(&cross),
                zl(outs),
                opt(p.change().map(|v| zu(v.into_u64() as u128))),
                zu(u64::from(p.prep_fees()) as u128),
                zu(u64::from(p.total_input()) as u128),
                zu(u64::from(p.total_migratable()) as u128),
                zu(u64::from(p.note_fee_buffer()) as u128),
                zu(*ntx as u128)
            ))
        }
    };
    o.c(format!("Engine {} {} {} {} {} {}", zl(notes), zu(cap as u128), zu(fees.0 as u128), zu(fees.1 as u128), outcome, boolc(same)));
}

/// The canonical (buffer, prep fee) the engine computes: read off a calibration plan.
fn calibrate() -> (u64, u64) {
    let r = engine_once(&[300_000_000, 300_000_000, 77_000_000], 50, 1).expect("calibration plan panicked").expect("calibration plan failed");
    let (p, _, ntx) = r;
    assert!(ntx > 0, "calibration wallet needs preparation");
    let fees = u64::from(p.prep_fees());
    assert_eq!(fees % ntx as u64, 0);
    (u64::from(p.note_fee_buffer()), fees / ntx as u64)
}

fn engine_cases(o: &mut Out, r: &mut Rng, nrand: usize, seeds: (u64, u64)) {
    let fees = calibrate();
    let (buffer, fee) = fees;
    let s = series();
    // hand-written wallets
    let fixed: Vec<(Vec<u64>, usize)> = vec![
        (vec![], 50),
        (vec![0], 50),
        (vec![1], 50),
        (vec![MIN + buffer - 1], 50),
        (vec![MIN + buffer], 50),
        (vec![MIN + buffer, 1], 50),
        (vec![MIN + buffer + fee], 50),
        (vec![100_000_000 + buffer], 50),
        (vec![60_000_000, 40_000_000 + buffer], 50),
        (vec![2 * CAPD + buffer], 50),
        (vec![2 * CAPD + buffer], 1),
        (vec![MIN; 300], 50),
        (vec![56_000; 20], 50),
        (vec![40_000; 28], 50),
        (vec![(2 * MIN + 2 * buffer + fee) / 31 + 1; 31], 50),
        (vec![CAPD; 55], 50),
        (vec![MAX_MONEY], 64),
        (vec![MAX_MONEY / 2, MAX_MONEY / 2], 64),
        (vec![12_345_678_900], 8),
        (vec![374_861_740_000], 50),
    ];
    for (notes, cap) in &fixed {
        engine_case(o, notes, *cap, fees, seeds);
    }
    // every denomination held exactly (with its buffer), as one note and as two
    for &d in &s {
        for dz in [-1i64, 0, 1] {
            let t = (d + buffer) as i64 + dz;
            engine_case(o, &[t as u64], 50, fees, seeds);
            engine_case(o, &[t as u64 - MIN / 2, MIN / 2], 3, fees, seeds);
        }
        engine_case(o, &[d + buffer + fee], 50, fees, seeds);
    }
    for _ in 0..nrand {
        let n = match r.below(6) {
            0 => 1,
            1 => 2,
            2 => r.range(1, 6) as usize,
            3 => r.range(1, 20) as usize,
            4 => r.range(10, 60) as usize,
            _ => r.range(1, 3) as usize,
        };
        let mut notes: Vec<u64> = Vec::with_capacity(n);
        let style = r.below(6);
        for _ in 0..n {
            let v = match style {
                0 => r.below(2_000_000_000),
                1 => *r.pick(&s) + buffer,
                2 => (*r.pick(&s)).saturating_add(r.below(3 * buffer + 3)).saturating_sub(buffer),
                3 => r.below(3 * MIN),
                4 => r.below(MAX_MONEY / 64),
                _ => match r.below(3) {
                    0 => *r.pick(&s) + buffer,
                    1 => r.below(100_000),
                    _ => r.below(50 * CAPD),
                },
            };
            notes.push(v);
        }
        if r.chance(1, 8) {
            // a fragmented wallet holding barely more than one small denomination and its optimistic fees
            let d = *r.pick(&s[..6]);
            let k = r.range(16, 60);
            let each = (d + buffer + fee + r.below(2 * fee)) / k + 1;
            notes = vec![each; k as usize];
        }
        let total: u128 = notes.iter().map(|&v| v as u128).sum();
        if total > MAX_MONEY as u128 {
            continue;
        }
        let cap = if r.chance(1, 2) { 50 } else { r.range(1, 64) as usize };
        engine_case(o, &notes, cap, fees, seeds);
    }
}

fn l125_cases(o: &mut Out, r: &mut Rng, nrand: usize) {
    let all = all_125();
    let pows: Vec<u64> = all.iter().copied().filter(|x| x.to_string().starts_with('1')).collect();
    let mut his: Vec<u64> = vec![0, 1, 2, 3, 4, 9, 10, 11, u64::MAX, u64::MAX - 1, u64::MAX / 2, u64::MAX / 5, u64::MAX / 5 + 1, u64::MAX / 10, u64::MAX / 10 + 1, MAX_MONEY];
    for &x in &all {
        his.extend([x.wrapping_sub(1), x, x.saturating_add(1)]);
    }
    his.sort();
    his.dedup();
    let floors: Vec<u64> = if nrand > 4000 { pows.clone() } else { vec![1, 10, 1000, MIN, 100_000_000, CAPD, 10u64.pow(18), 10u64.pow(19)] };
    for &hi in &his {
        for &fl in &floors {
            o.bump("l125_lattice");
            let res = catch(|| largest_one_two_five(hi, fl));
            o.c(format!("L125 {} {} {}", zu(hi as u128), zu(fl as u128), match res { Some(v) => ok(zu(v as u128)), None => PANIC.into() }));
        }
    }
    for _ in 0..nrand {
        let hi = match r.below(4) {
            0 => r.u64(),
            1 => r.below(MAX_MONEY + 1),
            2 => {
                let sh = r.below(64);
                r.below(1 << sh)
            }
            _ => (*r.pick(&all)).wrapping_add(r.below(5)).wrapping_sub(2),
        };
        // the floor is documented to be a power of the radix; other positive floors are also run (0 never terminates)
        let fl = match r.below(4) {
            0 | 1 => *r.pick(&pows),
            2 => {
                let sh = r.below(63);
                1 + r.below(1 << sh)
            }
            _ => 1 + r.below(100),
        };
        o.bump("l125_random");
        let res = catch(|| largest_one_two_five(hi, fl));
        o.c(format!("L125 {} {} {}", zu(hi as u128), zu(fl as u128), match res { Some(v) => ok(zu(v as u128)), None => PANIC.into() }));
    }
}

fn canon_cases(o: &mut Out, r: &mut Rng, nrand: usize) {
    let all = all_125();
    let mut vs: Vec<u64> = vec![0, 1, 2, 5, 3, 7, MAX_MONEY, MAX_MONEY - 1, 3 * MIN, 4 * MIN, 25 * MIN, 11 * MIN, 15 * MIN];
    for &x in &all {
        if x <= MAX_MONEY + 1 {
            vs.extend([x.wrapping_sub(1), x, x + 1]);
        }
    }
    for _ in 0..nrand {
        vs.push(match r.below(4) {
            0 => r.below(MAX_MONEY + 1),
            1 => {
                let m = r.below(20) as u128;
                ((m * *r.pick(&all) as u128) % (MAX_MONEY as u128 + 1)) as u64
            }
            2 => r.below(10 * CAPD),
            _ => r.below(1000) * MIN,
        });
    }
    for v in vs {
        if v > MAX_MONEY {
            continue;
        }
        let res = catch(|| is_canonical_denomination(zt(v)));
        if res == Some(true) {
            o.bump("canon_true");
        } else {
            o.bump("canon_false");
        }
        o.c(format!("IsCanon {} {}", zu(v as u128), match res { Some(b) => ok(boolc(b)), None => PANIC.into() }));
    }
}

fn stored_cases(o: &mut Out, r: &mut Rng, nrand: usize) {
    let s = series();
    let mut go = |o: &mut Out, cross: Vec<u64>, buffer: u64| {
        let res = catch(|| {
            DenominationPlan::from_stored_parts(
                cross.iter().map(|&c| zt(c)).collect(),
                zt(buffer),
                None,
                Zatoshis::ZERO,
                Zatoshis::ZERO,
                Zatoshis::ZERO,
            )
            .map(|p| p.migration_outputs().iter().map(|v| v.into_u64()).collect::<Vec<u64>>())
        });
        let out = match res {
            None => PANIC.to_string(),
            Some(Ok(v)) => {
                o.bump("stored_ok");
                ok(zl(&v))
            }
            Some(Err(_)) => {
                o.bump("stored_overflow");
                err("tt")
            }
        };
        o.c(format!("Stored {} {} {}", zl(&cross), zu(buffer as u128), out));
    };
    go(o, vec![], MAX_MONEY);
    go(o, vec![MAX_MONEY], 0);
    go(o, vec![MAX_MONEY], 1);
    go(o, vec![0, MAX_MONEY - 1, 5], 1);
    go(o, vec![0, MAX_MONEY - 1, 5], 2);
    for _ in 0..nrand {
        let l = r.below(6) as usize;
        let buffer = match r.below(3) {
            0 => ZIP317_BUFFER,
            1 => r.below(MAX_MONEY + 1),
            _ => MAX_MONEY - r.below(3 * CAPD),
        };
        let cross: Vec<u64> = (0..l)
            .map(|_| match r.below(3) {
                0 => *r.pick(&s),
                1 => r.below(MAX_MONEY + 1),
                _ => (MAX_MONEY - buffer).saturating_add(r.below(3)).saturating_sub(1).min(MAX_MONEY),
            })
            .collect();
        go(o, cross, buffer);
    }
}

fn main() {
    assert_eq!(MIN, MAX_RESIDUAL_VALUE.into_u64());
    assert_eq!(CAPD, DENOM_CAP.into_u64());
    quiet_panics();
    let a = args();
    let mut r = Rng::new(a.seed, 16);
    let mut o = Out { n: 0, stats: BTreeMap::new() };
    // two RNG seeds for the RNG-independence clause (derived from the one PRNG)
    let seeds = (r.u64(), r.u64() | 1);
    let thorough = a.thorough() || a.search;

    corpus(&mut o, seeds);
    boundary_plans(&mut o, thorough, seeds);
    let n_struct = a.budget(2600, 24_000);
    for _ in 0..n_struct {
        let p = rand_plan(&mut r, false);
        plan_case(&mut o, &p, seeds);
    }
    // adversarial / malformed stream: extreme fees and buffers, hostile oracles
    let n_adv = a.budget(1200, 12_000);
    for _ in 0..n_adv {
        let mut p = rand_plan(&mut r, true);
        if r.chance(1, 4) {
            p.nc = *r.pick(&[0usize, 1, usize::MAX]);
        }
        plan_case(&mut o, &p, seeds);
    }
    engine_cases(&mut o, &mut r, a.budget(500, 8_000), seeds);
    new_cases(&mut o, &mut r, a.budget(700, 10_000), thorough, seeds);
    l125_cases(&mut o, &mut r, a.budget(500, 6_000));
    canon_cases(&mut o, &mut r, a.budget(300, 3_000));
    stored_cases(&mut o, &mut r, a.budget(100, 2_000));

    let body: Vec<String> = o.stats.iter().map(|(k, v)| format!("\"{}\":{}", k, v)).collect();
    stat(format!("{{\"cases\":{},\"rng_seeds\":[{},{}],{}}}", o.n, seeds.0, seeds.1, body.join(",")));
}
