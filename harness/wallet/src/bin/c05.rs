//! C05 harness: fabricates chains of compact blocks (real Sapling / Orchard / Ironwood notes
//! encrypted to tracked accounts × {external, internal}, to untracked and foreign keys, near-miss
//! outputs, spends of tracked / untracked nullifiers, arbitrary per-transaction arrangement),
//! corrupts continuity metadata and field lengths in a separate stream, and scans every block
//!   * inline with `scanning::scan_block`,
//!   * batched through `data_api::chain::scan_cached_blocks` (BatchRunner, threshold 100) with a
//!     recording `WalletWrite`, in this process (16 rayon threads) and in three worker processes
//!     with 1, 2 and 7 rayon threads.
//! One `C <case>` line is printed per scanned block: inputs (with the generator's ground truth of
//! who each output was encrypted to), the inline outcome, and every batched outcome that differs.
//! 32-byte opaque values are interned to small numbers per case (equality-preserving).
#[path = "../c05gen/spy.rs"]
mod spy;

use std::collections::HashMap;
use std::convert::Infallible;
use std::io::{BufRead, BufReader};
use std::process::{Command, Stdio};

use incrementalmerkletree::{Marking, Retention};
use orchard::{
    keys::FullViewingKey as OFvk,
    note::{ExtractedNoteCommitment as OCmx, Note as ONote, NoteVersion, Nullifier as ONf, RandomSeed, Rho},
    note_encryption::{IronwoodDomain, IronwoodNoteEncryption, OrchardDomain, OrchardNoteEncryption},
    value::NoteValue as OValue,
};
use rand_core::RngCore;
use sapling::{
    note_encryption::{sapling_note_encryption, SaplingDomain},
    util::generate_random_rseed,
    value::NoteValue as SValue,
    zip32::DiversifiableFullViewingKey,
};
use vcommon::*;
use zcash_client_backend::{
    data_api::{
        chain::{error::Error as ChainError, scan_cached_blocks, BlockSource, ChainState},
        BlockMetadata, ScannedBlock,
    },
    proto::compact_formats::{
        ChainMetadata, CompactBlock, CompactOrchardAction, CompactSaplingOutput, CompactSaplingSpend, CompactTx,
    },
    scanning::{scan_block, Nullifiers, ScanError, ScanningKeys},
};
use zcash_keys::keys::{UnifiedFullViewingKey, UnifiedSpendingKey};
use zcash_note_encryption::Domain;
use zcash_primitives::{block::BlockHash, transaction::components::sapling::zip212_enforcement};
use zcash_protocol::{
    consensus::{BlockHeight, Network},
    local_consensus::LocalNetwork,
    memo::MemoBytes,
    ShieldedPool,
};
use zip32::Scope;

use spy::Spy;

// ------------------------------------------------------------------------------------------
// keys
// ------------------------------------------------------------------------------------------

struct Acct {
    id: u32,
    ufvk: UnifiedFullViewingKey,
    sap: DiversifiableFullViewingKey,
    orch: OFvk,
}

fn mk_acct(id: u32, seed_byte: u8) -> Acct {
    let usk = UnifiedSpendingKey::from_seed(&Network::TestNetwork, &[seed_byte; 32], zip32::AccountId::ZERO).unwrap();
    let ufvk = usk.to_unified_full_viewing_key();
    Acct { id, sap: ufvk.sapling().unwrap().clone(), orch: ufvk.orchard().unwrap().clone(), ufvk }
}

// ------------------------------------------------------------------------------------------
// generated data
// ------------------------------------------------------------------------------------------

/// Ground truth of one output: who it was really encrypted to (None = nobody can decrypt it).
#[derive(Clone)]
struct Truth {
    acct: u32,
    scope: u8, // 0 external, 1 internal
    value: u64,
    nfpos: u64,
    nf: Vec<u8>,
    /// lead byte of the Sapling note plaintext (1 = pre-ZIP 212, 2 = ZIP 212); 0 for Orchard-shaped notes.
    /// Whether the scanner must accept it at the block's height is decided by the MODEL.
    lead: u8,
    /// Sapling only: the note and nullifier key, so that the nullifier can be recomputed when a
    /// corruption changes the tree size the block starts from
    sap: Option<(sapling::Note, sapling::keys::NullifierDerivingKey)>,
}

#[derive(Clone, Default)]
struct TxTruth {
    s: Vec<Option<Truth>>,
    o: Vec<Option<Truth>>,
    i: Vec<Option<Truth>>,
}

#[derive(Clone)]
struct GBlock {
    cb: CompactBlock,
    truth: Vec<TxTruth>,
    /// parsed header (hash, prev) when `cb.header` parses — generator truth: the hash is the
    /// double SHA-256 of the header bytes the generator wrote, not the accessor's answer
    hdr: Option<([u8; 32], [u8; 32])>,
    /// the hash of the block this one must connect to
    parent: [u8; 32],
    corruption: Vec<&'static str>,
}

struct Chain {
    params: LocalNetwork,
    tracked: Vec<usize>, // indices into the account table
    prior: Option<BlockMetadata>,
    nf_s: Vec<(u32, sapling::Nullifier)>,
    nf_o: Vec<(u32, ONf)>,
    nf_i: Vec<(u32, ONf)>,
    blocks: Vec<GBlock>,
    first_height: u32,
    kind_b: bool,
    /// per pool: spends (in a later block of the chain) of a note received earlier in the chain
    intra: [usize; 3],
    /// the ZIP 212 policy changes between the first and the last block of the chain
    crosses: bool,
}

struct Gen<'a> {
    r: Rng,
    accts: &'a [Acct],
    search: bool,
    /// corpus chains: force this corruption kind
    force: Option<u64>,
}

const SAPLING_Q: [u8; 32] = [
    0x01, 0x00, 0x00, 0x00, 0xff, 0xff, 0xff, 0xff, 0xfe, 0x5b, 0xfe, 0xff, 0x02, 0xa4, 0xbd, 0x53, 0x05, 0xd8, 0xa1, 0x09, 0x08, 0xd8,
    0x39, 0x33, 0x48, 0x7d, 0x9d, 0x29, 0x53, 0xa7, 0xed, 0x73,
];
const PALLAS_P: [u8; 32] = [
    0x01, 0x00, 0x00, 0x00, 0xed, 0x30, 0x2d, 0x99, 0x1b, 0xf9, 0x4c, 0x09, 0xfc, 0x98, 0x46, 0x22, 0x00, 0x00, 0x00, 0x00, 0x00, 0x00,
    0x00, 0x00, 0x00, 0x00, 0x00, 0x00, 0x00, 0x00, 0x00, 0x40,
];
/// little-endian `b < m` (independent canonical-encoding check; not the crates' decoder)
fn le_lt(b: &[u8], m: &[u8; 32]) -> bool {
    if b.len() != 32 {
        return false;
    }
    for k in (0..32).rev() {
        if b[k] != m[k] {
            return b[k] < m[k];
        }
    }
    false
}

impl<'a> Gen<'a> {
    fn rand_base(&mut self) -> [u8; 32] {
        // a canonical Pallas base element / BLS scalar: clear the top bits
        let mut b = [0u8; 32];
        self.r.0.fill_bytes(&mut b);
        b[31] &= 0x3f;
        if !le_lt(&b, &PALLAS_P) {
            b[31] = 0x10;
        }
        b
    }
    fn rand32(&mut self) -> [u8; 32] {
        let mut b = [0u8; 32];
        self.r.0.fill_bytes(&mut b);
        b
    }
    /// A serialized block header naming `prev` as its parent, and its hash (double SHA-256).
    /// `malformed`: 0 well-formed, 1 truncated, 2 non-canonical CompactSize, 3 trailing bytes
    /// after a well-formed header (still parses; the hash covers the header proper).
    fn mk_header(&mut self, prev: [u8; 32], malformed: u8) -> (Vec<u8>, Option<([u8; 32], [u8; 32])>) {
        use sha2::{Digest, Sha256};
        let mut h = vec![];
        h.extend_from_slice(&(self.r.below(6) as i32).to_le_bytes());
        h.extend_from_slice(&prev);
        h.extend_from_slice(&self.rand32());
        h.extend_from_slice(&self.rand32());
        h.extend_from_slice(&(self.r.u64() as u32).to_le_bytes());
        h.extend_from_slice(&(self.r.u64() as u32).to_le_bytes());
        h.extend_from_slice(&self.rand32());
        let n = *self.r.pick(&[0usize, 5, 252, 253, 1344]);
        if malformed == 2 {
            let n = 5usize;
            h.extend_from_slice(&[0xfd, n as u8, 0]);
            h.extend(self.r.bytes(n));
            return (h, None);
        }
        if n < 253 { h.push(n as u8) } else { h.push(0xfd); h.extend_from_slice(&(n as u16).to_le_bytes()); }
        h.extend(self.r.bytes(n));
        let d: [u8; 32] = Sha256::digest(Sha256::digest(&h)).into();
        match malformed {
            1 => { let l = self.r.range(1, h.len() as u64 - 1) as usize; h.truncate(l); (h, None) }
            3 => { let k = self.r.range(1, 40) as usize; h.extend(self.r.bytes(k)); (h, Some((d, prev))) }
            _ => (h, Some((d, prev))),
        }
    }

    fn value(&mut self) -> u64 {
        match self.r.below(5) {
            0 => 0,
            1 => self.r.below(10) + 1,
            2 => 2_100_000_000_000_000,
            _ => self.r.below(1_000_000_000),
        }
    }

    /// A Sapling output. `who`: Some((account index, scope)) or None for garbage.
    fn sapling_out(&mut self, params: &LocalNetwork, h: u32, who: Option<(usize, u8)>) -> (CompactSaplingOutput, Option<(u32, u8, u64, sapling::Note, u8)>) {
        match who {
            None => {
                let cmu = self.rand_base();
                let epk = self.rand32();
                let mut ct = vec![0u8; 52];
                self.r.0.fill_bytes(&mut ct);
                (CompactSaplingOutput { cmu: cmu.to_vec(), ephemeral_key: epk.to_vec(), ciphertext: ct }, None)
            }
            Some((ai, scope)) => {
                let a = &self.accts[ai];
                let to = if scope == 1 {
                    a.sap.change_address().1
                } else if self.r.bool() {
                    a.sap.default_address().1
                } else {
                    let j = self.r.below(50) as u32;
                    a.sap.find_address(j.into()).unwrap().1
                };
                let v = self.value();
                // plaintext version: mostly the one the block's ZIP 212 policy accepts, both during
                // the grace period, and sometimes the one it must reject
                use sapling::note_encryption::Zip212Enforcement as Z;
                let before = match zip212_enforcement(params, BlockHeight::from(h)) {
                    Z::Off => self.r.chance(17, 20),
                    Z::GracePeriod => self.r.bool(),
                    Z::On => self.r.chance(3, 20),
                };
                let rseed = if before {
                    sapling::Rseed::BeforeZip212(<jubjub::Fr as ff::Field>::random(&mut self.r.0))
                } else {
                    sapling::Rseed::AfterZip212(self.rand32())
                };
                let lead = if before { 1u8 } else { 2u8 };
                let note = sapling::Note::from_parts(to, SValue::from_raw(v), rseed);
                let enc = sapling_note_encryption(Some(a.sap.fvk().ovk), note.clone(), MemoBytes::empty().into_bytes(), &mut self.r.0);
                let out = CompactSaplingOutput {
                    cmu: note.cmu().to_bytes().to_vec(),
                    ephemeral_key: SaplingDomain::epk_bytes(enc.epk()).0.to_vec(),
                    ciphertext: enc.encrypt_note_plaintext()[..52].to_vec(),
                };
                (out, Some((a.id, scope, v, note, lead)))
            }
        }
    }

    /// An Orchard-shaped action with note version `v3` (Ironwood) or V2 (Orchard).
    fn orchard_act(&mut self, nf_old: [u8; 32], who: Option<(usize, u8)>, v3: bool) -> (CompactOrchardAction, Option<(u32, u8, u64, ONote)>) {
        match who {
            None => {
                let cmx = self.rand_base();
                let epk = self.rand32();
                let mut ct = vec![0u8; 52];
                self.r.0.fill_bytes(&mut ct);
                (CompactOrchardAction { nullifier: nf_old.to_vec(), cmx: cmx.to_vec(), ephemeral_key: epk.to_vec(), ciphertext: ct }, None)
            }
            Some((ai, scope)) => {
                let a = &self.accts[ai];
                let sc = if scope == 1 { Scope::Internal } else { Scope::External };
                let j = if scope == 1 { 0u32 } else { self.r.below(8) as u32 };
                let to = a.orch.address_at(j, sc);
                let v = self.value();
                let rho = Rho::from_bytes(&nf_old).unwrap();
                let rseed = loop {
                    let b = self.rand32();
                    if let Some(rs) = Option::from(RandomSeed::from_bytes(b, &rho)) {
                        break rs;
                    }
                };
                let ver = if v3 { NoteVersion::V3 } else { NoteVersion::V2 };
                let note: ONote = Option::from(ONote::from_parts(to, OValue::from_raw(v), rho, rseed, ver)).unwrap();
                let cmx = OCmx::from(note.commitment());
                let ovk = Some(a.orch.to_ovk(Scope::External));
                let (epk, ct) = if v3 {
                    let e = IronwoodNoteEncryption::new(ovk, note, [0u8; 512]);
                    (IronwoodDomain::epk_bytes(e.epk()).0, e.encrypt_note_plaintext())
                } else {
                    let e = OrchardNoteEncryption::new(ovk, note, [0u8; 512]);
                    (OrchardDomain::epk_bytes(e.epk()).0, e.encrypt_note_plaintext())
                };
                let act = CompactOrchardAction {
                    nullifier: nf_old.to_vec(),
                    cmx: cmx.to_bytes().to_vec(),
                    ephemeral_key: epk.to_vec(),
                    ciphertext: ct[..52].to_vec(),
                };
                (act, Some((a.id, scope, v, note)))
            }
        }
    }

    /// who receives an output: tracked (65%), untracked wallet or foreign account (20%), garbage (15%)
    fn pick_who(&mut self, tracked: &[usize]) -> Option<(usize, u8)> {
        let sc = if self.r.chance(1, 3) { 1 } else { 0 };
        match self.r.below(20) {
            0..=12 if !tracked.is_empty() => Some((*self.r.pick(tracked), sc)),
            13..=16 => {
                let others: Vec<usize> = (0..self.accts.len()).filter(|i| !tracked.contains(i)).collect();
                if others.is_empty() { None } else { Some((*self.r.pick(&others), sc)) }
            }
            _ => None,
        }
    }

    fn count(&mut self, big: bool) -> usize {
        if big {
            return self.r.range(20, 70) as usize;
        }
        match self.r.below(10) {
            0..=3 => 0,
            4..=6 => 1,
            7 => 2,
            8 => 3,
            _ => self.r.range(4, 7) as usize,
        }
    }

    fn chain(&mut self, big: bool, kind_b: bool) -> Chain {
        let n = self.accts.len();
        // wallet accounts are the first n-2, the last two are foreign (never tracked)
        let mut tracked: Vec<usize> = (0..n - 2).filter(|_| self.r.chance(2, 3)).collect();
        if tracked.is_empty() && self.r.chance(9, 10) {
            tracked.push(self.r.below((n - 2) as u64) as usize);
        }
        let h0 = match self.r.below(6) {
            0 => 1,
            1 => self.r.range(1, 20) as u32,
            2 => self.r.range(4_000_000_000, 4_294_967_200) as u32,
            _ => self.r.range(100, 3_000_000) as u32,
        };
        // activation heights: usually all active from 1; sometimes a pool is not active / unset
        let act = |g: &mut Self| -> Option<BlockHeight> {
            match g.r.below(8) {
                0 => None,
                1 => Some(BlockHeight::from(h0.saturating_add(g.r.range(1, 50) as u32))),
                2 => Some(BlockHeight::from(h0)),
                3 => Some(BlockHeight::from(h0.saturating_add(1))),
                _ => Some(BlockHeight::from(1)),
            }
        };
        let one = Some(BlockHeight::from(1));
        let sap_act = act(self);
        let nu5_act = act(self);
        let nu63_act = act(self);
        let mut nblocks = if kind_b { 1 } else if big { self.r.range(2, 4) as usize } else { *self.r.pick(&[1usize, 1, 2, 2, 3, 3, 4, 5]) };
        // Canopy: unset / long active / activating INSIDE the chain / grace period ending inside it
        let grace = zcash_protocol::consensus::ZIP212_GRACE_PERIOD;
        let inside = h0.saturating_add(self.r.below(nblocks as u64 + 1) as u32);
        let canopy = match self.r.below(8) {
            0 => None,
            1..=2 => Some(BlockHeight::from(inside)),
            3..=4 if inside > grace => Some(BlockHeight::from(inside - grace)),
            _ => one,
        };
        let params = LocalNetwork {
            overwinter: one,
            sapling: sap_act,
            blossom: one,
            heartwood: one,
            canopy,
            nu5: nu5_act,
            nu6: one,
            nu6_1: one,
            nu6_2: one,
            nu6_3: nu63_act,
        };
        // initial tracked nullifiers (arbitrary values, some duplicates across accounts, account 0 allowed)
        let ids: Vec<u32> = tracked.iter().map(|&i| self.accts[i].id).collect();
        let mut nf_s = vec![];
        let mut nf_o = vec![];
        let mut nf_i = vec![];
        if !ids.is_empty() {
            for _ in 0..self.r.below(5) {
                let a = *self.r.pick(&ids);
                let b = self.rand32();
                nf_s.push((a, sapling::Nullifier(b)));
                if self.r.chance(1, 6) {
                    let a2 = *self.r.pick(&ids);
                    nf_s.push((a2, sapling::Nullifier(b)));
                }
            }
            for _ in 0..self.r.below(4) {
                let a = *self.r.pick(&ids);
                let b = self.rand_base();
                nf_o.push((a, ONf::from_bytes(&b).unwrap()));
                if self.r.chance(1, 6) {
                    let a2 = *self.r.pick(&ids);
                    nf_o.push((a2, ONf::from_bytes(&b).unwrap()));
                }
            }
            for _ in 0..self.r.below(4) {
                let a = *self.r.pick(&ids);
                let b = self.rand_base();
                nf_i.push((a, ONf::from_bytes(&b).unwrap()));
            }
        }

        // true start sizes and how the scanner is told about them
        let mut start = [0u64; 3];
        for p in 0..3 {
            start[p] = match self.r.below(6) {
                0 => 0,
                1 => self.r.below(100),
                2 => (1u64 << 32) - 3000 - self.r.below(400),
                3 => (1u64 << 16) - self.r.below(10),
                _ => self.r.below(50_000_000),
            };
        }
        let prior_hash = self.rand32();
        // mode of the first block: 0 prior with sizes, 1 prior with some sizes missing, 2 no prior
        let mode = match self.r.below(10) {
            0..=5 => 0,
            6..=7 => 1,
            _ => 2,
        };
        let mut prior_sizes = [Some(0u32); 3];
        let mut first_meta = self.r.chance(7, 10);
        for p in 0..3 {
            prior_sizes[p] = if mode == 0 || (mode == 1 && self.r.bool()) { Some(start[p] as u32) } else { None };
        }
        if mode != 0 && !first_meta {
            // sizes come from the activation fallback (0) where possible; otherwise keep metadata
            let acts = [sap_act, nu5_act, nu63_act];
            let mut ok = true;
            for p in 0..3 {
                if prior_sizes[p].is_none() {
                    let below = acts[p].map_or(true, |a| BlockHeight::from(h0) < a);
                    if below { start[p] = 0 } else { ok = false }
                }
            }
            if !ok && self.r.chance(4, 5) {
                first_meta = true;
            } else if !ok {
                // the first block is rejected (TreeSizeUnknown): nothing may follow it, so that the
                // inline and the batched path see the same single defect
                nblocks = 1;
            }
        }
        let prior = if mode == 2 {
            None
        } else {
            Some(BlockMetadata::from_parts(BlockHeight::from(h0 - 1), BlockHash(prior_hash), prior_sizes[0], prior_sizes[1], prior_sizes[2]))
        };

        // generator-side view of the tracked nullifier sets, used to choose spends
        let mut cur_s: Vec<[u8; 32]> = nf_s.iter().map(|x| x.1 .0).collect();
        let mut cur_o: Vec<[u8; 32]> = nf_o.iter().map(|x| x.1.to_bytes()).collect();
        let mut cur_i: Vec<[u8; 32]> = nf_i.iter().map(|x| x.1.to_bytes()).collect();
        // nullifiers of notes received by tracked accounts in earlier blocks of this chain
        let mut got: [Vec<[u8; 32]>; 3] = [vec![], vec![], vec![]];
        let mut intra = [0usize; 3];

        let mut blocks = vec![];
        let mut prev = prior_hash;
        let mut pos = start;
        for bi in 0..nblocks {
            let h = h0.saturating_add(bi as u32);
            let ntx = if big { self.r.range(2, 5) as usize } else { *self.r.pick(&[0usize, 1, 1, 2, 2, 3, 3, 4, 5, 6]) };
            let mut cb = CompactBlock {
                height: h as u64,
                hash: self.rand32().to_vec(),
                prev_hash: prev.to_vec(),
                time: self.r.u64() as u32,
                header: vec![],
                vtx: vec![],
                chain_metadata: None,
            };
            let mut truth = vec![];
            for ti in 0..ntx {
                let mut tx = CompactTx::default();
                tx.txid = self.rand32().to_vec();
                tx.index = match self.r.below(12) {
                    0 => self.r.below(65536),
                    1 => 65535,
                    _ => ti as u64,
                };
                let mut tt = TxTruth::default();
                let bigtx = big && self.r.chance(1, 3);
                // Sapling spends and outputs
                for _ in 0..self.count(false) {
                    let live: Vec<[u8; 32]> = got[0].iter().filter(|x| cur_s.contains(x)).cloned().collect();
                    let nf = if !live.is_empty() && self.r.chance(1, 3) { *self.r.pick(&live) } else if !cur_s.is_empty() && self.r.chance(1, 2) { *self.r.pick(&cur_s) } else { self.rand32() };
                    if got[0].contains(&nf) { intra[0] += 1; }
                    tx.spends.push(CompactSaplingSpend { nf: nf.to_vec() });
                }
                for _ in 0..self.count(bigtx) {
                    let who = self.pick_who(&tracked);
                    let (mut out, t) = self.sapling_out(&params, h, who);
                    let mut t = t.map(|(acct, scope, value, note, lead)| {
                        let nk = self.accts.iter().find(|a| a.id == acct).unwrap().sap.to_nk(if scope == 1 { Scope::Internal } else { Scope::External });
                        let nf = note.nf(&nk, pos[0]);
                        Truth { acct, scope, value, nfpos: pos[0], nf: nf.0.to_vec(), lead, sap: Some((note, nk)) }
                    });
                    // near miss: an output for a real key that must NOT decrypt
                    if t.is_some() && self.r.chance(1, 12) {
                        match self.r.below(3) {
                            0 => { let k = self.r.below(52) as usize; out.ciphertext[k] ^= 1 << self.r.below(8); }
                            1 => out.ephemeral_key = self.rand32().to_vec(),
                            _ => out.cmu = self.rand_base().to_vec(),
                        }
                        t = None;
                    }
                    tx.outputs.push(out);
                    tt.s.push(t);
                    pos[0] += 1;
                }
                // Orchard actions
                let big_o = bigtx && self.r.bool();
                for _ in 0..self.count(big_o) {
                    let live: Vec<[u8; 32]> = got[1].iter().filter(|x| cur_o.contains(x)).cloned().collect();
                    let nf_old = if !live.is_empty() && self.r.chance(1, 3) { *self.r.pick(&live) } else if !cur_o.is_empty() && self.r.chance(1, 2) { *self.r.pick(&cur_o) } else { self.rand_base() };
                    if got[1].contains(&nf_old) { intra[1] += 1; }
                    let who = self.pick_who(&tracked);
                    // a v3 note in `actions` never decrypts under the Orchard domain
                    let wrong_domain = who.is_some() && self.r.chance(1, 15);
                    let (mut act, t) = self.orchard_act(nf_old, who, wrong_domain);
                    let mut t = t.map(|(acct, scope, value, note)| {
                        let fvk = &self.accts.iter().find(|a| a.id == acct).unwrap().orch;
                        Truth { acct, scope, value, nfpos: pos[1], nf: note.nullifier(fvk).to_bytes().to_vec(), lead: 0, sap: None }
                    });
                    if wrong_domain {
                        t = None;
                    }
                    if t.is_some() && self.r.chance(1, 12) {
                        match self.r.below(4) {
                            0 => { let k = self.r.below(52) as usize; act.ciphertext[k] ^= 1 << self.r.below(8); }
                            1 => act.ephemeral_key = self.rand32().to_vec(),
                            2 => act.cmx = self.rand_base().to_vec(),
                            _ => act.nullifier = self.rand_base().to_vec(), // rho mismatch
                        }
                        t = None;
                    }
                    tx.actions.push(act);
                    tt.o.push(t);
                    pos[1] += 1;
                }
                // Ironwood actions
                for _ in 0..self.count(false) {
                    let live: Vec<[u8; 32]> = got[2].iter().filter(|x| cur_i.contains(x)).cloned().collect();
                    let nf_old = if !live.is_empty() && self.r.chance(1, 3) { *self.r.pick(&live) } else if !cur_i.is_empty() && self.r.chance(1, 2) { *self.r.pick(&cur_i) } else { self.rand_base() };
                    if got[2].contains(&nf_old) { intra[2] += 1; }
                    let who = self.pick_who(&tracked);
                    let wrong_domain = who.is_some() && self.r.chance(1, 15);
                    let (mut act, t) = self.orchard_act(nf_old, who, !wrong_domain);
                    let mut t = t.map(|(acct, scope, value, note)| {
                        let fvk = &self.accts.iter().find(|a| a.id == acct).unwrap().orch;
                        Truth { acct, scope, value, nfpos: pos[2], nf: note.nullifier(fvk).to_bytes().to_vec(), lead: 0, sap: None }
                    });
                    if wrong_domain {
                        t = None;
                    }
                    if t.is_some() && self.r.chance(1, 12) {
                        let k = self.r.below(52) as usize;
                        act.ciphertext[k] ^= 1 << self.r.below(8);
                        t = None;
                    }
                    tx.ironwood_actions.push(act);
                    tt.i.push(t);
                    pos[2] += 1;
                }
                cb.vtx.push(tx);
                truth.push(tt);
            }
            // update the generator's view of the tracked sets: spent removed, received added
            for (tx, tt) in cb.vtx.iter().zip(&truth) {
                for s in &tx.spends { cur_s.retain(|x| x[..] != s.nf[..]); }
                for a in &tx.actions { cur_o.retain(|x| x[..] != a.nullifier[..]); }
                for a in &tx.ironwood_actions { cur_i.retain(|x| x[..] != a.nullifier[..]); }
                let enf = zip212_enforcement(&params, BlockHeight::from(h));
                let is_tracked = |t: &Truth| {
                    use sapling::note_encryption::Zip212Enforcement as Z;
                    ids.contains(&t.acct) && match (t.lead, enf) { (1, Z::On) | (2, Z::Off) => false, _ => true }
                };
                for t in tt.s.iter().flatten() { if is_tracked(t) { cur_s.push(t.nf.clone().try_into().unwrap()); got[0].push(t.nf.clone().try_into().unwrap()); } }
                for t in tt.o.iter().flatten() { if is_tracked(t) { cur_o.push(t.nf.clone().try_into().unwrap()); got[1].push(t.nf.clone().try_into().unwrap()); } }
                for t in tt.i.iter().flatten() { if is_tracked(t) { cur_i.push(t.nf.clone().try_into().unwrap()); got[2].push(t.nf.clone().try_into().unwrap()); } }
            }
            let with_meta = if bi == 0 { first_meta } else { self.r.chance(7, 10) };
            if with_meta {
                cb.chain_metadata = Some(ChainMetadata {
                    sapling_commitment_tree_size: pos[0] as u32,
                    orchard_commitment_tree_size: pos[1] as u32,
                    ironwood_commitment_tree_size: pos[2] as u32,
                });
            }
            // header modes: none (70%); header authoritative with raw fields consistent /
            // different / empty / trailing bytes; unparsable header with raw fields authoritative
            let parent = prev;
            let mut hdr = None;
            match self.r.below(20) {
                0..=13 => {}
                14 => { let (hb, t) = self.mk_header(parent, 0); cb.header = hb; hdr = t; cb.hash = t.unwrap().0.to_vec(); }
                15 => { let (hb, t) = self.mk_header(parent, 0); cb.header = hb; hdr = t; cb.prev_hash = self.rand32().to_vec(); }
                16 => { let (hb, t) = self.mk_header(parent, 0); cb.header = hb; hdr = t; cb.hash = vec![]; cb.prev_hash = vec![]; }
                17 => { let (hb, t) = self.mk_header(parent, 3); cb.header = hb; hdr = t; }
                18 => { let (hb, _) = self.mk_header(parent, 1); cb.header = hb; }
                _ => { let (hb, _) = self.mk_header(parent, 2); cb.header = hb; }
            }
            prev = match hdr { Some((h, _)) => h, None => cb.hash.clone().try_into().unwrap() };
            blocks.push(GBlock { cb, truth, hdr, parent, corruption: vec![] });
        }

        let crosses = {
            let e = |h: u32| zip212_enforcement(&params, BlockHeight::from(h)) as u8;
            blocks.len() > 1 && e(h0) != e(h0.saturating_add(blocks.len() as u32 - 1))
        };
        let mut ch = Chain { params, tracked, prior, nf_s, nf_o, nf_i, blocks, first_height: h0, kind_b, intra, crosses };
        // corruption stream (last block only)
        let ncorr = if self.force.is_some() { 1 } else if kind_b { self.r.range(2, 3) } else if self.r.chance(35, 100) { 1 } else { 0 };
        for _ in 0..ncorr {
            self.corrupt(&mut ch);
        }
        // Sapling nullifiers depend on the note position: recompute the ground truth of the last
        // block for the tree size it now starts from (prior size, else metadata - outputs, else 0)
        {
            let last = ch.blocks.len() - 1;
            let n: u64 = ch.blocks[last].cb.vtx.iter().map(|t| t.outputs.len() as u64).sum();
            let prior_size: Option<u64> = if last == 0 {
                ch.prior.as_ref().and_then(|p| p.sapling_tree_size()).map(|x| x as u64)
            } else {
                let before: u64 = ch.blocks[..last].iter().flat_map(|g| g.cb.vtx.iter()).map(|t| t.outputs.len() as u64).sum();
                Some(start[0] + before)
            };
            let eff = prior_size.or_else(|| ch.blocks[last].cb.chain_metadata.as_ref().map(|m| (m.sapling_commitment_tree_size as u64).saturating_sub(n))).unwrap_or(0);
            let mut p = eff;
            for tt in ch.blocks[last].truth.iter_mut() {
                for t in tt.s.iter_mut() {
                    if let Some(t) = t.as_mut() {
                        if t.nfpos != p {
                            let (note, nk) = t.sap.as_ref().unwrap();
                            t.nfpos = p;
                            t.nf = note.nf(nk, p).0.to_vec();
                        }
                    }
                    p += 1;
                }
            }
        }
        ch
    }

    fn bad_len(&mut self, v: &mut Vec<u8>, good: usize) {
        let l = *self.r.pick(&[0usize, 1, good - 1, good + 1, 2 * good, 580]);
        v.resize(l, 0xab);
    }

    fn corrupt(&mut self, ch: &mut Chain) {
        let last = ch.blocks.len() - 1;
        let single = ch.blocks.len() == 1;
        let rb = self.rand32();
        let rbase = self.rand_base();
        let g = &mut ch.blocks[last];
        let nt = g.cb.vtx.len();
        let which = self.force.unwrap_or_else(|| { let w = self.r.below(27); if w == 24 { 27 } else { w } });
        let tag: &'static str = match which {
            0 => { g.cb.height = match self.r.below(4) { 0 => g.cb.height.wrapping_add(1), 1 => g.cb.height.saturating_sub(1), 2 => g.cb.height.wrapping_add(2), _ => 0 }; "height" }
            1 => { g.cb.height = *self.r.pick(&[1u64 << 32, (1u64 << 32).wrapping_add(g.cb.height), u64::MAX, (1u64 << 32) - 1]); "height-big" }
            2 => { g.cb.prev_hash = rb.to_vec(); "prev-hash" }
            3 => { let k = self.r.below(32) as usize; if g.cb.prev_hash.len() == 32 { g.cb.prev_hash[k] ^= 1 << self.r.below(8); } "prev-hash-bit" }
            4 => { self.bad_len(&mut g.cb.prev_hash, 32); "prev-hash-len" }
            5 => { self.bad_len(&mut g.cb.hash, 32); "hash-len" }
            6 => {
                if let Some(m) = g.cb.chain_metadata.as_mut() {
                    let d = if self.r.bool() { 1u32 } else { u32::MAX };
                    match self.r.below(3) {
                        0 => m.sapling_commitment_tree_size = m.sapling_commitment_tree_size.wrapping_add(d),
                        1 => m.orchard_commitment_tree_size = m.orchard_commitment_tree_size.wrapping_add(d),
                        _ => m.ironwood_commitment_tree_size = m.ironwood_commitment_tree_size.wrapping_add(d),
                    }
                }
                "meta-off-by-one"
            }
            7 => { g.cb.chain_metadata = Some(ChainMetadata::default()); "meta-default" }
            8 => { g.cb.chain_metadata = None; "meta-none" }
            9 => {
                // prior tree sizes: dropped / perturbed (only meaningful for the first block)
                if single {
                    if let Some(p) = ch.prior {
                        let f = |g: &mut Self, x: Option<u32>| match g.r.below(4) { 0 => None, 1 => x.map(|v| v.wrapping_add(1)), 2 => Some(u32::MAX - g.r.below(3) as u32), _ => x };
                        let (mut a, b, c) = (f(self, p.sapling_tree_size()), f(self, p.orchard_tree_size()), f(self, p.ironwood_tree_size()));
                        if self.r.chance(1, 3) {
                            // exact boundary: the Sapling tree ends at u32::MAX (accepted) or one past it (overflow)
                            let n: u64 = ch.blocks[last].cb.vtx.iter().map(|t| t.outputs.len() as u64).sum();
                            let over = self.r.below(2);
                            a = Some(((1u64 << 32) - 1 - n + over) as u32);
                            if let Some(m) = ch.blocks[last].cb.chain_metadata.as_mut() {
                                m.sapling_commitment_tree_size = if over == 0 { u32::MAX } else { 0 };
                            }
                        }
                        ch.prior = Some(BlockMetadata::from_parts(p.block_height(), p.block_hash(), a, b, c));
                    }
                }
                "prior-sizes"
            }
            10 if nt > 0 => { let t = self.r.below(nt as u64) as usize; self.bad_len(&mut ch.blocks[last].cb.vtx[t].txid, 32); "txid-len" }
            25 => {
                // a parsable header naming ANOTHER parent, next to a raw prev_hash naming the right one
                let parent = ch.blocks[last].parent;
                let other = self.rand32();
                let m = if self.r.chance(1, 4) { 3 } else { 0 };
                let (hb, t) = self.mk_header(other, m);
                let g = &mut ch.blocks[last];
                g.cb.header = hb;
                g.hdr = t;
                g.cb.prev_hash = parent.to_vec();
                "hdr-wrong-parent-raw-right"
            }
            26 => {
                // the header names the right parent, the raw prev_hash another one / a wrong hash
                let parent = ch.blocks[last].parent;
                let (hb, t) = self.mk_header(parent, 0);
                let junk = self.rand32();
                let g = &mut ch.blocks[last];
                g.cb.header = hb;
                g.hdr = t;
                g.cb.prev_hash = junk.to_vec();
                if self.r.bool() { g.cb.hash = junk.to_vec(); }
                "hdr-right-parent-raw-wrong"
            }
            27 => {
                // unparsable header: the raw fields are authoritative, and the raw prev_hash is wrong
                let parent = ch.blocks[last].parent;
                let m = if self.r.bool() { 1 } else { 2 };
                let (hb, _) = self.mk_header(parent, m);
                let junk = self.rand32();
                let g = &mut ch.blocks[last];
                g.cb.header = hb;
                g.hdr = None;
                g.cb.prev_hash = junk.to_vec();
                "hdr-malformed-raw-wrong"
            }
            24 if nt > 1 => {
                // two transactions of the block carry the same txid
                let t = self.r.below(nt as u64 - 1) as usize;
                let id = ch.blocks[last].cb.vtx[t].txid.clone();
                ch.blocks[last].cb.vtx[t + 1].txid = id;
                "dup-txid"
            }
            11 if nt > 0 => {
                let t = self.r.below(nt as u64) as usize;
                ch.blocks[last].cb.vtx[t].index = *self.r.pick(&[65536u64, 65537, 1 << 32, u64::MAX, 70000]);
                "tx-index"
            }
            12..=23 if nt > 0 => {
                // field lengths / non-canonical encodings inside one transaction
                let t = self.r.below(nt as u64) as usize;
                let tx = &mut ch.blocks[last].cb.vtx[t];
                let noncanon = vec![0xffu8; 32];
                match which {
                    12 if !tx.spends.is_empty() => { let k = self.r.below(tx.spends.len() as u64) as usize; self.bad_len(&mut tx.spends[k].nf, 32); "sapling-nf-len" }
                    13 if !tx.outputs.is_empty() => { let k = self.r.below(tx.outputs.len() as u64) as usize; self.bad_len(&mut tx.outputs[k].cmu, 32); "sapling-cmu-len" }
                    14 if !tx.outputs.is_empty() => { let k = self.r.below(tx.outputs.len() as u64) as usize; tx.outputs[k].cmu = noncanon; "sapling-cmu-noncanonical" }
                    15 if !tx.outputs.is_empty() => { let k = self.r.below(tx.outputs.len() as u64) as usize; self.bad_len(&mut tx.outputs[k].ephemeral_key, 32); "sapling-epk-len" }
                    16 if !tx.outputs.is_empty() => { let k = self.r.below(tx.outputs.len() as u64) as usize; self.bad_len(&mut tx.outputs[k].ciphertext, 52); "sapling-ct-len" }
                    17 | 18 | 19 | 20 | 22 | 23 => {
                        let iw = self.r.bool();
                        let acts = if iw { &mut tx.ironwood_actions } else { &mut tx.actions };
                        if acts.is_empty() {
                            "none"
                        } else {
                            let k = self.r.below(acts.len() as u64) as usize;
                            match which {
                                17 => { self.bad_len(&mut acts[k].nullifier, 32); if iw { "ironwood-nf-len" } else { "orchard-nf-len" } }
                                18 => { if self.r.bool() { acts[k].nullifier = noncanon } else { acts[k].nullifier = PALLAS_P.to_vec() }; if iw { "ironwood-nf-noncanonical" } else { "orchard-nf-noncanonical" } }
                                19 => { self.bad_len(&mut acts[k].cmx, 32); if iw { "ironwood-cmx-len" } else { "orchard-cmx-len" } }
                                20 => { acts[k].cmx = noncanon; if iw { "ironwood-cmx-noncanonical" } else { "orchard-cmx-noncanonical" } }
                                22 => { self.bad_len(&mut acts[k].ephemeral_key, 32); if iw { "ironwood-epk-len" } else { "orchard-epk-len" } }
                                _ => { self.bad_len(&mut acts[k].ciphertext, 52); if iw { "ironwood-ct-len" } else { "orchard-ct-len" } }
                            }
                        }
                    }
                    21 if !tx.outputs.is_empty() => { let k = self.r.below(tx.outputs.len() as u64) as usize; tx.outputs[k].cmu = SAPLING_Q.to_vec(); "sapling-cmu-modulus" }
                    _ => "none",
                }
            }
            _ => "none",
        };
        let _ = rbase;
        ch.blocks[last].corruption.push(tag);
    }
}

// ------------------------------------------------------------------------------------------
// canonical printing (raw form: opaque byte strings appear as #hex#; interned afterwards)
// ------------------------------------------------------------------------------------------

fn tok(b: &[u8]) -> String {
    format!("#{}#", hex(b))
}
fn fld(b: &[u8], ok: bool) -> String {
    format!("(F {} {} {})", b.len(), boolc(b.len() == 32 && ok), tok(b))
}
fn pool_s(p: ShieldedPool) -> &'static str {
    match p {
        ShieldedPool::Sapling => "Sapling",
        ShieldedPool::Orchard => "Orchard",
        ShieldedPool::Ironwood => "Ironwood",
    }
}
fn ret_s(r: &Retention<BlockHeight>) -> String {
    match r {
        Retention::Ephemeral => "Eph".into(),
        Retention::Marked => "Mk".into(),
        Retention::Checkpoint { id, marking } => format!("(Ck {} {})", u32::from(*id), boolc(matches!(marking, Marking::Marked))),
        _ => "(Ck 0 false)".into(), // Reference: never produced by scanning
    }
}
fn scope_s(s: Option<Scope>) -> String {
    match s {
        None => "None".into(),
        Some(Scope::External) => "(Some 0)".into(),
        Some(Scope::Internal) => "(Some 1)".into(),
    }
}

fn raw_txs(sb: &ScannedBlock<u32>) -> String {
    let spends = |v: Vec<(usize, Vec<u8>, u32)>| list(v.into_iter().map(|(i, nf, a)| format!("({}, {}, {})", i, tok(&nf), a)));
    let txs = list(sb.transactions().iter().map(|tx| {
        let ss = spends(tx.sapling_spends().iter().map(|s| (s.index(), s.nf().0.to_vec(), *s.account_id())).collect());
        let os = spends(tx.orchard_spends().iter().map(|s| (s.index(), s.nf().to_bytes().to_vec(), *s.account_id())).collect());
        let is = spends(tx.ironwood_spends().iter().map(|s| (s.index(), s.nf().to_bytes().to_vec(), *s.account_id())).collect());
        let so = list(tx.sapling_outputs().iter().map(|o| {
            format!("(Wo {} {} {} {} {} {} {} {} {})", o.index(), tok(&o.ephemeral_key().0), o.note().value().inner(), boolc(o.is_change()),
                u64::from(o.note_commitment_tree_position()), opt(o.nf().map(|n| tok(&n.0))), o.account_id(), scope_s(o.recipient_key_scope()),
                tok(&o.note().cmu().to_bytes()))
        }));
        let oo = |outs: &[zcash_client_backend::wallet::WalletOutput<(ONote, orchard::ValuePool), ONf, u32>], want: orchard::ValuePool| {
            list(outs.iter().map(|o| {
                let pool_ok = o.note().1 == want;
                format!("(Wo {} {} {} {} {} {} {} {} {})", o.index(), tok(&o.ephemeral_key().0), o.note().0.value().inner(), boolc(o.is_change()),
                    u64::from(o.note_commitment_tree_position()), opt(o.nf().map(|n| tok(&n.to_bytes()))), o.account_id(), scope_s(o.recipient_key_scope()),
                    if pool_ok { tok(&OCmx::from(o.note().0.commitment()).to_bytes()) } else { tok(b"wrong-pool") })
            }))
        };
        format!("(Wtx {} {} {} {} {} {} {} {})", tok(tx.txid().as_ref()), u16::from(tx.block_index()), ss, so, os,
            oo(tx.orchard_outputs(), orchard::ValuePool::Orchard), is, oo(tx.ironwood_outputs(), orchard::ValuePool::Ironwood))
    }));
    txs
}

fn raw_ok(sb: &ScannedBlock<u32>) -> String {
    let txs = raw_txs(sb);
    let bun = |fin: u32, comm: Vec<(Vec<u8>, String)>, nfm: Vec<(u16, Vec<u8>, Vec<Vec<u8>>)>| {
        format!("(Bn {} {} {})", fin, list(comm.into_iter().map(|(c, r)| format!("({}, {})", tok(&c), r))),
            list(nfm.into_iter().map(|(i, t, nfs)| format!("({}, {}, {})", i, tok(&t), list(nfs.iter().map(|n| tok(n)))))))
    };
    let s = sb.sapling();
    let o = sb.orchard();
    let i = sb.ironwood();
    format!("(Ok (Sc {} {} {} {} {} {} {}))", u32::from(sb.height()), tok(&sb.block_hash().0), sb.block_time(), txs,
        bun(s.final_tree_size(), s.commitments().iter().map(|(n, r)| (n.to_bytes().to_vec(), ret_s(r))).collect(),
            s.nullifier_map().iter().map(|(i, t, n)| (u16::from(*i), t.as_ref().to_vec(), n.iter().map(|x| x.0.to_vec()).collect())).collect()),
        bun(o.final_tree_size(), o.commitments().iter().map(|(n, r)| (n.to_bytes().to_vec(), ret_s(r))).collect(),
            o.nullifier_map().iter().map(|(i, t, n)| (u16::from(*i), t.as_ref().to_vec(), n.iter().map(|x| x.to_bytes().to_vec()).collect())).collect()),
        bun(i.final_tree_size(), i.commitments().iter().map(|(n, r)| (n.to_bytes().to_vec(), ret_s(r))).collect(),
            i.nullifier_map().iter().map(|(i, t, n)| (u16::from(*i), t.as_ref().to_vec(), n.iter().map(|x| x.to_bytes().to_vec()).collect())).collect()))
}

fn raw_err(e: &ScanError) -> String {
    let h = |x: &BlockHeight| u32::from(*x);
    match e {
        ScanError::EncodingInvalid { at_height, txid, pool_type, index } => format!("(Err (EncodingInvalid {} {} {} {}))", h(at_height), tok(txid.as_ref()), pool_s(*pool_type), index),
        ScanError::PrevHashMismatch { at_height } => format!("(Err (PrevHashMismatch {}))", h(at_height)),
        ScanError::BlockHeightDiscontinuity { prev_height, new_height } => format!("(Err (BlockHeightDiscontinuity {} {}))", h(prev_height), h(new_height)),
        ScanError::TreeSizeMismatch { protocol, at_height, given, computed } => format!("(Err (TreeSizeMismatch {} {} {} {}))", pool_s(*protocol), h(at_height), given, computed),
        ScanError::TreeSizeUnknown { protocol, at_height } => format!("(Err (TreeSizeUnknown {} {}))", pool_s(*protocol), h(at_height)),
        ScanError::TreeSizeInvalid { protocol, at_height } => format!("(Err (TreeSizeInvalid {} {}))", pool_s(*protocol), h(at_height)),
        ScanError::TreeSizeOverflow { protocol, at_height } => format!("(Err (TreeSizeOverflow {} {}))", pool_s(*protocol), h(at_height)),
        _ => "(Err OtherError)".into(),
    }
}

fn raw_outcome(r: &Option<Result<ScannedBlock<u32>, ScanError>>) -> String {
    match r {
        None => "Panic".into(),
        Some(Ok(sb)) => raw_ok(sb),
        Some(Err(e)) => raw_err(e),
    }
}

fn truth_s(t: &Option<Truth>) -> String {
    match t {
        None => "None".into(),
        Some(t) => format!("(Some (T {} {} {} {} {} {}))", t.acct, t.scope, t.value, t.nfpos, tok(&t.nf), t.lead),
    }
}

fn raw_nfs(nfs: &Nullifiers<u32>) -> String {
    let nf = |v: Vec<(u32, Vec<u8>)>| list(v.into_iter().map(|(a, n)| format!("({}, {})", a, tok(&n))));
    format!("(Nfs {} {} {})",
        nf(nfs.sapling().iter().map(|(a, n)| (*a, n.0.to_vec())).collect()),
        nf(nfs.orchard().iter().map(|(a, n)| (*a, n.to_bytes().to_vec())).collect()),
        nf(nfs.ironwood().iter().map(|(a, n)| (*a, n.to_bytes().to_vec())).collect()))
}

fn raw_inputs(ch: &Chain, accts: &[Acct], g: &GBlock, prior: &Option<BlockMetadata>, nfs: &Nullifiers<u32>) -> String {
    let ah = |x: Option<BlockHeight>| opt(x.map(|h| format!("{}", u32::from(h))));
    let cfg = format!("(Cfg {} {} {} {})", ah(ch.params.sapling), ah(ch.params.nu5), ah(ch.params.nu6_3), ah(ch.params.canopy));
    let os = |x: Option<u32>| opt(x.map(|v| format!("{}", v)));
    let pr = opt(prior.as_ref().map(|p| format!("(Pm {} {} {} {} {})", u32::from(p.block_height()), tok(&p.block_hash().0), os(p.sapling_tree_size()), os(p.orchard_tree_size()), os(p.ironwood_tree_size()))));
    // keys: every tracked account × {external, internal}; the same list serves the three pools
    let keys = list(ch.tracked.iter().flat_map(|&i| { let id = accts[i].id; vec![format!("(K {} 0)", id), format!("(K {} 1)", id)] }));
    let nf = |v: Vec<(u32, Vec<u8>)>| list(v.into_iter().map(|(a, n)| format!("({}, {})", a, tok(&n))));
    let nfset = format!("(Nfs {} {} {})",
        nf(nfs.sapling().iter().map(|(a, n)| (*a, n.0.to_vec())).collect()),
        nf(nfs.orchard().iter().map(|(a, n)| (*a, n.to_bytes().to_vec())).collect()),
        nf(nfs.ironwood().iter().map(|(a, n)| (*a, n.to_bytes().to_vec())).collect()));
    let cb = &g.cb;
    let vtx = list(cb.vtx.iter().zip(&g.truth).map(|(tx, tt)| {
        let sp = list(tx.spends.iter().map(|s| fld(&s.nf, true)));
        let so = list(tx.outputs.iter().zip(&tt.s).map(|(o, t)| {
            format!("(O {} {} {} {} {})", fld(&[], false), fld(&o.cmu, le_lt(&o.cmu, &SAPLING_Q)), fld(&o.ephemeral_key, true), o.ciphertext.len(), truth_s(t))
        }));
        let act = |a: &CompactOrchardAction, t: &Option<Truth>| {
            format!("(O {} {} {} {} {})", fld(&a.nullifier, le_lt(&a.nullifier, &PALLAS_P)), fld(&a.cmx, le_lt(&a.cmx, &PALLAS_P)), fld(&a.ephemeral_key, true), a.ciphertext.len(), truth_s(t))
        };
        let oa = list(tx.actions.iter().zip(&tt.o).map(|(a, t)| act(a, t)));
        let ia = list(tx.ironwood_actions.iter().zip(&tt.i).map(|(a, t)| act(a, t)));
        format!("(Tx {} {} {} {} {} {})", tx.index, fld(&tx.txid, true), sp, so, oa, ia)
    }));
    let hdr = opt(g.hdr.map(|(h, p)| format!("({}, {})", tok(&h), tok(&p))));
    let meta = opt(cb.chain_metadata.as_ref().map(|m| format!("({}, {}, {})", m.sapling_commitment_tree_size, m.orchard_commitment_tree_size, m.ironwood_commitment_tree_size)));
    format!("{} {} {} {} (Blk {} {} {} {} {} {} {})", cfg, pr, keys, nfset, cb.height, fld(&cb.hash, true), fld(&cb.prev_hash, true), cb.time, hdr, vtx, meta)
}

/// Replace every #hex# token by a small number (first occurrence order, from 1).
fn intern(raw: &str) -> String {
    let mut table: HashMap<&str, usize> = HashMap::new();
    let mut out = String::with_capacity(raw.len());
    let mut rest = raw;
    while let Some(i) = rest.find('#') {
        out.push_str(&rest[..i]);
        let after = &rest[i + 1..];
        let j = after.find('#').expect("unterminated token");
        let key = &after[..j];
        let n = table.len() + 1;
        let id = *table.entry(key).or_insert(n);
        out.push_str(&id.to_string());
        rest = &after[j + 1..];
    }
    out.push_str(rest);
    out
}

// ------------------------------------------------------------------------------------------
// running the scanners
// ------------------------------------------------------------------------------------------

struct Src(Vec<CompactBlock>);
impl BlockSource for Src {
    type Error = Infallible;
    fn with_blocks<F, W>(&self, _from: Option<BlockHeight>, limit: Option<usize>, mut f: F) -> Result<(), ChainError<W, Infallible>>
    where
        F: FnMut(CompactBlock) -> Result<(), ChainError<W, Infallible>>,
    {
        for b in self.0.iter().take(limit.unwrap_or(usize::MAX)) {
            f(b.clone())?;
        }
        Ok(())
    }
}

fn spy_for(ch: &Chain, accts: &[Acct]) -> Spy {
    Spy {
        ufvks: ch.tracked.iter().map(|&i| (accts[i].id, accts[i].ufvk.clone())).collect(),
        prior: ch.prior,
        nf_sapling: ch.nf_s.clone(),
        nf_orchard: ch.nf_o.clone(),
        nf_ironwood: ch.nf_i.clone(),
        captured: vec![],
        put_calls: 0,
    }
}

/// Inline scan of the chain: (raw inputs, raw outcome) per block; stops at the first rejection.
fn run_inline(ch: &Chain, accts: &[Acct]) -> (Vec<(String, String)>, Vec<String>) {
    let spy = spy_for(ch, accts);
    let keys = ScanningKeys::from_account_ufvks(spy.ufvks.clone());
    let mut nfs = Nullifiers::unspent(&spy).unwrap();
    let mut prior = ch.prior;
    let mut out = vec![];
    let mut upd = vec![];
    for g in &ch.blocks {
        let inp = raw_inputs(ch, accts, g, &prior, &nfs);
        let r = scan_catch(|| scan_block(&ch.params, g.cb.clone(), &keys, &nfs, prior.as_ref()));
        let o = raw_outcome(&r);
        out.push((inp, o));
        match r {
            Some(Ok(sb)) => {
                // Nullifiers::update_with between consecutive blocks of the chain: its own case
                let before = raw_nfs(&nfs);
                nfs.update_with(&sb);
                upd.push(format!("Upd {} {} {}", before, raw_txs(&sb), raw_nfs(&nfs)));
                prior = Some(sb.to_block_metadata());
            }
            _ => break,
        }
    }
    (out, upd)
}

/// Batched scan of the whole chain through `scan_cached_blocks`.
/// Returns Ok(per-block raw outcomes) | Err(raw error) | Panic, plus "partial application" flag.
enum Cached {
    Ok(Vec<String>),
    Err(String),
    Panic,
}
fn run_cached(ch: &Chain, accts: &[Acct]) -> (Cached, bool) {
    let mut spy = spy_for(ch, accts);
    let src = Src(ch.blocks.iter().map(|g| g.cb.clone()).collect());
    let from = BlockHeight::from(ch.first_height);
    let state = ChainState::empty(from - 1, BlockHash([0; 32]));
    let n = ch.blocks.len();
    let r = scan_catch(|| scan_cached_blocks(&ch.params, &src, &mut spy, from, &state, n));
    match r {
        None => (Cached::Panic, spy.put_calls != 0),
        Some(Ok(_)) => {
            let v = spy.captured.iter().map(raw_ok).collect::<Vec<_>>();
            (Cached::Ok(v), spy.put_calls != 1)
        }
        Some(Err(ChainError::Scan(e))) => (Cached::Err(raw_err(&e)), spy.put_calls != 0),
        Some(Err(_)) => (Cached::Err("(Err OtherError)".into()), spy.put_calls != 0),
    }
}

/// Panics of the code under test are outcomes (silent); a panic anywhere else in the harness is a
/// harness defect and is reported on stderr (which the driver keeps in its log).
static IN_SCAN: std::sync::atomic::AtomicUsize = std::sync::atomic::AtomicUsize::new(0);
fn scan_catch<T>(f: impl FnOnce() -> T) -> Option<T> {
    IN_SCAN.fetch_add(1, std::sync::atomic::Ordering::SeqCst);
    let r = catch(f);
    IN_SCAN.fetch_sub(1, std::sync::atomic::Ordering::SeqCst);
    r
}
fn install_hook() {
    std::panic::set_hook(Box::new(|info| {
        if IN_SCAN.load(std::sync::atomic::Ordering::SeqCst) == 0 {
            eprintln!("c05 harness panic (outside the code under test): {}", info);
        }
    }));
}

fn class_of(o: &str) -> u8 {
    if o.starts_with("(Ok") { 0 } else if o.starts_with("(Err") { 1 } else { 2 }
}

// ------------------------------------------------------------------------------------------

fn plan(a: &Args) -> (usize, usize, usize) {
    // (ordinary chains, big chains, malformed single-block chains)
    if let Some(i) = a.rest.iter().position(|x| x == "--small") {
        let n: usize = a.rest[i + 1].parse().unwrap();
        return (n, 1, n / 3);
    }
    if a.search { (700, 4, 300) } else if a.thorough() { (2000, 10, 800) } else { (260, 3, 120) }
}

fn main() {
    let a = args();
    if !a.rest.iter().any(|x| x == "--loud") {
        install_hook();
    }
    let argn = |name: &str| a.rest.iter().position(|x| x == name).map(|i| a.rest[i + 1].parse::<usize>().unwrap());
    let (n_ord, n_big, n_bad) = plan(&a);
    // fixed corpus: one chain per corruption kind that is a known finding or a repaired defect
    const CORPUS: [u64; 11] = [1, 5, 4, 10, 11, 13, 9, 24, 25, 26, 27];
    let total = n_ord + n_big + n_bad + CORPUS.len();
    const SHARDS: usize = 3;

    if let Some(threads) = argn("--worker") {
        // worker: chains ci = shard (mod SHARDS); batched path with `threads` rayon threads;
        // the 16-thread worker also runs the inline path and prints the case material
        let shard = argn("--shard").unwrap_or(0);
        rayon::ThreadPoolBuilder::new().num_threads(threads).build_global().unwrap();
        let accts = vec![mk_acct(0, 1), mk_acct(7, 2), mk_acct(12, 3), mk_acct(100, 4), mk_acct(101, 5)];
        let out = std::io::stdout();
        let mut w = std::io::BufWriter::new(out.lock());
        use std::io::Write;
        let mut ci = shard;
        while ci < total {
            let (big, kind_b) = if ci < n_ord { (false, false) } else if ci < n_ord + n_big { (true, false) } else if ci < n_ord + n_big + n_bad { (false, true) } else { (false, false) };
            let ch = if ci >= n_ord + n_big + n_bad {
                // corpus chains do not depend on the seed
                let kind = CORPUS[ci - (n_ord + n_big + n_bad)];
                let mut k = 0u64;
                loop {
                    let mut g = Gen { r: Rng::new(0xC05, 7_000_000 + 1000 * kind + k), accts: &accts, search: false, force: Some(kind) };
                    let ch = g.chain(false, false);
                    if ch.blocks.last().unwrap().corruption.iter().all(|c| *c != "none") && ch.blocks.len() == 1 && (kind < 25 || ch.prior.is_some()) {
                        break ch;
                    }
                    k += 1;
                }
            } else {
                let mut g = Gen { r: Rng::new(a.seed, 100 + ci as u64), accts: &accts, search: a.search, force: None };
                g.chain(big, kind_b)
            };
            let (c, partial) = run_cached(&ch, &accts);
            let cs = match c {
                Cached::Ok(v) => format!("O{}", v.join("\u{1}")),
                Cached::Err(e) => format!("E{}", e),
                Cached::Panic => "P".to_string(),
            };
            let cs = if partial { format!("{}!partial", cs) } else { cs };
            writeln!(w, "R {} {}", ci, cs).unwrap();
            if threads == 16 {
                let (inl, upd) = run_inline(&ch, &accts);
                for (j, (inp, o)) in inl.into_iter().enumerate() {
                    writeln!(w, "I {} {}\t{}\t{}", ci, j, inp, o).unwrap();
                }
                for u in upd {
                    writeln!(w, "U {} {}", ci, u).unwrap();
                }
                writeln!(w, "K {} {} {} {} {} {}", ci, if kind_b { 1 } else { 0 }, ch.intra[0] + if ch.crosses { 1_000_000 } else { 0 }, ch.intra[1], ch.intra[2], ch.blocks.last().unwrap().corruption.join(",")).unwrap();
            }
            ci += SHARDS;
        }
        return;
    }

    // parent: spawn the workers, drain their output concurrently, merge
    let mut readers = vec![];
    for t in [16usize, 1, 2, 7] {
        for s in 0..SHARDS {
            let mut c = Command::new(std::env::current_exe().unwrap());
            c.args(["--tier", &a.tier, "--seed", &a.seed.to_string(), "--worker", &t.to_string(), "--shard", &s.to_string()]);
            if a.search {
                c.arg("--search");
            }
            if let Some(n) = argn("--small") {
                c.args(["--small", &n.to_string()]);
            }
            c.stdout(Stdio::piped()).stderr(Stdio::inherit());
            let mut child = c.spawn().expect("spawn worker");
            let out = child.stdout.take().unwrap();
            readers.push(std::thread::spawn(move || {
                let lines: Vec<String> = BufReader::new(out).lines().map(|l| l.unwrap()).collect();
                let st = child.wait().unwrap();
                (t, st.success(), lines)
            }));
        }
    }
    struct Res {
        inl: Vec<(String, String)>,
        kind_b: bool,
        cached: Vec<(usize, String)>,
        corruption: Vec<String>,
        upd: Vec<String>,
        intra: [usize; 3],
    }
    let mut all: Vec<Res> = (0..total).map(|_| Res { inl: vec![], kind_b: false, cached: vec![], corruption: vec![], upd: vec![], intra: [0; 3] }).collect();
    for r in readers {
        let (t, ok, lines) = r.join().unwrap();
        assert!(ok, "worker with {} threads failed", t);
        for line in lines {
            let (kind, rest) = line.split_at(2);
            let (ci, rest) = rest.split_once(' ').unwrap();
            let ci: usize = ci.parse().unwrap();
            match kind {
                "R " => all[ci].cached.push((t, rest.to_string())),
                "I " => {
                    let mut it = rest.splitn(3, '\t');
                    let _j = it.next().unwrap();
                    let inp = it.next().unwrap().to_string();
                    let o = it.next().unwrap().to_string();
                    all[ci].inl.push((inp, o));
                }
                "U " => all[ci].upd.push(rest.to_string()),
                "K " => {
                    let mut it = rest.splitn(5, ' ');
                    let kb = it.next().unwrap();
                    for k in 0..3 { all[ci].intra[k] = it.next().unwrap().parse().unwrap(); }
                    let corr = it.next().unwrap_or("");
                    all[ci].kind_b = kb == "1";
                    all[ci].corruption = corr.split(',').filter(|x| !x.is_empty()).map(|x| x.to_string()).collect();
                }
                _ => {}
            }
        }
    }

    // emit cases
    let mut n_cases = 0usize;
    let mut hist: HashMap<String, usize> = HashMap::new();
    let mut corr_hist: HashMap<String, usize> = HashMap::new();
    let mut size_hist = [0usize; 6];
    let mut n_out = 0usize;
    let mut alt_total = 0usize;
    let mut err_differs = 0usize;
    let mut st_partial = 0usize;
    let mut n_upd = 0usize;
    let mut n_cross = 0usize;
    let mut intra = [0usize; 3];
    for res in &all {
        assert_eq!(res.cached.len(), 4, "missing worker result");
        assert!(!res.inl.is_empty());
        let k = res.inl.len();
        let all_ok = res.inl.iter().all(|(_, o)| class_of(o) == 0);
        let mut alts: Vec<Vec<(usize, String)>> = vec![vec![]; k];
        for (t, cs) in &res.cached {
            let partial = cs.ends_with("!partial");
            let cs = cs.trim_end_matches("!partial");
            let last = k - 1;
            if partial {
                st_partial += 1;
                alts[last].push((*t + 1000, "Panic".into())); // partial application: never acceptable
            }
            match cs.as_bytes()[0] {
                b'O' => {
                    let v: Vec<&str> = if cs.len() == 1 { vec![] } else { cs[1..].split('\u{1}').collect() };
                    if !all_ok {
                        // the batched path accepted a chain the inline path rejects
                        alts[last].push((*t, v.get(last).map(|s| s.to_string()).unwrap_or("(Err OtherError)".into())));
                    } else {
                        for j in 0..k {
                            match v.get(j) {
                                Some(s) if *s == res.inl[j].1 => {}
                                Some(s) => alts[j].push((*t, s.to_string())),
                                None => alts[j].push((*t, "(Err OtherError)".into())),
                            }
                        }
                    }
                }
                b'E' => {
                    let e = &cs[1..];
                    let c = class_of(&res.inl[last].1);
                    if all_ok || (c == 2 && !res.kind_b) {
                        alts[last].push((*t, e.to_string()));
                    } else if e != res.inl[last].1 {
                        err_differs += 1;
                    }
                }
                _ => {
                    let c = class_of(&res.inl[last].1);
                    if all_ok || (c == 1 && !res.kind_b) {
                        alts[last].push((*t, "Panic".into()));
                    }
                }
            }
        }
        for (j, (inp, o)) in res.inl.iter().enumerate() {
            let altraw = list(alts[j].iter().map(|(t, s)| format!("({}, {})", t, s)));
            alt_total += alts[j].len();
            let line = intern(&format!("Scan {} {} {}", inp, o, altraw));
            case(line);
            n_cases += 1;
            let no = inp.matches("(O (F").count();
            n_out += no;
            size_hist[match no { 0 => 0, 1..=3 => 1, 4..=9 => 2, 10..=29 => 3, 30..=99 => 4, _ => 5 }] += 1;
            let cls = if o.starts_with("(Ok") { "ok".to_string() } else if o == "Panic" { "panic".into() } else { o[6..].split(' ').next().unwrap().trim_end_matches(')').to_string() };
            *hist.entry(cls).or_default() += 1;
        }
        for u in &res.upd {
            case(intern(u));
            n_upd += 1;
        }
        if res.intra[0] >= 1_000_000 { n_cross += 1; }
        intra[0] += res.intra[0] % 1_000_000;
        for k in 1..3 { intra[k] += res.intra[k]; }
        for c in &res.corruption {
            *corr_hist.entry(c.clone()).or_default() += 1;
        }
    }
    let mut hv: Vec<_> = hist.into_iter().collect();
    hv.sort();
    let mut cv: Vec<_> = corr_hist.into_iter().collect();
    cv.sort();
    stat(format!(
        "{{\"chains\":{},\"corpus_chains\":11,\"ordinary\":{},\"big\":{},\"malformed_multi\":{},\"cases\":{},\"update_with_cases\":{},\"chains_crossing_a_zip212_policy_boundary\":{},\"spends_of_notes_received_earlier_in_the_same_chain_sapling_orchard_ironwood\":{:?},\"outputs_total\":{},\"outputs_per_block_hist_0_3_9_29_99_more\":{:?},\"variants\":\"inline; batched(threshold 100) x rayon threads 16,1,2,7\",\"batched_disagreements\":{},\"batched_error_identity_differs\":{},\"partial_applications\":{},\"outcomes\":{{{}}},\"corruptions\":{{{}}}}}",
        total, n_ord, n_big, n_bad, n_cases, n_upd, n_cross, intra, n_out, size_hist, alt_total, err_differs, st_partial,
        hv.iter().map(|(k, v)| format!("\"{}\":{}", k, v)).collect::<Vec<_>>().join(","),
        cv.iter().map(|(k, v)| format!("\"{}\":{}", k, v)).collect::<Vec<_>>().join(",")
    ));
}
