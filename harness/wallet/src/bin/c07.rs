//! C07 harness: `zip317::FeeRule::fee_required` / `StandardFeeRule::fee_required` and
//! `ChangeStrategy::compute_balance` for `SingleOutputChangeStrategy` and
//! `MultiOutputChangeStrategy`, on generated inputs. Prints Coq `case` terms (inputs + observed
//! outcome). Only public API is used; the harness supplies its own `InputView` / `OutputView`
//! implementations so that script sizes can be chosen freely.
use std::num::{NonZeroU32, NonZeroUsize};

use vcommon::*;
use zcash_client_backend::data_api::anchor_retention::{AnchorRetentionInterval, PoolMigrationParams};
use zcash_client_backend::data_api::testing::MockWalletDb;
use zcash_client_backend::data_api::wallet::TargetHeight;
use zcash_client_backend::data_api::{AccountMeta, PoolMeta};
use zcash_client_backend::fees::zip317::{MultiOutputChangeStrategy, SingleOutputChangeStrategy};
use zcash_client_backend::fees::{
    orchard as ofees, sapling as sfees, ChangeError, ChangeStrategy, ChangeValue, DustAction, DustOutputPolicy,
    EphemeralBalance, SplitPolicy, StandardFeeRule, TransactionBalance, TransparentChangePolicy,
};
use zcash_primitives::transaction::fees::transparent::{InputSize, InputView, OutputView};
use zcash_primitives::transaction::fees::zip317::{FeeError, FeeRule as Zip317Rule};
use zcash_primitives::transaction::fees::FeeRule;
use zcash_protocol::consensus::{BlockHeight, MAIN_NETWORK, TEST_NETWORK};
use zcash_protocol::local_consensus::LocalNetwork;
use zcash_protocol::memo::MemoBytes;
use zcash_protocol::value::{BalanceError, Zatoshis};
use zcash_protocol::{PoolType, ShieldedPool};
use zcash_transparent::address::{Script, TransparentAddress};
use zcash_transparent::bundle::{OutPoint, TxOut};

const MAX_MONEY: u64 = 21_000_000 * 100_000_000;

// ---------------------------------------------------------------------------------------------
// Views
// ---------------------------------------------------------------------------------------------

#[derive(Debug, Clone)]
enum TSize {
    Known(usize),
    Unknown,
    DefaultP2pkh, // trait default on a P2PKH coin
    DefaultP2sh,  // trait default on a P2SH coin
}

#[derive(Debug)]
struct TIn {
    outpoint: OutPoint,
    coin: TxOut,
    size: TSize,
}
impl InputView for TIn {
    fn outpoint(&self) -> &OutPoint {
        &self.outpoint
    }
    fn coin(&self) -> &TxOut {
        &self.coin
    }
    fn serialized_size(&self) -> InputSize {
        match &self.size {
            TSize::Known(n) => InputSize::Known(*n),
            TSize::Unknown => InputSize::Unknown(self.outpoint.clone()),
            _ => default_size(self),
        }
    }
}
/// The trait's provided method, reached through a wrapper that does not override it.
#[derive(Debug)]
struct Plain<'a>(&'a TIn);
impl<'a> InputView for Plain<'a> {
    fn outpoint(&self) -> &OutPoint {
        &self.0.outpoint
    }
    fn coin(&self) -> &TxOut {
        &self.0.coin
    }
}
fn default_size(t: &TIn) -> InputSize {
    Plain(t).serialized_size()
}

#[derive(Debug)]
struct TOut {
    out: TxOut,
    size: Option<usize>,
}
impl OutputView for TOut {
    fn value(&self) -> Zatoshis {
        self.out.value()
    }
    fn script_pubkey(&self) -> &Script {
        self.out.script_pubkey()
    }
    fn serialized_size(&self) -> usize {
        match self.size {
            Some(n) => n,
            None => OutputView::serialized_size(&self.out),
        }
    }
}

struct Note {
    id: u32,
    value: Zatoshis,
}
impl sfees::InputView<u32> for Note {
    fn note_id(&self) -> &u32 {
        &self.id
    }
    fn value(&self) -> Zatoshis {
        self.value
    }
}
impl ofees::InputView<u32> for Note {
    fn note_id(&self) -> &u32 {
        &self.id
    }
    fn value(&self) -> Zatoshis {
        self.value
    }
}

fn p2pkh_script() -> Script {
    Script::from(TransparentAddress::PublicKeyHash([7u8; 20]).script())
}
fn p2sh_script() -> Script {
    Script::from(TransparentAddress::ScriptHash([9u8; 20]).script())
}
fn zat(v: u64) -> Zatoshis {
    Zatoshis::from_u64(v).expect("generator keeps amounts valid")
}

// ---------------------------------------------------------------------------------------------
// Abstract inputs (what is printed) and their realisation
// ---------------------------------------------------------------------------------------------

#[derive(Clone, Debug)]
struct Tx {
    t_in: Vec<(u64, TSize)>,
    t_out: Vec<(u64, Option<usize>)>,
    s_type: u8, // 0 DEFAULT, 1 bundle_required, 2 Coinbase
    s_in: Vec<u64>,
    s_out: Vec<u64>,
    o_ver: u8, // 0 insecure v1, 1 orchard v2, 2 orchard v3, 3 ironwood v3
    o_in: Vec<u64>,
    o_out: Vec<u64>,
    i_ver: u8,
    i_in: Vec<u64>,
    i_out: Vec<u64>,
}

#[derive(Clone, Debug)]
enum Strat {
    Single,
    Multi { target: usize, min_split: Option<u64>, meta: [Option<(usize, u64)>; 3] },
}
#[derive(Clone, Debug)]
enum Net {
    Main,
    Test,
    Local(Option<u32>),
}
#[derive(Clone, Debug)]
struct Cfg {
    std_rule: bool, // StandardFeeRule::Zip317 instead of zip317::FeeRule::standard()
    strat: Strat,
    dust_act: u8,
    dust_thr: Option<u64>,
    fallback: u8,
    tchange: bool,
    memo: bool,
    eph: Option<(bool, u64)>, // (is_input, value)
    net: Net,
    target_height: u32,
    anchor_height: u32,
    interval: u32,
}

fn pool_of(i: u8) -> ShieldedPool {
    match i {
        0 => ShieldedPool::Sapling,
        1 => ShieldedPool::Orchard,
        _ => ShieldedPool::Ironwood,
    }
}
fn pool_name(p: ShieldedPool) -> &'static str {
    match p {
        ShieldedPool::Sapling => "Sapling",
        ShieldedPool::Orchard => "Orchard",
        ShieldedPool::Ironwood => "Ironwood",
    }
}
fn bver(i: u8) -> orchard::bundle::BundleVersion {
    use orchard::bundle::BundleVersion as V;
    match i {
        0 => V::orchard_insecure_v1(),
        1 => V::orchard_v2(),
        2 => V::orchard_v3(),
        _ => V::ironwood_v3(),
    }
}
fn bver_name(i: u8) -> &'static str {
    match i {
        0 => "OrchardInsecureV1",
        1 => "OrchardV2",
        2 => "OrchardV3",
        _ => "IronwoodV3",
    }
}
fn sbt(i: u8) -> sapling::builder::BundleType {
    match i {
        0 => sapling::builder::BundleType::DEFAULT,
        1 => sapling::builder::BundleType::Transactional { bundle_required: true },
        _ => sapling::builder::BundleType::Coinbase,
    }
}
fn sbt_name(i: u8) -> &'static str {
    match i {
        0 => "(STx false)",
        1 => "(STx true)",
        _ => "SCoinbase",
    }
}

fn zl(v: &[u64]) -> String {
    list(v.iter().map(|x| zu(*x as u128)))
}
fn tsize_str(s: &TSize, id: usize) -> String {
    match s {
        TSize::Known(n) => format!("Known {}", n),
        TSize::Unknown | TSize::DefaultP2sh => format!("Unknown {}", id),
        TSize::DefaultP2pkh => "Known 150".into(),
    }
}
fn tx_str(t: &Tx) -> String {
    format!(
        "(Build_txin {} {} {} {} {} {} {} {} {} {} {})",
        list(t.t_in.iter().enumerate().map(|(i, (v, s))| pair(zu(*v as u128), tsize_str(s, i)))),
        list(t.t_out.iter().map(|(v, s)| pair(zu(*v as u128), zu(s.unwrap_or(34) as u128)))),
        sbt_name(t.s_type),
        zl(&t.s_in),
        zl(&t.s_out),
        bver_name(t.o_ver),
        zl(&t.o_in),
        zl(&t.o_out),
        bver_name(t.i_ver),
        zl(&t.i_in),
        zl(&t.i_out)
    )
}
fn optz(o: Option<u64>) -> String {
    opt(o.map(|v| zu(v as u128)))
}
fn cfg_str(c: &Cfg) -> String {
    let strat = match &c.strat {
        Strat::Single => "Single".to_string(),
        Strat::Multi { target, min_split, meta } => format!(
            "(Multi {} {} {})",
            target,
            optz(*min_split),
            list(meta.iter().map(|m| opt(m.map(|(n, v)| pair(zu(n as u128), zu(v as u128))))))
        ),
    };
    let act = ["Reject", "AllowDustChange", "AddDustToFee"][c.dust_act as usize];
    let eph = opt(c.eph.map(|(i, v)| format!("({} {})", if i { "EphIn" } else { "EphOut" }, v)));
    let net = match &c.net {
        Net::Main => "MainNet".to_string(),
        Net::Test => "TestNet".to_string(),
        Net::Local(h) => format!("(LocalNet {})", opt(h.map(|x| zu(x as u128)))),
    };
    format!(
        "(Build_config standard_rule {} {} {} {} {} {} {} {} {} {} {})",
        strat,
        act,
        optz(c.dust_thr),
        pool_name(pool_of(c.fallback)),
        boolc(c.tchange),
        boolc(c.memo),
        eph,
        net,
        c.target_height,
        c.anchor_height,
        c.interval
    )
}

fn berr(e: &BalanceError) -> &'static str {
    match e {
        BalanceError::Overflow => "A.Overflow",
        BalanceError::Underflow => "A.Underflow",
    }
}

fn cv_str(c: &ChangeValue) -> String {
    let v = u64::from(c.value());
    match c.output_pool() {
        PoolType::Shielded(p) => format!("CShielded {} {} {}", pool_name(p), v, boolc(c.memo().is_some())),
        PoolType::Transparent => {
            if c.is_ephemeral() {
                format!("CEphemeral {}", v)
            } else {
                format!("CTransparent {}", v)
            }
        }
    }
}

fn outcome_str(r: Option<Result<TransactionBalance, ChangeError<FeeError, u32>>>) -> (String, &'static str) {
    match r {
        None => (PANIC.into(), "panic"),
        Some(Ok(b)) => {
            let d = b.dummy_outputs();
            let ds = match d {
                Some(d) => format!("({}, {}, {})", d.sapling(), d.orchard(), d.ironwood()),
                None => "((-1), (-1), (-1))".to_string(),
            };
            (
                ok(format!(
                    "(Build_balance {} {} {} {})",
                    list(b.proposed_change().iter().map(cv_str)),
                    u64::from(b.fee_required()),
                    u64::from(b.total()),
                    ds
                )),
                "ok",
            )
        }
        Some(Err(e)) => match e {
            ChangeError::InsufficientFunds { available, required } => (
                err(&format!("(InsufficientFunds {} {})", u64::from(available), u64::from(required))),
                "insufficient",
            ),
            ChangeError::DustInputs { transparent, sapling, orchard, ironwood } => {
                let mut t: Vec<u64> = transparent.iter().map(|o| o.n() as u64).collect();
                let mut s: Vec<u64> = sapling.iter().map(|x| *x as u64).collect();
                let mut o: Vec<u64> = orchard.iter().map(|x| *x as u64).collect();
                let mut i: Vec<u64> = ironwood.iter().map(|x| *x as u64).collect();
                t.sort();
                s.sort();
                o.sort();
                i.sort();
                (err(&format!("(DustInputs {} {} {} {})", zl(&t), zl(&s), zl(&o), zl(&i))), "dust")
            }
            ChangeError::StrategyError(FeeError::Balance(b)) => (err(&format!("(StrategyBalance {})", berr(&b))), "balance"),
            ChangeError::StrategyError(FeeError::UnknownP2shInputs(v)) => {
                let ids: Vec<u64> = v.iter().map(|o| o.n() as u64).collect();
                (err(&format!("(StrategyP2sh {})", zl(&ids))), "p2sh")
            }
            ChangeError::BundleError(_) => (err("BundleError"), "bundle"),
            _ => (err("BundleError"), "other"),
        },
    }
}

fn run_with<P: zcash_protocol::consensus::Parameters>(params: &P, t: &Tx, c: &Cfg) -> Option<Result<TransactionBalance, ChangeError<FeeError, u32>>> {
    let tins: Vec<TIn> = t
        .t_in
        .iter()
        .enumerate()
        .map(|(i, (v, s))| TIn {
            outpoint: OutPoint::new([i as u8; 32], i as u32),
            coin: TxOut::new(zat(*v), if matches!(s, TSize::DefaultP2sh) { p2sh_script() } else { p2pkh_script() }),
            size: s.clone(),
        })
        .collect();
    let touts: Vec<TOut> = t.t_out.iter().map(|(v, s)| TOut { out: TxOut::new(zat(*v), p2pkh_script()), size: *s }).collect();
    let notes = |v: &Vec<u64>| -> Vec<Note> { v.iter().enumerate().map(|(i, x)| Note { id: i as u32, value: zat(*x) }).collect() };
    let outs = |v: &Vec<u64>| -> Vec<Zatoshis> { v.iter().map(|x| zat(*x)).collect() };
    let (si, so, oi, oo, ii, io) = (notes(&t.s_in), outs(&t.s_out), notes(&t.o_in), outs(&t.o_out), notes(&t.i_in), outs(&t.i_out));
    let sview = (sbt(t.s_type), &si[..], &so[..]);
    let oview = (bver(t.o_ver), &oi[..], &oo[..]);
    let iview = (bver(t.i_ver), &ii[..], &io[..]);
    let memo = if c.memo { Some(MemoBytes::from_bytes(b"change").unwrap()) } else { None };
    let dust = DustOutputPolicy::new(
        [DustAction::Reject, DustAction::AllowDustChange, DustAction::AddDustToFee][c.dust_act as usize],
        c.dust_thr.map(zat),
    );
    let tpol = if c.tchange { TransparentChangePolicy::TransparentChangeAllowed } else { TransparentChangePolicy::ShieldChange };
    let eph = c.eph.map(|(i, v)| if i { EphemeralBalance::Input(zat(v)) } else { EphemeralBalance::Output(zat(v)) });
    let zip318 = PoolMigrationParams::new(AnchorRetentionInterval::custom(NonZeroU32::new(c.interval).unwrap()));
    let th = TargetHeight::from(c.target_height);
    let ah = BlockHeight::from_u32(c.anchor_height);
    // `E` is the fee rule's error type in both cases: zip317::FeeError.
    macro_rules! go {
        ($rule:expr) => {
            match &c.strat {
                Strat::Single => {
                    let s = SingleOutputChangeStrategy::<_, MockWalletDb>::new($rule, memo.clone(), pool_of(c.fallback), dust)
                        .with_transparent_change_policy(tpol);
                    catch(|| s.compute_balance(params, th, ah, &zip318, &tins[..], &touts[..], &sview, &oview, &iview, eph, &()))
                }
                Strat::Multi { target, min_split, meta } => {
                    let sp = match min_split {
                        Some(m) => SplitPolicy::with_min_output_value(NonZeroUsize::new(*target).unwrap(), zat(*m)),
                        None => {
                            // the only public constructor without a minimum is single_output()
                            SplitPolicy::single_output()
                        }
                    };
                    let s = MultiOutputChangeStrategy::<_, MockWalletDb>::new($rule, memo.clone(), pool_of(c.fallback), dust, sp)
                        .with_transparent_change_policy(tpol);
                    let pm = |m: Option<(usize, u64)>| m.map(|(n, v)| PoolMeta::new(n, zat(v)));
                    let am = AccountMeta::new(pm(meta[0]), pm(meta[1]), pm(meta[2]));
                    catch(|| s.compute_balance(params, th, ah, &zip318, &tins[..], &touts[..], &sview, &oview, &iview, eph, &am))
                }
            }
        };
    }
    if c.std_rule {
        go!(StandardFeeRule::Zip317)
    } else {
        go!(Zip317Rule::standard())
    }
}

fn run(t: &Tx, c: &Cfg) -> Option<Result<TransactionBalance, ChangeError<FeeError, u32>>> {
    match &c.net {
        Net::Main => run_with(&MAIN_NETWORK, t, c),
        Net::Test => run_with(&TEST_NETWORK, t, c),
        Net::Local(h) => {
            let b = |x: u32| Some(BlockHeight::from_u32(x));
            let ln = LocalNetwork {
                overwinter: b(1),
                sapling: b(1),
                blossom: b(1),
                heartwood: b(1),
                canopy: b(1),
                nu5: b(1),
                nu6: b(1),
                nu6_1: b(1),
                nu6_2: b(1),
                nu6_3: h.map(BlockHeight::from_u32),
            };
            run_with(&ln, t, c)
        }
    }
}

// ---------------------------------------------------------------------------------------------
// Output + statistics
// ---------------------------------------------------------------------------------------------

#[derive(Default)]
struct Out {
    n: usize,
    classes: std::collections::BTreeMap<&'static str, usize>,
    max_inputs: usize,
    multi: usize,
    eph: usize,
    nu_active_hint: usize,
}
impl Out {
    fn bal(&mut self, t: &Tx, c: &Cfg) {
        // the only constructor of a SplitPolicy without a minimum value is single_output(): target 1
        let mut c = c.clone();
        if let Strat::Multi { target, min_split: None, .. } = &mut c.strat {
            *target = 1;
        }
        let (o, cls) = outcome_str(run(t, &c));
        *self.classes.entry(cls).or_default() += 1;
        self.max_inputs = self.max_inputs.max(t.t_in.len() + t.s_in.len() + t.o_in.len() + t.i_in.len());
        if matches!(c.strat, Strat::Multi { .. }) {
            self.multi += 1;
        }
        if c.eph.is_some() {
            self.eph += 1;
        }
        self.n += 1;
        case(format!("Bal {} {} {}", tx_str(t), cfg_str(&c), o));
    }
    fn fee(&mut self, std: bool, tins: &[(bool, u64)], touts: &[u64], counts: [u64; 4]) {
        let sizes: Vec<InputSize> = tins
            .iter()
            .enumerate()
            .map(|(i, (k, s))| if *k { InputSize::Known(*s as usize) } else { InputSize::Unknown(OutPoint::new([0u8; 32], i as u32)) })
            .collect();
        let outs: Vec<usize> = touts.iter().map(|x| *x as usize).collect();
        let h = BlockHeight::from_u32(2_000_000);
        let r = catch(|| {
            if std {
                StandardFeeRule::Zip317.fee_required(&MAIN_NETWORK, h, sizes.clone(), outs.clone(), counts[0] as usize, counts[1] as usize, counts[2] as usize, counts[3] as usize)
            } else {
                Zip317Rule::standard().fee_required(&MAIN_NETWORK, h, sizes.clone(), outs.clone(), counts[0] as usize, counts[1] as usize, counts[2] as usize, counts[3] as usize)
            }
        });
        let o = match r {
            None => PANIC.to_string(),
            Some(Ok(f)) => ok(zu(u64::from(f) as u128)),
            Some(Err(FeeError::Balance(b))) => err(&format!("(FeeBalance {})", berr(&b))),
            Some(Err(FeeError::UnknownP2shInputs(v))) => {
                let ids: Vec<u64> = v.iter().map(|o| o.n() as u64).collect();
                err(&format!("(UnknownP2sh {})", zl(&ids)))
            }
        };
        *self.classes.entry("fee").or_default() += 1;
        self.n += 1;
        case(format!(
            "FeeReq {} {} {} {} {} {} {} {}",
            boolc(std),
            list(tins.iter().enumerate().map(|(i, (k, s))| if *k { format!("Known {}", s) } else { format!("Unknown {}", i) })),
            zl(touts),
            counts[0],
            counts[1],
            counts[2],
            counts[3],
            o
        ));
    }
}

// ---------------------------------------------------------------------------------------------
// Generators
// ---------------------------------------------------------------------------------------------

const VALS: &[u64] = &[
    0, 1, 2, 4_999, 5_000, 5_001, 9_999, 10_000, 10_001, 14_999, 15_000, 15_001, 20_000, 25_000, 30_000, 50_000, 60_000, 100_000,
    499_999, 500_000, 1_000_000, 2_000_000, 5_000_000, 3_000_000, 10_000_000, 100_000_000, 123_456_789, 1_000_000_000_000,
];
const BIG: &[u64] = &[MAX_MONEY, MAX_MONEY - 1, MAX_MONEY / 2, MAX_MONEY / 2 + 1, MAX_MONEY / 3, 2_000_000_000_000_000];

fn val(r: &mut Rng) -> u64 {
    match r.below(12) {
        0..=5 => *r.pick(VALS),
        6 => r.pick(VALS).wrapping_add(r.below(3)).saturating_sub(1),
        7 => r.below(20_000),
        8 => r.below(2_000_000),
        9 => r.below(10_000_000_000),
        10 => 5_000 * r.below(12) + r.below(3),
        _ => {
            if r.chance(1, 6) {
                *r.pick(BIG)
            } else {
                r.below(1_000_000)
            }
        }
    }
}
fn small_len(r: &mut Rng) -> usize {
    match r.below(16) {
        0..=6 => 0,
        7..=10 => 1,
        11..=12 => 2,
        13 => 3,
        14 => r.range(2, 5) as usize,
        _ => r.range(0, 9) as usize,
    }
}
fn tsize(r: &mut Rng) -> TSize {
    match r.below(20) {
        0..=8 => TSize::DefaultP2pkh,
        9..=11 => TSize::Known(150),
        12 => TSize::Known(*r.pick(&[0usize, 1, 149, 151, 299, 300, 301, 10_049, 450])),
        13 => TSize::Known(r.below(700) as usize),
        14 => TSize::Known(148 + r.below(5) as usize),
        15 => TSize::Unknown,
        16 => TSize::DefaultP2sh,
        _ => TSize::Known(150),
    }
}
fn tout_size(r: &mut Rng) -> Option<usize> {
    match r.below(12) {
        0..=7 => None,
        8 => Some(34),
        9 => Some(*r.pick(&[0usize, 1, 33, 35, 67, 68, 69, 32, 43, 102, 103])),
        _ => Some(r.below(200) as usize),
    }
}

fn gen_cfg(r: &mut Rng) -> Cfg {
    let strat = if r.chance(2, 5) {
        Strat::Single
    } else {
        let target = match r.below(10) {
            0..=1 => 1,
            2..=7 => r.range(2, 8) as usize,
            8 => r.range(9, 20) as usize,
            _ => 4,
        };
        let min_split = match r.below(10) {
            0 => None,
            1 => Some(0),
            2 => Some(1),
            3 => Some(10_000),
            4 => Some(100_000),
            5 => Some(1_000_000),
            6 => Some(500_000),
            7 => Some(5_000),
            _ => Some(val(r)),
        };
        let mut meta = [None, None, None];
        for m in meta.iter_mut() {
            if r.chance(3, 5) {
                let n = match r.below(8) {
                    0..=3 => r.below(4) as usize,
                    4..=5 => r.below(10) as usize,
                    6 => 0,
                    _ => r.below(30) as usize,
                };
                *m = Some((n, val(r)));
            }
        }
        Strat::Multi { target, min_split, meta }
    };
    let net = match r.below(8) {
        0 => Net::Main,
        1 => Net::Test,
        2 => Net::Local(None),
        _ => Net::Local(Some(*r.pick(&[1u32, 100, 1000, 2_000_000]))),
    };
    let act_h: Option<u32> = match &net {
        Net::Main => Some(3_428_143),
        Net::Test => Some(4_134_000),
        Net::Local(h) => *h,
    };
    let target_height = match (act_h, r.below(6)) {
        (Some(h), 0) => h.saturating_sub(1),
        (Some(h), 1) => h,
        (Some(h), 2) => h + 1,
        (Some(h), 3) => h + r.below(100_000) as u32,
        (Some(h), 4) => h.saturating_sub(r.below(1000) as u32 + 1),
        _ => r.below(5_000_000) as u32 + 1,
    };
    let interval = match r.below(8) {
        0 => 1,
        1 => 10,
        2 => 7,
        _ => 144,
    };
    let anchor_height = match r.below(4) {
        0 => interval * (r.below(20_000) as u32),
        1 => interval * (r.below(20_000) as u32) + 1,
        2 => (interval * (r.below(20_000) as u32 + 1)) - 1,
        _ => r.below(3_000_000) as u32,
    };
    Cfg {
        std_rule: r.bool(),
        strat,
        dust_act: r.below(3) as u8,
        dust_thr: match r.below(10) {
            0..=3 => None,
            4 => Some(0),
            5 => Some(1),
            6 => Some(5_000),
            7 => Some(10_000),
            8 => Some(*r.pick(&[100_000u64, 200_000, 105_000, 99_999, 110_001])),
            _ => Some(val(r)),
        },
        fallback: r.below(3) as u8,
        tchange: r.chance(1, 3),
        memo: r.chance(1, 4),
        eph: match r.below(12) {
            0 => Some((true, val(r))),
            1 => Some((false, val(r))),
            2 => Some((r.bool(), *r.pick(&[0u64, 1, 5_000, 10_000, 100_000]))),
            _ => None,
        },
        net,
        target_height,
        anchor_height,
        interval,
    }
}

fn gen_tx(r: &mut Rng, nu_hint: bool) -> Tx {
    // which pools take part
    let mask = match r.below(10) {
        0 => 0b0001,
        1 => 0b0010,
        2 => 0b0100,
        3 => 0b1000,
        4 => 0b0110,
        5 => 0b1100,
        6 => 0b0101,
        _ => r.below(16) as u8,
    };
    let vals = |r: &mut Rng, on: bool| -> Vec<u64> {
        if !on {
            return vec![];
        }
        (0..small_len(r)).map(|_| val(r)).collect()
    };
    let t_in: Vec<(u64, TSize)> = if mask & 1 != 0 { (0..small_len(r)).map(|_| (val(r), tsize(r))).collect() } else { vec![] };
    let t_out: Vec<(u64, Option<usize>)> = if mask & 1 != 0 || r.chance(1, 6) { (0..small_len(r)).map(|_| (val(r), tout_size(r))).collect() } else { vec![] };
    let (o_ver, i_ver) = if r.chance(3, 4) { (if nu_hint { 2 } else { 1 }, 3) } else { (r.below(4) as u8, r.below(4) as u8) };
    Tx {
        t_in,
        t_out,
        s_type: match r.below(20) {
            0 => 1,
            1 => 2,
            _ => 0,
        },
        s_in: vals(r, mask & 2 != 0),
        s_out: { let b = mask & 2 != 0 || r.chance(1, 8); vals(r, b) },
        o_ver,
        o_in: vals(r, mask & 4 != 0),
        o_out: { let b = mask & 4 != 0 && r.chance(2, 3); vals(r, b) },
        i_ver,
        i_in: vals(r, mask & 8 != 0),
        i_out: { let b = mask & 8 != 0 || r.chance(1, 8); vals(r, b) },
    }
}

fn sum(v: &[u64]) -> u128 {
    v.iter().map(|x| *x as u128).sum()
}
fn tot_in(t: &Tx, c: &Cfg) -> u128 {
    t.t_in.iter().map(|x| x.0 as u128).sum::<u128>() + sum(&t.s_in) + sum(&t.o_in) + sum(&t.i_in) + c.eph.filter(|e| e.0).map_or(0, |e| e.1 as u128)
}
fn tot_out(t: &Tx, c: &Cfg) -> u128 {
    t.t_out.iter().map(|x| x.0 as u128).sum::<u128>() + sum(&t.s_out) + sum(&t.o_out) + sum(&t.i_out) + c.eph.filter(|e| !e.0).map_or(0, |e| e.1 as u128)
}

/// Adjust one input so that total_in = total_out + k * 5000 + delta for a small k: this is what
/// reaches the fee-boundary branches (exact balance, dust change, recomputed fee).
fn tune(r: &mut Rng, t: &mut Tx, c: &Cfg) {
    let out = tot_out(t, c);
    let k = r.range(2, 9) as u128;
    let delta: i128 = match r.below(12) {
        0 => 0,
        1 => -1,
        2 => 1,
        3 => 4_999,
        4 => 5_000,
        5 => 5_001,
        6 => r.below(5_000) as i128,
        7 => r.below(200_000) as i128,
        8 => r.below(10_000_000) as i128,
        9 => 10_000,
        10 => 100_000 + r.below(3) as i128 - 1,
        _ => -(r.below(20_000) as i128),
    };
    let want = (out as i128 + (k * 5_000) as i128 + delta).max(0) as u128;
    // choose a slot
    let mut slots: Vec<(u8, usize)> = vec![];
    for i in 0..t.t_in.len() {
        slots.push((0, i));
    }
    for i in 0..t.s_in.len() {
        slots.push((1, i));
    }
    for i in 0..t.o_in.len() {
        slots.push((2, i));
    }
    for i in 0..t.i_in.len() {
        slots.push((3, i));
    }
    if slots.is_empty() {
        match r.below(4) {
            0 => t.t_in.push((0, TSize::DefaultP2pkh)),
            1 => t.s_in.push(0),
            2 => t.o_in.push(0),
            _ => t.i_in.push(0),
        }
        return tune(r, t, c);
    }
    let (p, i) = *r.pick(&slots);
    let cur = match p {
        0 => t.t_in[i].0,
        1 => t.s_in[i],
        2 => t.o_in[i],
        _ => t.i_in[i],
    } as u128;
    let others = tot_in(t, c) - cur;
    if want < others {
        return;
    }
    let v = (want - others).min(MAX_MONEY as u128) as u64;
    match p {
        0 => t.t_in[i].0 = v,
        1 => t.s_in[i] = v,
        2 => t.o_in[i] = v,
        _ => t.i_in[i] = v,
    }
}

fn base_cfg() -> Cfg {
    Cfg {
        std_rule: false,
        strat: Strat::Single,
        dust_act: 0,
        dust_thr: None,
        fallback: 0,
        tchange: false,
        memo: false,
        eph: None,
        net: Net::Local(Some(1000)),
        target_height: 500,
        anchor_height: 144,
        interval: 144,
    }
}
fn empty_tx() -> Tx {
    Tx { t_in: vec![], t_out: vec![], s_type: 0, s_in: vec![], s_out: vec![], o_ver: 1, o_in: vec![], o_out: vec![], i_ver: 3, i_in: vec![], i_out: vec![] }
}

/// Fixed corpus: the shapes called out in the design notes and the unit tests of the crate.
fn corpus(o: &mut Out) {
    // design note (i): transparent change costed but omitted
    let mut t = empty_tx();
    t.t_in = vec![(50_000, TSize::DefaultP2pkh), (50_000, TSize::DefaultP2pkh)];
    t.t_out = vec![(40_000, None), (45_000, None)];
    let mut c = base_cfg();
    c.tchange = true;
    o.bal(&t, &c);
    for d in [14_999u64, 15_000, 15_001, 10_000, 9_999, 10_001, 20_000] {
        t.t_in[1].0 = 35_000 + d;
        o.bal(&t, &c);
    }
    // unit-test shapes
    let mut t = empty_tx();
    t.s_in = vec![55_000];
    t.s_out = vec![40_000];
    o.bal(&t, &base_cfg());
    let mut t = empty_tx();
    t.s_in = vec![7_500_000];
    t.s_out = vec![1_000_000];
    for (n, v) in [(0usize, 0u64), (2, 1_000_000), (5, 9_000_000)] {
        let mut c = base_cfg();
        c.strat = Strat::Multi { target: 5, min_split: Some(1_000_000), meta: [Some((n, v)), None, None] };
        o.bal(&t, &c);
    }
    // meta totals whose sum exceeds MAX_MONEY (the documented expect in AccountMeta::total_value)
    let mut c = base_cfg();
    c.strat = Strat::Multi { target: 3, min_split: Some(10_000), meta: [Some((0, MAX_MONEY)), Some((0, 1)), None] };
    o.bal(&t, &c);
    // Reject policy, split minimum below the dust threshold: five 3000-zat outputs (finding C07-split-dust)
    let mut t = empty_tx();
    t.s_in = vec![40_000];
    let mut c = base_cfg();
    c.strat = Strat::Multi { target: 5, min_split: Some(1), meta: [Some((0, 1_000_000)), None, None] };
    o.bal(&t, &c);
    // canonical-crossing shape that also carries an ephemeral transparent output
    for extra in [0u64, 10_000, 5_000, 4_999] {
        for th in [999u32, 1000] {
            let mut t = empty_tx();
            t.o_ver = if th >= 1000 { 2 } else { 1 };
            t.o_in = vec![1_000_000 + 50_000 + 20_000 + extra];
            t.i_out = vec![1_000_000];
            let mut c = base_cfg();
            c.target_height = th;
            c.anchor_height = 288;
            c.eph = Some((false, 50_000));
            o.bal(&t, &c);
            c.dust_act = 2;
            o.bal(&t, &c);
        }
    }
    // canonical crossings
    for (denom, on_grid, extra) in [(1_000_000u64, true, 0u64), (1_000_000, false, 0), (2_000_000, true, 1), (3_000_000, true, 0), (5_000_000, true, 5_000), (500_000, true, 0), (1_000_000_000_000, true, 0), (2_000_000_000_000, true, 0)] {
        for th in [999u32, 1000] {
            let mut t = empty_tx();
            t.o_ver = if th >= 1000 { 2 } else { 1 };
            t.o_in = vec![denom + 15_000 + extra];
            t.i_out = vec![denom];
            let mut c = base_cfg();
            c.target_height = th;
            c.anchor_height = if on_grid { 288 } else { 289 };
            o.bal(&t, &c);
            c.dust_act = 2;
            o.bal(&t, &c);
            t.o_in = vec![denom + 20_000 + extra];
            o.bal(&t, &c);
        }
    }
}

/// Exhaustive boundary lattice: one funding pool, one paying pool, input = output + fee-ish + d.
fn lattice(o: &mut Out, thorough: bool) {
    let ds: &[i64] = &[-1, 0, 1, 4_999, 5_000, 5_001, 9_999, 10_000, 100_000];
    let fees: &[u64] = if thorough { &[10_000, 15_000, 20_000, 25_000] } else { &[10_000, 15_000, 20_000] };
    for fund in 0..4u8 {
        for pay in 0..4u8 {
            for &f in fees {
                for &d in ds {
                    for act in 0..3u8 {
                        for variant in 0..(if thorough { 8 } else { 4 }) {
                            let out_v = 100_000u64;
                            let inp = (out_v as i64 + f as i64 + d) as u64;
                            let mut t = empty_tx();
                            match fund {
                                0 => t.t_in = vec![(inp, TSize::DefaultP2pkh)],
                                1 => t.s_in = vec![inp],
                                2 => t.o_in = vec![inp],
                                _ => t.i_in = vec![inp],
                            }
                            match pay {
                                0 => t.t_out = vec![(out_v, None)],
                                1 => t.s_out = vec![out_v],
                                2 => t.o_out = vec![out_v],
                                _ => t.i_out = vec![out_v],
                            }
                            let mut c = base_cfg();
                            c.dust_act = act;
                            c.memo = variant & 1 == 1;
                            c.target_height = if variant & 2 != 0 { 1000 } else { 999 };
                            t.o_ver = if variant & 2 != 0 { 2 } else { 1 };
                            c.tchange = variant & 4 != 0;
                            if variant & 4 != 0 {
                                c.strat = Strat::Multi { target: 3, min_split: Some(2_000), meta: [Some((1, 50_000)), None, None] };
                            }
                            c.fallback = (fund + pay) % 3;
                            o.bal(&t, &c);
                        }
                    }
                }
            }
        }
    }
}

fn random_bal(o: &mut Out, r: &mut Rng, n: usize) {
    for _ in 0..n {
        let c = gen_cfg(r);
        let nu = match (&c.net, c.target_height) {
            (Net::Main, h) => h >= 3_428_143,
            (Net::Test, h) => h >= 4_134_000,
            (Net::Local(Some(a)), h) => h >= *a,
            _ => false,
        };
        let mut t = gen_tx(r, nu);
        if nu {
            o.nu_active_hint += 1;
        }
        if r.chance(3, 4) {
            tune(r, &mut t, &c);
        }
        o.bal(&t, &c);
    }
}

/// Canonical-crossing neighbourhood: one Orchard note, one Ironwood output at or near a denomination.
fn crossing_bal(o: &mut Out, r: &mut Rng, n: usize) {
    let denoms = [1_000_000u64, 2_000_000, 5_000_000, 10_000_000, 100_000_000, 500_000, 3_000_000, 1_000_001, 999_999, 1_000_000_000_000, 2_000_000_000_000];
    for _ in 0..n {
        let mut c = gen_cfg(r);
        c.eph = None;
        if r.chance(3, 4) {
            c.net = Net::Local(Some(1000));
            c.target_height = if r.chance(4, 5) { 1000 + r.below(10) as u32 } else { 999 };
        }
        if r.chance(2, 3) {
            c.anchor_height = c.interval * (1 + r.below(50) as u32);
        }
        let d = *r.pick(&denoms);
        let mut t = empty_tx();
        t.o_ver = if r.chance(4, 5) { 2 } else { r.below(4) as u8 };
        t.i_ver = 3;
        t.o_in = vec![0];
        if r.chance(1, 6) {
            t.o_in.push(val(r));
        }
        t.i_out = vec![d];
        if r.chance(1, 8) {
            t.i_out.push(val(r));
        }
        if r.chance(1, 10) {
            t.i_in.push(val(r));
        }
        if r.chance(1, 10) {
            t.s_out.push(val(r));
        }
        tune(r, &mut t, &c);
        o.bal(&t, &c);
    }
}

/// Dust-input neighbourhood: several inputs at or below the marginal fee.
fn dust_bal(o: &mut Out, r: &mut Rng, n: usize) {
    for _ in 0..n {
        let c = gen_cfg(r);
        let mut t = gen_tx(r, false);
        let dusty = |r: &mut Rng| *r.pick(&[0u64, 1, 4_999, 5_000, 5_001, 2_500]);
        for _ in 0..r.range(1, 4) {
            match r.below(4) {
                0 => t.t_in.push((dusty(r), TSize::DefaultP2pkh)),
                1 => t.s_in.push(dusty(r)),
                2 => t.o_in.push(dusty(r)),
                _ => t.i_in.push(dusty(r)),
            }
        }
        if r.chance(1, 2) {
            // a real funding input somewhere
            match r.below(4) {
                0 => t.t_in.insert(0, (0, TSize::DefaultP2pkh)),
                1 => t.s_in.insert(0, 0),
                2 => t.o_in.insert(0, 0),
                _ => t.i_in.insert(0, 0),
            }
            tune(r, &mut t, &c);
        }
        o.bal(&t, &c);
    }
}

/// Sums beyond MAX_MONEY, unknown sizes, coinbase Sapling type: the error paths.
fn malformed_bal(o: &mut Out, r: &mut Rng, n: usize) {
    for _ in 0..n {
        let mut c = gen_cfg(r);
        let nu = r.bool();
        let mut t = gen_tx(r, nu);
        match r.below(6) {
            0 => {
                t.s_in.push(*r.pick(BIG));
                t.o_in.push(*r.pick(BIG));
            }
            1 => {
                t.t_out.push((*r.pick(BIG), None));
                t.i_out.push(*r.pick(BIG));
            }
            2 => {
                t.t_in.push((val(r), TSize::Unknown));
                t.t_in.push((val(r), TSize::DefaultP2sh));
            }
            3 => {
                t.s_type = 2;
                if r.bool() {
                    t.s_in.push(val(r));
                }
            }
            4 => {
                c.eph = Some((r.bool(), *r.pick(BIG)));
            }
            _ => {
                if let Strat::Multi { meta, .. } = &mut c.strat {
                    meta[0] = Some((r.below(3) as usize, *r.pick(BIG)));
                    meta[1] = Some((r.below(3) as usize, *r.pick(BIG)));
                }
                t.s_in.push(10_000_000);
            }
        }
        o.bal(&t, &c);
    }
}

fn fee_cases(o: &mut Out, r: &mut Rng, n: usize) {
    // exhaustive small lattice
    let sizes = [0u64, 1, 149, 150, 151, 300, 301];
    let outs = [0u64, 1, 33, 34, 35, 68, 69];
    for &a in &sizes {
        for &b in &outs {
            for s in [[0u64, 0, 0, 0], [1, 0, 0, 0], [0, 2, 0, 0], [1, 2, 0, 0], [0, 0, 2, 0], [0, 0, 0, 1], [0, 0, 2, 1], [3, 1, 2, 2]] {
                o.fee(a % 2 == 0, &[(true, a)], &[b], s);
            }
        }
    }
    o.fee(false, &[], &[], [0, 0, 0, 0]);
    o.fee(true, &[(false, 0)], &[], [0, 0, 0, 0]);
    o.fee(true, &[(true, 150), (false, 0), (true, 1), (false, 0)], &[34], [0, 0, 0, 0]);
    // amount overflow: marginal * actions > MAX_MONEY
    o.fee(false, &[], &[], [0, 0, 420_000_000_001, 0]);
    o.fee(false, &[], &[], [0, 0, 420_000_000_000, 0]);
    o.fee(true, &[], &[], [0, 420_000_000_000, 0, 1]);
    o.fee(true, &[], &[], [1u64 << 62, 0, 1 << 62, 0]);
    // usize overflow in the action count: with overflow checks (the debug profile, whose semantics
    // the model has) this is an arithmetic-overflow panic; the release profile wraps, which is
    // outside the model's domain, so these five inputs are only run with checks on.
    if cfg!(debug_assertions) {
        o.fee(false, &[(true, u64::MAX), (true, 1)], &[], [0, 0, 0, 0]);
        o.fee(false, &[], &[u64::MAX, 1], [0, 0, 0, 0]);
        o.fee(false, &[], &[], [u64::MAX, 0, 1, 0]);
        o.fee(false, &[], &[], [0, 0, u64::MAX, 1]);
        o.fee(true, &[(true, u64::MAX)], &[u64::MAX], [0, 0, 0, 0]);
    }
    // just inside usize: no overflow in either profile
    o.fee(false, &[(true, u64::MAX - 1), (true, 1)], &[], [0, 0, 0, 0]);
    o.fee(true, &[], &[u64::MAX], [0, 0, 0, 0]);
    for _ in 0..n {
        let nin = small_len(r);
        let nout = small_len(r);
        let tins: Vec<(bool, u64)> = (0..nin).map(|_| (r.chance(9, 10), if r.chance(1, 2) { 150 } else { r.below(800) })).collect();
        let touts: Vec<u64> = (0..nout).map(|_| if r.chance(1, 2) { 34 } else { r.below(200) }).collect();
        let cnt = |r: &mut Rng| match r.below(10) {
            0..=5 => r.below(5),
            6..=7 => r.below(40),
            8 => r.below(1_000_000),
            _ => r.below(1u64 << 40),
        };
        let counts = [cnt(r), cnt(r), cnt(r), cnt(r)];
        o.fee(r.bool(), &tins, &touts, counts);
    }
}

fn main() {
    let a = args();
    quiet_panics();
    let mut o = Out::default();
    let mut r = Rng::new(a.seed, 7);
    let thorough = a.thorough() || a.search;
    corpus(&mut o);
    fee_cases(&mut o, &mut r, a.budget(600, 10_000));
    lattice(&mut o, thorough);
    random_bal(&mut o, &mut r, a.budget(7_000, 200_000));
    crossing_bal(&mut o, &mut r, a.budget(1_200, 30_000));
    dust_bal(&mut o, &mut r, a.budget(1_500, 40_000));
    malformed_bal(&mut o, &mut r, a.budget(500, 10_000));
    let classes: Vec<String> = o.classes.iter().map(|(k, v)| format!("\"{}\": {}", k, v)).collect();
    stat(format!(
        "{{\"cases\": {}, \"outcome_classes\": {{{}}}, \"max_inputs\": {}, \"multi_strategy\": {}, \"ephemeral\": {}, \"nu6_3_active\": {}}}",
        o.n,
        classes.join(", "),
        o.max_inputs,
        o.multi,
        o.eph,
        o.nu_active_hint
    ));
}
