//! C19 header-level harness: `zcash_primitives::block::BlockHeader::read` on the mainnet-415000
//! header (and truncated / bit-flipped / extended variants) delivered through readers that return
//! at most `frag` bytes per `read` call; reports the parsed (Equihash input, nonce, solution) or the
//! error, and for the genuine header one `is_valid_solution(200, 9, ..)` case with its digest table.
use blake2b_simd::Params as B2Params;
use std::collections::BTreeMap;
use std::io::{self, Read};
use vcommon::*;
use zcash_primitives::block::{equihash, BlockHeader};

const BLOCK_MAINNET_415000: [u8; 1640] = [4, 0, 0, 0, 82, 116, 180, 59, 158, 74, 216, 244, 62, 147, 247, 132, 99, 210, 77, 207, 229, 49, 174, 180, 113, 152, 25, 244, 249, 127, 126, 3, 0, 0, 0, 0, 102, 48, 115, 188, 75, 250, 149, 201, 190, 195, 106, 173, 114, 104, 165, 115, 4, 151, 151, 189, 252, 90, 164, 199, 67, 251, 228, 130, 10, 163, 147, 206, 0, 0, 0, 0, 0, 0, 0, 0, 0, 0, 0, 0, 0, 0, 0, 0, 0, 0, 0, 0, 0, 0, 0, 0, 0, 0, 0, 0, 0, 0, 0, 0, 168, 190, 204, 91, 225, 171, 3, 28, 194, 253, 96, 124, 119, 106, 122, 0, 0, 0, 0, 0, 0, 0, 0, 0, 0, 0, 0, 0, 0, 0, 0, 0, 0, 0, 0, 0, 62, 178, 24, 25, 253, 64, 5, 0, 148, 157, 85, 222, 12, 198, 51, 224, 204, 228, 30, 70, 73, 239, 74, 163, 52, 159, 1, 0, 41, 15, 254, 40, 27, 148, 123, 59, 83, 251, 210, 243, 91, 28, 226, 146, 100, 155, 150, 172, 110, 8, 131, 175, 58, 104, 68, 185, 85, 146, 231, 69, 86, 218, 52, 75, 71, 1, 150, 28, 212, 19, 12, 104, 33, 156, 250, 19, 65, 213, 175, 181, 4, 158, 176, 232, 190, 74, 45, 146, 214, 120, 196, 7, 133, 227, 55, 5, 84, 139, 95, 58, 84, 240, 164, 195, 154, 47, 88, 238, 120, 74, 36, 22, 60, 216, 111, 84, 129, 35, 39, 223, 85, 225, 213, 92, 168, 75, 110, 123, 136, 122, 124, 191, 185, 9, 26, 88, 91, 219, 142, 164, 117, 147, 7, 197, 108, 27, 61, 175, 198, 105, 36, 90, 111, 101, 75, 111, 115, 0, 82, 38, 106, 1, 173, 79, 156, 11, 89, 237, 78, 23, 113, 43, 62, 114, 223, 4, 152, 170, 141, 228, 136, 143, 153, 53, 49, 198, 10, 205, 237, 29, 75, 102, 232, 157, 224, 182, 72, 44, 204, 212, 167, 18, 245, 207, 157, 76, 168, 59, 224, 249, 34, 222, 44, 29, 187, 58, 20, 7, 72, 13, 190, 135, 149, 153, 61, 139, 230, 64, 152, 138, 191, 231, 168, 161, 179, 58, 18, 19, 28, 69, 30, 26, 188, 13, 131, 251, 133, 24, 98, 198, 55, 206, 114, 77, 95, 233, 122, 169, 168, 6, 207, 52, 186, 181, 9, 244, 85, 75, 12, 209, 10, 125, 223, 213, 130, 27, 9, 26, 210, 201, 12, 26, 161, 216, 30, 179, 215, 45, 180, 25, 147, 182, 72, 244, 30, 33, 56, 255, 149, 49, 163, 15, 247, 59, 34, 20, 14, 78, 189, 123, 170, 51, 132, 142, 81, 45, 153, 48, 12, 92, 19, 28, 110, 117, 245, 113, 74, 92, 109, 203, 23, 139, 74, 73, 120, 218, 200, 58, 212, 18, 251, 214, 146, 1, 146, 80, 197, 83, 4, 154, 173, 69, 121, 132, 190, 223, 201, 106, 231, 1, 198, 89, 188, 112, 7, 169, 125, 10, 144, 2, 185, 69, 189, 236, 69, 169, 69, 239, 98, 133, 178, 205, 85, 59, 76, 9, 217, 7, 198, 39, 134, 63, 3, 153, 232, 114, 91, 79, 247, 252, 89, 121, 227, 207, 242, 40, 20, 80, 132, 72, 239, 139, 152, 49, 194, 133, 149, 147, 51, 57, 106, 163, 98, 165, 28, 242, 5, 9, 122, 250, 190, 193, 94, 65, 251, 110, 48, 182, 34, 55, 75, 245, 139, 55, 239, 157, 27, 36, 30, 173, 90, 104, 43, 152, 182, 87, 73, 165, 117, 104, 226, 56, 213, 10, 253, 65, 126, 30, 150, 14, 123, 90, 6, 79, 217, 246, 148, 215, 131, 162, 203, 205, 88, 85, 45, 237, 187, 158, 94, 17, 35, 103, 78, 247, 58, 82, 65, 150, 207, 5, 211, 229, 36, 102, 5, 73, 255, 231, 189, 101, 104, 5, 113, 53, 255, 213, 175, 217, 67, 246, 218, 17, 203, 181, 151, 232, 204, 236, 215, 126, 203, 233, 9, 222, 6, 49, 191, 162, 156, 211, 227, 213, 84, 70, 113, 186, 128, 37, 97, 83, 214, 233, 153, 11, 136, 173, 142, 12, 244, 152, 155, 239, 75, 228, 87, 249, 199, 176, 241, 170, 205, 110, 14, 243, 32, 96, 92, 41, 237, 12, 210, 235, 108, 252, 226, 22, 197, 42, 49, 117, 128, 32, 28, 173, 122, 9, 67, 210, 75, 123, 6, 213, 191, 117, 135, 97, 221, 150, 225, 25, 112, 181, 222, 214, 151, 34, 43, 44, 119, 231, 242, 86, 166, 5, 172, 117, 85, 73, 193, 101, 31, 37, 173, 252, 157, 83, 217, 17, 126, 58, 11, 180, 9, 238, 228, 166, 0, 18, 4, 114, 148, 156, 125, 218, 28, 46, 219, 60, 51, 12, 127, 150, 23, 153, 130, 145, 100, 87, 211, 49, 233, 99, 9, 221, 36, 223, 116, 238, 221, 0, 231, 219, 73, 126, 225, 48, 247, 125, 230, 102, 235, 85, 127, 179, 22, 232, 122, 218, 241, 129, 60, 228, 38, 164, 88, 166, 238, 227, 168, 91, 42, 184, 143, 101, 83, 170, 218, 232, 222, 101, 46, 33, 26, 29, 159, 51, 77, 89, 107, 94, 182, 23, 52, 7, 239, 204, 46, 129, 84, 187, 156, 161, 33, 42, 169, 161, 161, 18, 29, 47, 90, 119, 18, 207, 37, 204, 129, 72, 184, 5, 46, 13, 46, 9, 242, 14, 91, 162, 169, 130, 119, 233, 117, 176, 238, 217, 168, 146, 6, 150, 99, 55, 22, 63, 33, 92, 157, 4, 166, 89, 139, 9, 88, 211, 51, 216, 70, 119, 60, 105, 229, 171, 253, 10, 4, 39, 243, 102, 6, 20, 221, 130, 183, 154, 219, 133, 26, 13, 88, 182, 45, 245, 240, 179, 172, 131, 110, 110, 37, 243, 165, 31, 73, 169, 154, 222, 87, 121, 111, 233, 252, 194, 111, 10, 31, 148, 255, 8, 25, 254, 82, 183, 80, 135, 237, 190, 211, 168, 22, 38, 235, 84, 22, 198, 101, 87, 241, 28, 15, 206, 223, 242, 35, 214, 170, 140, 213, 195, 83, 134, 229, 180, 185, 90, 15, 3, 146, 202, 48, 26, 56, 179, 104, 125, 9, 68, 147, 185, 233, 210, 100, 208, 122, 25, 12, 229, 125, 17, 104, 4, 56, 42, 63, 171, 225, 90, 244, 223, 79, 160, 67, 240, 40, 122, 161, 237, 85, 104, 217, 239, 93, 18, 81, 13, 1, 12, 205, 171, 78, 182, 22, 246, 223, 19, 187, 49, 38, 239, 67, 217, 214, 87, 53, 228, 228, 192, 75, 87, 99, 72, 208, 64, 181, 53, 5, 90, 61, 90, 225, 145, 183, 95, 6, 18, 243, 178, 64, 102, 160, 82, 69, 242, 127, 229, 123, 218, 102, 189, 109, 236, 126, 79, 201, 203, 35, 104, 2, 6, 42, 221, 227, 205, 14, 49, 52, 130, 201, 42, 12, 114, 17, 2, 177, 243, 139, 1, 90, 184, 208, 21, 89, 203, 203, 64, 246, 116, 233, 239, 173, 94, 233, 194, 254, 19, 63, 170, 85, 202, 29, 208, 255, 38, 113, 15, 157, 168, 25, 204, 20, 89, 203, 126, 210, 96, 218, 211, 219, 5, 150, 37, 141, 71, 199, 76, 50, 168, 184, 82, 182, 113, 197, 160, 202, 162, 0, 22, 3, 217, 12, 145, 167, 223, 46, 45, 78, 233, 174, 155, 241, 166, 177, 236, 136, 21, 28, 98, 54, 13, 3, 2, 77, 46, 45, 1, 20, 8, 79, 107, 136, 197, 187, 162, 74, 167, 206, 207, 172, 22, 233, 30, 11, 175, 61, 134, 83, 226, 24, 9, 62, 129, 210, 166, 60, 50, 239, 241, 217, 3, 15, 158, 20, 20, 236, 228, 32, 218, 162, 78, 13, 213, 184, 69, 179, 39, 75, 184, 57, 202, 28, 83, 188, 192, 25, 66, 66, 215, 75, 38, 49, 185, 73, 90, 101, 79, 187, 220, 191, 173, 119, 159, 115, 34, 182, 7, 54, 36, 152, 128, 96, 72, 33, 217, 105, 36, 227, 250, 57, 127, 53, 74, 94, 204, 163, 79, 97, 77, 165, 69, 111, 155, 54, 51, 140, 55, 216, 246, 251, 246, 38, 190, 152, 52, 119, 118, 96, 34, 135, 39, 70, 218, 16, 161, 119, 28, 235, 2, 221, 138, 172, 1, 186, 24, 107, 241, 72, 134, 48, 71, 158, 18, 132, 218, 1, 144, 252, 232, 181, 154, 198, 176, 253, 65, 107, 238, 86, 183, 47, 10, 88, 69, 21, 53, 87, 255, 15, 73, 80, 160, 220, 91, 230, 92, 233, 66, 210, 46, 24, 83, 76, 78, 14, 250, 187, 45, 21, 37, 220, 72, 88, 185, 176, 247, 125, 71, 74, 18, 94, 188, 37, 14, 8, 254, 219, 250, 166, 111, 69, 61, 144, 147, 44, 171, 63, 244, 82, 33, 144, 153, 104, 229, 30, 107, 194, 84, 213, 9, 173, 235, 117, 203, 167, 109, 72, 254, 2, 78, 62, 102, 216, 223, 94, 1, 3, 0, 0, 128, 112, 130, 196, 3, 1, 0, 0, 0, 0, 0, 0, 0, 0, 0, 0, 0, 0, 0, 0, 0, 0, 0, 0, 0, 0, 0, 0, 0, 0, 0, 0, 0, 0, 0, 0, 0, 0, 255, 255, 255, 255, 26, 3, 24, 85, 6, 21, 47, 86, 105, 97, 66, 84, 67, 47, 72, 101, 108, 108, 111, 32, 119, 111, 114, 108, 100, 33, 47, 255, 255, 255, 255, 2, 0, 202, 154, 59, 0, 0, 0, 0, 25, 118, 169, 20, 251, 138, 106, 76, 17, 203, 33, 108, 226, 31, 159, 55, 29, 252, 146, 113, 164, 105, 189, 109, 136, 172, 128, 178, 230, 14, 0, 0, 0, 0, 23, 169, 20, 224, 165, 234, 19, 64, 204, 107, 29, 106, 130, 192, 108, 10, 156, 96, 185, 137, 139, 106, 233, 135, 0, 0, 0, 0, 0, 0, 0, 0, 0];
const HLEN: usize = 1487;

/// `frag` = 0: the slice itself; 9999: segments of 1460, 1000, 536, 300, 97 bytes (cycling);
/// otherwise at most `frag` bytes per call.
struct Frag<'a> {
    data: &'a [u8],
    pos: usize,
    frag: usize,
    seg_left: usize,
    seg_i: usize,
}
const SEGS: [usize; 5] = [1460, 1000, 536, 300, 97];
impl Read for Frag<'_> {
    fn read(&mut self, buf: &mut [u8]) -> io::Result<usize> {
        let lim = if self.frag == 9999 {
            if self.seg_left == 0 {
                self.seg_left = SEGS[self.seg_i % SEGS.len()];
                self.seg_i += 1;
            }
            self.seg_left
        } else {
            self.frag
        };
        let n = buf.len().min(lim).min(self.data.len() - self.pos);
        buf[..n].copy_from_slice(&self.data[self.pos..self.pos + n]);
        self.pos += n;
        if self.frag == 9999 {
            self.seg_left -= n;
        }
        Ok(n)
    }
}

fn bw(b: &[u8]) -> String {
    let mut ws = vec![];
    for ch in b.chunks(7) {
        let mut v: u64 = 0;
        for j in 0..7 {
            v = (v << 8) | (*ch.get(j).unwrap_or(&0) as u64);
        }
        ws.push(format!("0x{:x}", v));
    }
    format!("(bw {} [{}])", b.len(), ws.join(";"))
}

fn parse(raw: &[u8], frag: usize) -> Option<io::Result<BlockHeader>> {
    catch(|| {
        if frag == 0 {
            BlockHeader::read(raw)
        } else {
            BlockHeader::read(Frag { data: raw, pos: 0, frag, seg_left: 0, seg_i: 0 })
        }
    })
}

struct St {
    by: BTreeMap<String, u64>,
}
fn fields(h: &BlockHeader) -> (Vec<u8>, Vec<u8>, Vec<u8>) {
    let mut ser = vec![];
    h.write(&mut ser).unwrap();
    (ser[..108].to_vec(), h.nonce.to_vec(), h.solution.clone())
}
fn run(st: &mut St, stream: &str, raw: &[u8], frag: usize) {
    let (o, cls) = match parse(raw, frag) {
        None => (PANIC.to_string(), "panic"),
        Some(Err(_)) => ("(Err tt)".to_string(), "err"),
        Some(Ok(h)) => {
            let (i, n, s) = fields(&h);
            (format!("(Ok ({}, {}, {}))", bw(&i), bw(&n), bw(&s)), "ok")
        }
    };
    case(format!("Hd {} {}%N {}", bw(raw), frag, o));
    *st.by.entry(format!("{}:{}", stream, cls)).or_default() += 1;
}

fn main() {
    let a = args();
    quiet_panics();
    let mut rng = Rng::new(a.seed, 1919);
    let big = a.thorough() || a.search;
    let mut st = St { by: BTreeMap::new() };
    let hdr = &BLOCK_MAINNET_415000[..HLEN];
    let frags: [usize; 8] = [0, 1, 97, 300, 512, 536, 1000, 9999];

    // the genuine header, alone and followed by the rest of the block, under every delivery
    for f in frags {
        run(&mut st, "genuine", hdr, f);
        run(&mut st, "genuine_in_block", &BLOCK_MAINNET_415000[..], f);
    }
    for _ in 0..(if big { 40 } else { 6 }) {
        run(&mut st, "genuine", hdr, rng.range(2, 1500) as usize);
    }
    // truncated: one byte short, inside the last 512 bytes, inside the fixed fields, inside the prefix
    let mut cuts: Vec<usize> = vec![HLEN - 1, HLEN - 2, HLEN - 511, 143, 142, 141, 140, 139, 108, 4, 0];
    for _ in 0..(if big { 40 } else { 6 }) {
        cuts.push(rng.range(HLEN as u64 - 512, HLEN as u64 - 1) as usize);
        cuts.push(rng.below(HLEN as u64) as usize);
    }
    for c in cuts {
        run(&mut st, "truncated", &hdr[..c], 0);
        run(&mut st, "truncated", &hdr[..c], *rng.pick(&frags[1..]));
        run(&mut st, "truncated", &hdr[..c], rng.range(2, 1500) as usize);
    }
    // single-bit flips: every bit of the length prefix, a sample elsewhere
    let mut bits: Vec<usize> = (140 * 8..143 * 8).collect();
    for _ in 0..(if big { 200 } else { 12 }) {
        bits.push(rng.below(HLEN as u64 * 8) as usize);
    }
    for b in bits {
        let mut m = BLOCK_MAINNET_415000[..].to_vec();
        m[b / 8] ^= 1 << (b % 8);
        run(&mut st, "bit_flip", &m, 0);
        run(&mut st, "bit_flip", &m, *rng.pick(&frags[1..]));
    }
    // other length prefixes: short solutions, non-canonical and oversized prefixes
    for (pre, len) in [(vec![0u8], 0usize), (vec![1], 1), (vec![252], 252), (vec![253, 253, 0], 253), (vec![253, 252, 0], 252),
        (vec![253, 0, 2], 512), (vec![253, 1, 2], 513), (vec![254, 0, 0, 1, 0], 65536), (vec![254, 64, 5, 0, 0], 1344),
        (vec![254, 1, 0, 0, 2], 0), (vec![255, 0, 0, 0, 0, 1, 0, 0, 0], 0), (vec![255, 64, 5, 0, 0, 0, 0, 0, 0], 1344)] {
        let mut m = hdr[..140].to_vec();
        m.extend_from_slice(&pre);
        m.extend_from_slice(&rng.bytes(len));
        for f in [0usize, 1, 512, 9999] {
            run(&mut st, "prefix", &m, f);
        }
        if len > 0 {
            m.pop();
            run(&mut st, "prefix_short", &m, 0);
            run(&mut st, "prefix_short", &m, 300);
        }
    }

    // the genuine header's proof of work through the verifier, with independently computed digests
    if let Some(Ok(h)) = parse(hdr, 9999) {
        let (input, nonce, soln) = fields(&h);
        for (name, s) in [("header_pow", soln.clone()), ("header_pow_flipped", {
            let mut t = soln.clone();
            t[700] ^= 4;
            t
        })] {
            let r = catch(|| equihash::is_valid_solution(200, 9, &input, &nonce, &s));
            let o = match r {
                None => PANIC.to_string(),
                Some(Ok(())) => "(Ok tt)".to_string(),
                Some(Err(e)) => {
                    let m = format!("{}", e);
                    let k = if m.ends_with("invalid parameters") { "EInvalidParams" }
                        else if m.ends_with("invalid collision length between StepRows") { "ECollision" }
                        else if m.ends_with("Index tree incorrectly ordered") { "EOutOfOrder" }
                        else if m.ends_with("duplicate indices") { "EDuplicateIdxs" }
                        else if m.ends_with("root hash of tree is non-zero") { "ENonZeroRootHash" } else { "EOther" };
                    err(k)
                }
            };
            let mut tab: BTreeMap<u32, Vec<u8>> = BTreeMap::new();
            if s.len() == 1344 {
                let mut p = Vec::from(&b"ZcashPoW"[..]);
                p.extend_from_slice(&200u32.to_le_bytes());
                p.extend_from_slice(&9u32.to_le_bytes());
                let total = s.len() * 8;
                let mut pos = 0;
                while pos + 21 <= total {
                    let mut v: u32 = 0;
                    for b in pos..pos + 21 {
                        v = (v << 1) | ((s[b / 8] >> (7 - b % 8)) & 1) as u32;
                    }
                    pos += 21;
                    let g = v / 2;
                    tab.entry(g).or_insert_with(|| {
                        let mut stt = B2Params::new().hash_length(50).personal(&p).to_state();
                        stt.update(&input);
                        stt.update(&nonce);
                        stt.update(&g.to_le_bytes());
                        stt.finalize().as_bytes().to_vec()
                    });
                }
            }
            let t = list(tab.iter().map(|(g, d)| format!("({}, {})", n(*g as u128), bw(d))));
            case(format!("Eh 200%N 9%N {} {} {} {} {}", bw(&input), bw(&nonce), bw(&s), t, o));
            *st.by.entry(format!("{}:{}", name, o)).or_default() += 1;
        }
    }
    stat(format!("{{\"header_streams\":{{{}}}}}", st.by.iter().map(|(k, v)| format!("\"{}\":{}", k.replace('"', ""), v)).collect::<Vec<_>>().join(",")));
}
