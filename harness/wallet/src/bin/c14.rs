//! C14 harness: drives `zcash_primitives::transaction::builder::Builder` (`mock_build`, `build`
//! with mock Sapling provers, `build_for_pczt` + PCZT Creator) on generated requests and prints
//! one Coq `case` per request: the request, the arguments the fee rule was asked about (when the
//! rule is the harness' recording rule) and the canonicalised outcome.
//!
//! In-harness crypto checks (observed booleans, see `b_dec` / `b_sig`):
//!  * every requested shielded output is trial-decrypted with the recipient's incoming viewing key
//!    at the position the builder's metadata reports, and must yield the requested value and memo;
//!  * every transparent scriptSig signature is verified with secp256k1 under `signature_hash` for
//!    that input index and the requested coin's script and value.
use std::cell::RefCell;
use std::collections::BTreeMap;

use incrementalmerkletree::{frontier::CommitmentTree, witness::IncrementalWitness};
use rand_chacha::ChaCha8Rng;
use rand_core::SeedableRng;
use vcommon::*;

use transparent::{
    address::{Script, TransparentAddress},
    builder::TransparentSigningSet,
    bundle::{OutPoint, TxIn, TxOut},
    sighash::{SighashType, SignableInput, TransparentAuthorizingContext},
};
use zcash_primitives::transaction::{
    builder::{BuildConfig, Builder, BundlePadding, Error as BErr, FeeError, PcztResult},
    components::sapling::zip212_enforcement,
    fees::{transparent::InputSize, zip317, FeeRule},
    sighash::signature_hash,
    txid::TxIdDigester,
    Transaction, TransactionData, TxVersion,
};
use zcash_protocol::{
    consensus::{BlockHeight, BranchId, Network, NetworkUpgrade, Parameters},
    memo::MemoBytes,
    value::{BalanceError, Zatoshis, MAX_MONEY},
    PoolType,
};
use zcash_transparent as transparent;

// ---------------------------------------------------------------------------------------------
// Request language (mirrors coq/C14/Model.v)

#[derive(Clone, Copy, Debug, PartialEq)]
enum Ver {
    V3,
    V4,
    V5,
    V6,
}

#[derive(Clone, Debug)]
enum Op {
    TIn(u64),
    TInSh(u64, u8, u8), // value, m-of-n multisig P2SH coin (redeem script keys 4..4+n in order)
    TInRaw(u64),        // value, P2SH coin whose redeem script (OP_1) is not a standard template
    TOut(u64, bool), // value, p2sh?
    TNull(usize),
    SSpend(u64),
    SOut(u64),
    OSpend(u64),
    OOut(u64),
    OChange(u64),
    ISpend(u64, bool), // value, note version V3?
    IOut(u64),
    Propose(Ver),
    Expiry(u32),
}

#[derive(Clone, Debug)]
enum Rule {
    Zip317,
    Lin([u64; 7]),
}

#[derive(Clone, Copy, Debug, PartialEq)]
enum Route {
    Mock,
    Build,
    Pczt,
    Deferred, // DeferredPcztBuilder::build_for_pczt
}

#[derive(Clone, Debug)]
struct Req {
    net: Network,
    height: u32,
    sap: bool,
    orc: bool,
    iw: bool,
    opad: (bool, Option<u8>),
    ipad: (bool, Option<u8>),
    keys: Vec<u8>, // multisig keys registered in the signing set, in registration order
    ops: Vec<Op>,
    rule: Rule,
    route: Route,
    coinbase: bool, // BuildConfig::Coinbase { miner_data: None } instead of Standard
}

fn ver_s(v: TxVersion) -> String {
    match v {
        TxVersion::Sprout(n) => format!("(VSprout {})", n),
        TxVersion::V3 => "V3".into(),
        TxVersion::V4 => "V4".into(),
        TxVersion::V5 => "V5".into(),
        TxVersion::V6 => "V6".into(),
    }
}
fn ver_t(v: Ver) -> TxVersion {
    match v {
        Ver::V3 => TxVersion::V3,
        Ver::V4 => TxVersion::V4,
        Ver::V5 => TxVersion::V5,
        Ver::V6 => TxVersion::V6,
    }
}
fn b(x: bool) -> String {
    boolc(x)
}
fn pad_s(p: (bool, Option<u8>)) -> String {
    format!("(mkPad {} {})", b(p.0), opt(p.1.map(|x| zu(x as u128))))
}
fn op_s(o: &Op) -> String {
    match o {
        Op::TIn(v) => format!("TIn {}", v),
        Op::TInSh(v, m, n) => format!("TInSh {} {} {}", v, m, n),
        Op::TInRaw(v) => format!("TInRaw {}", v),
        Op::TOut(v, s) => format!("TOut {} {}", v, b(*s)),
        Op::TNull(n) => format!("TNull {}", n),
        Op::SSpend(v) => format!("SSpend {}", v),
        Op::SOut(v) => format!("SOut {}", v),
        Op::OSpend(v) => format!("OSpend {}", v),
        Op::OOut(v) => format!("OOut {}", v),
        Op::OChange(v) => format!("OChange {}", v),
        Op::ISpend(v, n) => format!("ISpend {} {}", v, b(*n)),
        Op::IOut(v) => format!("IOut {}", v),
        Op::Propose(v) => format!("Propose {}", ver_s(ver_t(*v))),
        Op::Expiry(h) => format!("Expiry {}", h),
    }
}
fn req_s(r: &Req) -> String {
    format!(
        "(mkReq {} {} {} {} {} {} {} {} {} {} {} {})",
        if r.net == Network::MainNetwork { "Main" } else { "Test" },
        r.height,
        b(r.sap),
        b(r.orc),
        b(r.iw),
        pad_s(r.opad),
        pad_s(r.ipad),
        list(r.keys.iter().map(|x| zu(*x as u128))),
        list(r.ops.iter().map(op_s)),
        match &r.rule {
            Rule::Zip317 => "RZip317".to_string(),
            Rule::Lin(c) => format!("(RLin {})", list(c.iter().map(|x| zu(*x as u128)))),
        },
        match r.route {
            Route::Mock => "Mock",
            Route::Build => "Build",
            Route::Pczt => "Pczt",
            Route::Deferred => "Deferred",
        },
        b(r.coinbase)
    )
}

// ---------------------------------------------------------------------------------------------
// Recording fee rule: a linear function of exactly the arguments the builder passes.

#[derive(Clone, Debug, Default)]
struct Seen {
    tin: Vec<i128>, // -1 = unknown size
    tout: Vec<usize>,
    sin: usize,
    sout: usize,
    orc: usize,
    iw: usize,
}
struct Probe {
    c: [u64; 7],
    seen: RefCell<Option<Seen>>,
}
#[derive(Debug)]
struct ProbeErr;
impl FeeRule for Probe {
    type Error = ProbeErr;
    fn fee_required<P: Parameters>(
        &self,
        _params: &P,
        _h: BlockHeight,
        tin: impl IntoIterator<Item = InputSize>,
        tout: impl IntoIterator<Item = usize>,
        sin: usize,
        sout: usize,
        orc: usize,
        iw: usize,
    ) -> Result<Zatoshis, ProbeErr> {
        let tin: Vec<i128> = tin
            .into_iter()
            .map(|s| match s {
                InputSize::Known(n) => n as i128,
                InputSize::Unknown(_) => -1,
            })
            .collect();
        let tout: Vec<usize> = tout.into_iter().collect();
        let c = &self.c;
        let mut fee: u128 = c[0] as u128;
        fee += c[1] as u128 * tin.iter().map(|x| (*x).max(0) as u128).sum::<u128>();
        fee += c[2] as u128 * tout.iter().map(|x| *x as u128).sum::<u128>();
        fee += c[3] as u128 * sin as u128 + c[4] as u128 * sout as u128;
        fee += c[5] as u128 * orc as u128 + c[6] as u128 * iw as u128;
        *self.seen.borrow_mut() = Some(Seen { tin, tout, sin, sout, orc, iw });
        if fee > MAX_MONEY as u128 {
            return Err(ProbeErr);
        }
        Zatoshis::from_u64(fee as u64).map_err(|_| ProbeErr)
    }
}
fn seen_s(s: &Option<Seen>) -> String {
    opt(s.as_ref().map(|s| {
        format!(
            "(mkSeen {} {} {} {} {} {})",
            list(s.tin.iter().map(|x| z(*x))),
            list(s.tout.iter().map(|x| zu(*x as u128))),
            s.sin,
            s.sout,
            s.orc,
            s.iw
        )
    }))
}

// ---------------------------------------------------------------------------------------------
// Keys and notes

struct Keys {
    tsk: Vec<secp256k1::SecretKey>,
    tpk: Vec<secp256k1::PublicKey>,
    sap_extsk: sapling::zip32::ExtendedSpendingKey,
    sap_recv: Vec<(sapling::zip32::ExtendedSpendingKey, sapling::PaymentAddress)>,
    orc_sk: orchard::keys::SpendingKey,
    orc_fvk: orchard::keys::FullViewingKey,
    orc_recv: Vec<orchard::keys::FullViewingKey>,
}

fn keys() -> Keys {
    let mut signing = TransparentSigningSet::new();
    let mut tsk = vec![];
    let mut tpk = vec![];
    // keys 0..3: P2PKH coins; keys 4..18: multisig redeem scripts
    for k in 0..19u8 {
        let sk = secp256k1::SecretKey::from_slice(&[k + 1; 32]).unwrap();
        tpk.push(signing.add_key(sk));
        tsk.push(sk);
    }
    let sap_extsk = sapling::zip32::ExtendedSpendingKey::master(&[0x14]);
    let sap_recv = (0..3u8)
        .map(|i| {
            let e = sapling::zip32::ExtendedSpendingKey::master(&[0x40 + i]);
            let a = e.to_diversifiable_full_viewing_key().default_address().1;
            (e, a)
        })
        .collect();
    let orc_sk = orchard::keys::SpendingKey::from_bytes([7; 32]).unwrap();
    let orc_fvk = orchard::keys::FullViewingKey::from(&orc_sk);
    let orc_recv = (0..3u8)
        .filter_map(|i| orchard::keys::SpendingKey::from_bytes([0x20 + i; 32]).into_option())
        .map(|sk| orchard::keys::FullViewingKey::from(&sk))
        .collect();
    Keys { tsk, tpk, sap_extsk, sap_recv, orc_sk, orc_fvk, orc_recv }
}

fn memo_for(tag: u8, j: usize, v: u64) -> MemoBytes {
    // A distinct text memo per requested output.
    let s = format!("c14 {} #{} {}", tag as char, j, v);
    MemoBytes::from_bytes(s.as_bytes()).unwrap()
}

fn sapling_notes(
    k: &Keys,
    vals: &[u64],
    r: &mut Rng,
) -> (Vec<(sapling::Note, sapling::MerklePath)>, sapling::Anchor) {
    let to = k.sap_extsk.to_diversifiable_full_viewing_key().default_address().1;
    let notes: Vec<sapling::Note> = vals
        .iter()
        .map(|v| {
            let mut rs = [0u8; 32];
            rs.copy_from_slice(&r.bytes(32));
            to.create_note(sapling::value::NoteValue::from_raw(*v), sapling::Rseed::AfterZip212(rs))
        })
        .collect();
    if notes.is_empty() {
        return (vec![], sapling::Anchor::empty_tree());
    }
    let mut tree = CommitmentTree::<sapling::Node, 32>::empty();
    let mut wits: Vec<IncrementalWitness<sapling::Node, 32>> = vec![];
    for n in &notes {
        let node = sapling::Node::from_cmu(&n.cmu());
        tree.append(node).unwrap();
        for w in wits.iter_mut() {
            w.append(node).unwrap();
        }
        wits.push(IncrementalWitness::from_tree(tree.clone()).unwrap());
    }
    let anchor: sapling::Anchor = wits[0].root().into();
    (
        notes.into_iter().zip(wits.iter().map(|w| w.path().unwrap())).collect(),
        anchor,
    )
}

fn orchard_notes(
    k: &Keys,
    vals: &[(u64, orchard::note::NoteVersion)],
    r: &mut Rng,
) -> (Vec<(orchard::Note, orchard::tree::MerklePath)>, orchard::Anchor) {
    use orchard::tree::MerkleHashOrchard;
    let recipient = k.orc_fvk.address_at(0u32, orchard::keys::Scope::External);
    let notes: Vec<orchard::Note> = vals
        .iter()
        .map(|(v, nv)| loop {
            let mut rb = [0u8; 32];
            rb.copy_from_slice(&r.bytes(32));
            rb[31] &= 0x3f;
            let rho = match orchard::note::Rho::from_bytes(&rb).into_option() {
                Some(x) => x,
                None => continue,
            };
            let mut sb = [0u8; 32];
            sb.copy_from_slice(&r.bytes(32));
            let rseed = match orchard::note::RandomSeed::from_bytes(sb, &rho).into_option() {
                Some(x) => x,
                None => continue,
            };
            if let Some(n) = orchard::Note::from_parts(
                recipient,
                orchard::value::NoteValue::from_raw(*v),
                rho,
                rseed,
                *nv,
            )
            .into_option()
            {
                break n;
            }
        })
        .collect();
    if notes.is_empty() {
        return (vec![], orchard::Anchor::empty_tree());
    }
    let mut tree = CommitmentTree::<MerkleHashOrchard, 32>::empty();
    let mut wits: Vec<IncrementalWitness<MerkleHashOrchard, 32>> = vec![];
    for n in &notes {
        let cmx: orchard::note::ExtractedNoteCommitment = n.commitment().into();
        let node = MerkleHashOrchard::from_cmx(&cmx);
        tree.append(node).unwrap();
        for w in wits.iter_mut() {
            w.append(node).unwrap();
        }
        wits.push(IncrementalWitness::from_tree(tree.clone()).unwrap());
    }
    let anchor: orchard::Anchor = wits[0].root().into();
    (
        notes
            .into_iter()
            .zip(wits.iter().map(|w| orchard::tree::MerklePath::from(w.path().unwrap())))
            .collect(),
        anchor,
    )
}

// ---------------------------------------------------------------------------------------------
// Outcome canonicalisation

fn pool_s(p: Option<PoolType>) -> String {
    match p {
        None => "None".into(),
        Some(PoolType::Transparent) => "(Some PTransparent)".into(),
        Some(PoolType::Shielded(zcash_protocol::ShieldedProtocol::Sapling)) => "(Some PSapling)".into(),
        Some(PoolType::Shielded(zcash_protocol::ShieldedProtocol::Orchard)) => "(Some POrchard)".into(),
        #[allow(unreachable_patterns)]
        Some(_) => "(Some POther)".into(),
    }
}

fn berr_s<FE>(e: &BErr<FE>) -> String {
    match e {
        BErr::InsufficientFunds(a) => format!("EInsufficient {}", z(i64::from(*a) as i128)),
        BErr::ChangeRequired(a) => format!("EChange {}", z(i64::from(*a) as i128)),
        BErr::Fee(FeeError::FeeRule(_)) => "EFeeRule".into(),
        BErr::Fee(FeeError::Bundle(_)) => "EFeeBundle".into(),
        BErr::Balance(BalanceError::Overflow) => "EBalance true".into(),
        BErr::Balance(BalanceError::Underflow) => "EBalance false".into(),
        BErr::TransparentBuild(_) => "ETransparentBuild".into(),
        BErr::SaplingBuild(sapling::builder::Error::PcztRequiresZip212) => "ESaplingZip212".into(),
        BErr::SaplingBuild(sapling::builder::Error::InvalidAmount) => "ESaplingAmount".into(),
        BErr::SaplingBuild(_) => "ESaplingBuild".into(),
        BErr::OrchardBuild(_) => "EOrchardBuild".into(),
        BErr::IronwoodBuild(_) => "EIronwoodBuild".into(),
        BErr::OrchardSpend(_) => "EOrchardSpend".into(),
        BErr::OrchardRecipient(_) => "EOrchardRecipient".into(),
        BErr::IronwoodSpend(_) => "EIronwoodSpend".into(),
        BErr::IronwoodSpendUnsupportedNoteVersion(_) => "EIronwoodNoteVersion".into(),
        BErr::IronwoodRecipient(_) => "EIronwoodRecipient".into(),
        BErr::SaplingBuilderNotAvailable => "ESaplingNA".into(),
        BErr::OrchardBuilderNotAvailable => "EOrchardNA".into(),
        BErr::IronwoodBuilderNotAvailable => "EIronwoodNA".into(),
        BErr::AnchorDeferralUnsupported(_) => "EDeferral".into(),
        BErr::Coinbase(_) => "ECoinbase".into(),
        BErr::CoinbaseExpiryHeightMismatch { .. } => "ECoinbaseExpiry".into(),
        BErr::TargetIncompatible(_, v, p) => format!("ETarget {} {}", ver_s(*v), pool_s(*p)),
    }
}

#[derive(Default)]
struct Shb {
    nsp: usize,
    nout: usize,
    vb: i128,
    spv: Option<Vec<u64>>,
    outv: Option<Vec<u64>>,
}
fn shb_s(s: &Option<Shb>) -> String {
    opt(s.as_ref().map(|s| {
        let l = |v: &Option<Vec<u64>>| {
            opt(v.as_ref().map(|v| {
                let mut v = v.clone();
                v.sort();
                list(v.iter().map(|x| zu(*x as u128)))
            }))
        };
        format!("(mkShb {} {} {} {} {})", s.nsp, s.nout, z(s.vb), l(&s.spv), l(&s.outv))
    }))
}

struct Built {
    ver: TxVersion,
    branch: u32,
    expiry: u32,
    lock: u32,
    tin: Vec<(i128, i128)>, // (value of the spent coin, size the input is charged for)
    tout: Vec<(u64, usize)>,
    sap: Option<Shb>,
    orc: Option<Shb>,
    iw: Option<Shb>,
    fee_paid: Option<i128>, // None: not available on this route / API returned None; -1: API error
    dec: bool,
    sig: bool,
    sels: String, // per transparent input, what each signature was made over (Coq list (list sel))
}
fn built_s(x: &Built) -> String {
    format!(
        "(mkBuilt {} {} {} {} {} {} {} {} {} {} {} {})",
        ver_s(x.ver),
        x.branch,
        x.expiry,
        x.lock,
        list(x.tin.iter().map(|(v, s)| pair(z(*v), z(*s)))),
        list(x.tout.iter().map(|(v, s)| pair(zu(*v as u128), zu(*s as u128)))),
        shb_s(&x.sap),
        shb_s(&x.orc),
        shb_s(&x.iw),
        opt(x.fee_paid.map(z)),
        b(x.dec),
        b(x.sig)
    )
}

#[derive(Clone)]
enum CoinKind {
    P2pkh(usize),        // key index
    P2sh(u8, u8, Vec<u8>), // m, n, redeem script bytes
    Raw(Vec<u8>),          // non-standard redeem script
}

fn redeem_script(k: &Keys, m: u8, n: u8) -> Vec<u8> {
    let mut v = vec![0x50 + m];
    for i in 0..n as usize {
        v.push(33);
        v.extend_from_slice(&k.tpk[4 + i].serialize());
    }
    v.push(0x50 + n);
    v.push(0xae);
    v
}

/// Splits a script consisting only of pushes into the pushed items (None when anything else occurs).
fn pushes(sc: &[u8]) -> Option<Vec<Vec<u8>>> {
    pushes_with(sc, false)
}
/// As `pushes`, but also accepts what zcash_script 0.4.3 emits for OP_PUSHDATA1 with a length of
/// 128..=255: the length written as a two-byte script number (`4c ad 00 ..` instead of `4c ad ..`).
/// A script interpreter reads that as a 1-byte length, so such a scriptSig is NOT push-only; the
/// lenient form is only used to look at what the builder meant to put there.
fn pushes_lenient(sc: &[u8]) -> Option<Vec<Vec<u8>>> {
    pushes_with(sc, true)
}
fn pushes_with(sc: &[u8], lenient: bool) -> Option<Vec<Vec<u8>>> {
    let mut out = vec![];
    let mut i = 0;
    while i < sc.len() {
        let op = sc[i];
        i += 1;
        let l = match op {
            0 => 0,
            1..=75 => op as usize,
            76 => {
                let l = *sc.get(i)? as usize;
                i += 1;
                if lenient && l >= 128 && sc.get(i) == Some(&0) && i + 1 + l == sc.len() {
                    i += 1;
                }
                l
            }
            77 => {
                let l = *sc.get(i)? as usize | (*sc.get(i + 1)? as usize) << 8;
                i += 2;
                l
            }
            _ => return None,
        };
        if i + l > sc.len() {
            return None;
        }
        out.push(sc[i..i + l].to_vec());
        i += l;
    }
    Some(out)
}

/// The size a transparent input is charged for, derived from the scriptSig that was actually
/// produced: a P2PKH scriptSig is charged the ZIP 317 standard size; a multisig P2SH scriptSig is
/// charged prevout + sequence + its script with every signature taken at its maximum (73 bytes).
fn charged_size_of_script_sig(ss: &[u8]) -> i128 {
    match pushes_lenient(ss) {
        Some(items) if items.len() == 2 && items[1].len() == 33 && !items[0].is_empty() => 150,
        Some(items) if items.len() >= 2 && items[0].is_empty() => {
            let nsig = items.len() - 2;
            let rl = items[items.len() - 1].len();
            let push = if rl <= 75 { 1 + rl } else if rl <= 255 { 2 + rl } else { 3 + rl };
            let sl = 1 + 74 * nsig + push;
            (36 + (if sl < 253 { 1 } else { 3 }) + sl + 4) as i128
        }
        _ => -1,
    }
}

// What the harness asked for, in request order, for the crypto checks.
#[derive(Default)]
struct Asked {
    coins: Vec<(OutPoint, TxOut, CoinKind)>, // outpoint, coin, how it is spent
    sap_outs: Vec<(usize, u64, MemoBytes)>, // receiver index, value, memo
    orc_outs: Vec<(usize, u64, MemoBytes, bool)>, // receiver index (usize::MAX = own fvk internal), value, memo, is_change
    iw_outs: Vec<(usize, u64, MemoBytes)>,
}

// Transparent authorization carrying the spent coins, so `signature_hash` can be recomputed.
#[derive(Debug)]
struct HAuth {
    amounts: Vec<Zatoshis>,
    scripts: Vec<Script>,
}
impl transparent::bundle::Authorization for HAuth {
    type ScriptSig = Script;
}
impl TransparentAuthorizingContext for HAuth {
    fn input_amounts(&self) -> Vec<Zatoshis> {
        self.amounts.clone()
    }
    fn input_scriptpubkeys(&self) -> Vec<Script> {
        self.scripts.clone()
    }
}
struct HUn;
impl zcash_primitives::transaction::Authorization for HUn {
    type TransparentAuth = HAuth;
    type SaplingAuth = sapling::bundle::Authorized;
    type OrchardAuth = orchard::bundle::Authorized;
}

fn script_id(k: &Keys, asked: &Asked, sc: &[u8]) -> String {
    for (_, coin, kind) in &asked.coins {
        if coin.script_pubkey().0 .0 == sc {
            return match kind {
                CoinKind::P2pkh(ki) => format!("(SPubKeyHash {})", ki),
                CoinKind::P2sh(m, n, _) => format!("(SScriptHash {} {})", m, n),
                CoinKind::Raw(_) => "(SScriptHash 0 0)".to_string(),
            };
        }
        if let CoinKind::P2sh(m, n, rs) = kind {
            if rs == sc {
                return format!("(SRedeem {} {})", m, n);
            }
        }
    }
    let _ = k;
    "(SPubKeyHash (-1))".into()
}

/// For every transparent input and every signature in its scriptSig: the key under which the
/// signature verifies and the selector (index, value, script code, scriptPubKey) of the
/// `signature_hash` it verifies for. The expected selector is tried first; when it does not verify,
/// all (index, coin, script code) combinations of the request are searched, so a signature made
/// over the wrong input / value / script is reported as what it is.
fn observe_sels(tx: &Transaction, asked: &Asked, k: &Keys, budget: &std::cell::Cell<u32>) -> String {
    let data: TransactionData<zcash_primitives::transaction::Authorized> = tx.clone().into_data();
    let nin = data.transparent_bundle().map_or(0, |b| b.vin.len());
    if nin == 0 || nin != asked.coins.len() {
        return "[]".into();
    }
    let v5 = matches!(tx.version(), TxVersion::V5 | TxVersion::V6);
    let amounts: Vec<Zatoshis> = asked.coins.iter().map(|c| c.1.value()).collect();
    let scripts: Vec<Script> = asked.coins.iter().map(|c| c.1.script_pubkey().clone()).collect();
    let hd: TransactionData<HUn> = data.map_bundles(
        |t| {
            t.map(|bd| transparent::bundle::Bundle {
                vin: bd
                    .vin
                    .iter()
                    .map(|i| TxIn::from_parts(i.prevout().clone(), i.script_sig().clone(), i.sequence()))
                    .collect(),
                vout: bd.vout.clone(),
                authorization: HAuth { amounts: amounts.clone(), scripts: scripts.clone() },
            })
        },
        |s| s,
        |o| o,
    );
    let parts = hd.digest(TxIdDigester);
    let secp = secp256k1::Secp256k1::verification_only();
    let bundle = hd.transparent_bundle().unwrap();
    // all script codes that occur in the request
    let mut codes: Vec<Vec<u8>> = vec![];
    for (_, coin, kind) in &asked.coins {
        codes.push(coin.script_pubkey().0 .0.clone());
        if let CoinKind::P2sh(_, _, rs) | CoinKind::Raw(rs) = kind {
            codes.push(rs.clone());
        }
    }
    codes.sort();
    codes.dedup();
    let msg_for = |j: usize, kc: usize, code: &[u8]| -> Option<secp256k1::Message> {
        let coin = &asked.coins[kc].1;
        let code = Script(zcash_script::script::Code(code.to_vec()));
        let si = SignableInput::from_parts(bundle, SighashType::ALL, j, &code, coin.script_pubkey(), coin.value()).ok()?;
        let h = signature_hash(&hd, &zcash_primitives::transaction::sighash::SignableInput::Transparent(si), &parts);
        Some(secp256k1::Message::from_digest(*h.as_ref()))
    };
    let sel_s = |key: i64, j: i64, kc: Option<usize>, code: &[u8], ty: u8| -> String {
        let (val, spk) = match kc {
            Some(c) => (
                u64::from(asked.coins[c].1.value()) as i128,
                if v5 { format!("(Some {})", script_id(k, asked, &asked.coins[c].1.script_pubkey().0 .0)) } else { "None".to_string() },
            ),
            None => (-1, "None".to_string()),
        };
        format!("(mkSel {} {} {} {} {} {})", z(key as i128), z(j as i128), z(val), script_id(k, asked, code), spk, ty)
    };
    let mut out: Vec<String> = vec![];
    for (i, vin) in bundle.vin.iter().enumerate() {
        let kind = &asked.coins[i].2;
        let items = pushes_lenient(&vin.script_sig().0 .0).unwrap_or_default();
        let (sigs, cand_keys, exp_code): (Vec<Vec<u8>>, Vec<usize>, Vec<u8>) = match kind {
            CoinKind::P2pkh(_) => {
                if items.len() != 2 {
                    out.push("[]".into());
                    continue;
                }
                let ki = k.tpk.iter().position(|p| p.serialize().to_vec() == items[1]);
                (vec![items[0].clone()], ki.into_iter().collect(), asked.coins[i].1.script_pubkey().0 .0.clone())
            }
            CoinKind::P2sh(_, n, rs) => {
                if items.len() < 2 {
                    out.push("[]".into());
                    continue;
                }
                (items[1..items.len() - 1].to_vec(), (4..4 + *n as usize).collect(), rs.clone())
            }
            CoinKind::Raw(_) => {
                out.push("[]".into());
                continue;
            }
        };
        let mut sels: Vec<String> = vec![];
        for sg in &sigs {
            if sg.is_empty() {
                sels.push(sel_s(-1, -1, None, &exp_code, 0));
                continue;
            }
            let ty = sg[sg.len() - 1];
            let parsed = secp256k1::ecdsa::Signature::from_der(&sg[..sg.len() - 1]).ok();
            let verify_any = |msg: &secp256k1::Message| -> Option<usize> {
                let sgn = parsed.as_ref()?;
                cand_keys.iter().copied().find(|ki| secp.verify_ecdsa(msg, sgn, &k.tpk[*ki]).is_ok())
            };
            // expected selector first
            let mut found: Option<(usize, usize, usize, Vec<u8>)> = None;
            if let Some(m) = msg_for(i, i, &exp_code) {
                if let Some(ki) = verify_any(&m) {
                    found = Some((ki, i, i, exp_code.clone()));
                }
            }
            if found.is_none() && budget.get() > 0 {
                budget.set(budget.get() - 1);
                'search: for j in 0..nin {
                    for kc in 0..nin {
                        for code in &codes {
                            if let Some(m) = msg_for(j, kc, code) {
                                if let Some(ki) = verify_any(&m) {
                                    found = Some((ki, j, kc, code.clone()));
                                    break 'search;
                                }
                            }
                        }
                    }
                }
            }
            match found {
                Some((ki, j, kc, code)) => sels.push(sel_s(ki as i64, j as i64, Some(kc), &code, ty)),
                None => sels.push(sel_s(-1, -1, None, &exp_code, ty)),
            }
        }
        out.push(list(sels));
    }
    list(out)
}

/// Verify every transparent input's scriptSig signature under the sighash for *its* index and
/// the requested coin at that position.
fn check_sigs(tx: &Transaction, asked: &Asked, k: &Keys) -> bool {
    if tx.transparent_bundle().is_some_and(|b| b.is_coinbase()) {
        return asked.coins.is_empty(); // the single null input carries no signature
    }
    let data: TransactionData<zcash_primitives::transaction::Authorized> = tx.clone().into_data();
    let nin = data.transparent_bundle().map_or(0, |b| b.vin.len());
    if nin != asked.coins.len() {
        return false;
    }
    if nin == 0 {
        return true;
    }
    let amounts: Vec<Zatoshis> = asked.coins.iter().map(|c| c.1.value()).collect();
    let scripts: Vec<Script> = asked.coins.iter().map(|c| c.1.script_pubkey().clone()).collect();
    let hd: TransactionData<HUn> = data.map_bundles(
        |t| {
            t.map(|bd| transparent::bundle::Bundle {
                vin: bd
                    .vin
                    .iter()
                    .map(|i| TxIn::from_parts(i.prevout().clone(), i.script_sig().clone(), i.sequence()))
                    .collect(),
                vout: bd.vout.clone(),
                authorization: HAuth { amounts: amounts.clone(), scripts: scripts.clone() },
            })
        },
        |s| s,
        |o| o,
    );
    let parts = hd.digest(TxIdDigester);
    let secp = secp256k1::Secp256k1::verification_only();
    let bundle = hd.transparent_bundle().unwrap();
    for (i, vin) in bundle.vin.iter().enumerate() {
        let (op, coin, kind) = &asked.coins[i];
        if vin.prevout() != op {
            return false;
        }
        let ss: &Vec<u8> = &vin.script_sig().0 .0;
        let items = match pushes(ss) {
            Some(x) => x,
            None => return false,
        };
        let sighash_for = |script_code: &Script| -> Option<secp256k1::Message> {
            let si = SignableInput::from_parts(bundle, SighashType::ALL, i, script_code, coin.script_pubkey(), coin.value()).ok()?;
            let h = signature_hash(&hd, &zcash_primitives::transaction::sighash::SignableInput::Transparent(si), &parts);
            Some(secp256k1::Message::from_digest(*h.as_ref()))
        };
        let verify = |sig: &[u8], pk: &[u8], msg: &secp256k1::Message| -> bool {
            if sig.is_empty() || sig[sig.len() - 1] != 1 {
                return false;
            }
            let s = match secp256k1::ecdsa::Signature::from_der(&sig[..sig.len() - 1]) {
                Ok(s) => s,
                Err(_) => return false,
            };
            let pk = match secp256k1::PublicKey::from_slice(pk) {
                Ok(p) => p,
                Err(_) => return false,
            };
            secp.verify_ecdsa(msg, &s, &pk).is_ok()
        };
        match kind {
            CoinKind::P2pkh(ki) => {
                // <sig||hashtype> <pubkey>, the pubkey being the one the coin pays to
                if items.len() != 2 || items[1] != k.tpk[*ki].serialize().to_vec() {
                    return false;
                }
                let msg = match sighash_for(coin.script_pubkey()) {
                    Some(m) => m,
                    None => return false,
                };
                if !verify(&items[0], &items[1], &msg) {
                    return false;
                }
            }
            CoinKind::Raw(_) => return false,
            CoinKind::P2sh(m, n, redeem) => {
                // OP_0 <sig>*m <redeem script>; evaluated as OP_CHECKMULTISIG does: signatures and
                // the redeem script's public keys are consumed in lock step, in order.
                if items.len() != *m as usize + 2 || !items[0].is_empty() || &items[items.len() - 1] != redeem {
                    return false;
                }
                let code = Script(zcash_script::script::Code(redeem.clone()));
                let msg = match sighash_for(&code) {
                    Some(m) => m,
                    None => return false,
                };
                let sigs = &items[1..items.len() - 1];
                let pks: Vec<Vec<u8>> = (0..*n as usize).map(|j| k.tpk[4 + j].serialize().to_vec()).collect();
                let (mut isig, mut ikey) = (0usize, 0usize);
                while isig < sigs.len() {
                    if pks.len() - ikey < sigs.len() - isig {
                        return false;
                    }
                    if verify(&sigs[isig], &pks[ikey], &msg) {
                        isig += 1;
                    }
                    ikey += 1;
                }
            }
        }
    }
    true
}

fn orc_ivk(k: &Keys, ri: usize, change: bool) -> (orchard::keys::IncomingViewingKey, orchard::Address) {
    if change {
        (
            k.orc_fvk.to_ivk(orchard::keys::Scope::Internal),
            k.orc_fvk.address_at(0u32, orchard::keys::Scope::Internal),
        )
    } else {
        let f = &k.orc_recv[ri];
        (f.to_ivk(orchard::keys::Scope::External), f.address_at(0u32, orchard::keys::Scope::External))
    }
}

fn check_orchard_dec<A: orchard::bundle::Authorization, V>(
    bundle: Option<&orchard::Bundle<A, V>>,
    meta: &orchard::builder::BundleMetadata,
    outs: &[(usize, u64, MemoBytes, bool)],
    k: &Keys,
) -> bool {
    // Requested outputs are numbered plain outputs first, then change outputs.
    let mut order: Vec<&(usize, u64, MemoBytes, bool)> = outs.iter().filter(|o| !o.3).collect();
    order.extend(outs.iter().filter(|o| o.3));
    if order.is_empty() {
        return true;
    }
    let bundle = match bundle {
        Some(x) => x,
        None => return false,
    };
    for (j, (ri, v, memo, chg)) in order.iter().enumerate() {
        let idx = match meta.output_action_index(j) {
            Some(i) => i,
            None => return false,
        };
        let (ivk, addr) = orc_ivk(k, *ri, *chg);
        match bundle.decrypt_output_with_key(idx, &ivk) {
            Some((note, a, m)) => {
                if note.value().inner() != *v || a != addr || &m[..] != &memo.as_array()[..] {
                    return false;
                }
            }
            None => return false,
        }
    }
    true
}

fn sap_ivk(k: &Keys, ri: usize) -> sapling::keys::PreparedIncomingViewingKey {
    let dfvk = k.sap_recv[ri].0.to_diversifiable_full_viewing_key();
    sapling::keys::PreparedIncomingViewingKey::new(&dfvk.to_ivk(zip32::Scope::External))
}

fn check_sapling_dec<A: sapling::bundle::Authorization, V>(
    bundle: Option<&sapling::Bundle<A, V>>,
    meta: &sapling::builder::SaplingMetadata,
    outs: &[(usize, u64, MemoBytes)],
    k: &Keys,
    zip212: sapling::note_encryption::Zip212Enforcement,
) -> bool {
    if outs.is_empty() {
        return true;
    }
    let bundle = match bundle {
        Some(x) => x,
        None => return false,
    };
    for (j, (ri, v, memo)) in outs.iter().enumerate() {
        let idx = match meta.output_index(j) {
            Some(i) => i,
            None => return false,
        };
        let od = match bundle.shielded_outputs().get(idx) {
            Some(o) => o,
            None => return false,
        };
        match sapling::note_encryption::try_sapling_note_decryption(&sap_ivk(k, *ri), od, zip212) {
            Some((note, a, m)) => {
                if note.value().inner() != *v || a != k.sap_recv[*ri].1 || &m[..] != &memo.as_array()[..] {
                    return false;
                }
            }
            None => return false,
        }
    }
    true
}

// ---------------------------------------------------------------------------------------------
// Running one request

fn finish_pczt(
    res: PcztResult<Network>,
    asked: &Asked,
    iw_outs4: &[(usize, u64, MemoBytes, bool)],
    k: &Keys,
    zip212: sapling::note_encryption::Zip212Enforcement,
) -> Res {
    let PcztResult { pczt_parts: parts, sapling_meta, orchard_meta, ironwood_meta } = res;
                        let sap = parts.sapling.as_ref().map(|x| Shb {
                            nsp: x.spends().len(),
                            nout: x.outputs().len(),
                            vb: x.value_sum().to_raw(),
                            spv: x.spends().iter().map(|s| s.value().map(|v| v.inner())).collect(),
                            outv: x.outputs().iter().map(|s| s.value().map(|v| v.inner())).collect(),
                        });
                        let oshb = |x: &orchard::pczt::Bundle| Shb {
                            nsp: x.actions().len(),
                            nout: x.actions().len(),
                            vb: i64::try_from(*x.value_sum()).map(|v| v as i128).unwrap_or(i128::MAX),
                            spv: x.actions().iter().map(|a| a.spend().value().map(|v| v.inner())).collect(),
                            outv: x.actions().iter().map(|a| a.output().value().map(|v| v.inner())).collect(),
                        };
                        let orc = parts.orchard.as_ref().map(oshb);
                        let iw = parts.ironwood.as_ref().map(oshb);
                        let tin: Vec<(i128, i128)> = parts.transparent.as_ref().map_or(vec![], |t| {
                            t.inputs()
                                .iter()
                                .map(|i| {
                                    let sz = match i.redeem_script() {
                                        None => 150,
                                        Some(rs) => transparent::builder::p2sh_input_serialized_len(rs).map_or(-1, |x| x as i128),
                                    };
                                    (u64::from(*i.value()) as i128, sz)
                                })
                                .collect()
                        });
                        let tout: Vec<(u64, usize)> = parts.transparent.as_ref().map_or(vec![], |t| {
                            t.outputs()
                                .iter()
                                .map(|o| {
                                    let sc: Script = o.script_pubkey().clone().into();
                                    (u64::from(*o.value()), 8 + sc.serialized_size())
                                })
                                .collect()
                        });
                        // decryption through the effects-only bundles
                        let se = parts.sapling.as_ref().and_then(|x| x.extract_effects::<i64>().ok().flatten());
                        let oe = parts.orchard.as_ref().and_then(|x| x.extract_effects::<i64>().ok().flatten());
                        let ie = parts.ironwood.as_ref().and_then(|x| x.extract_effects::<i64>().ok().flatten());
                        let dec = check_sapling_dec(se.as_ref(), &sapling_meta, &asked.sap_outs, k, zip212)
                            && check_orchard_dec(oe.as_ref(), &orchard_meta, &asked.orc_outs, k)
                            && check_orchard_dec(ie.as_ref(), &ironwood_meta, &iw_outs4, k);
                        let (ver, branch, expiry, lock) =
                            (parts.version, u32::from(parts.consensus_branch_id), u32::from(parts.expiry_height), parts.lock_time);
                        // PCZT Creator: the header fields must survive `build_from_parts`.
                        let hdr_ok = match pczt::roles::creator::Creator::build_from_parts(parts) {
                            Some(p) => {
                                *p.global().expiry_height() == expiry
                                    && *p.global().consensus_branch_id() == branch
                                    && *p.global().tx_version()
                                        == match ver {
                                            TxVersion::V4 => 4,
                                            TxVersion::V5 => 5,
                                            TxVersion::V6 => 6,
                                            _ => 0,
                                        }
                                    && p.transparent().inputs().len() == tin.len()
                                    && p.transparent().outputs().len() == tout.len()
                                    && p.sapling().outputs().len() == sap.as_ref().map_or(0, |s| s.nout)
                                    && p.orchard().actions().len() == orc.as_ref().map_or(0, |s| s.nout)
                                    && p.ironwood().actions().len() == iw.as_ref().map_or(0, |s| s.nout)
                            }
                            None => matches!(ver, TxVersion::Sprout(_) | TxVersion::V3),
                        };
    Res::Ok(Built { ver, branch, expiry, lock, tin, tout, sap, orc, iw, fee_paid: None, dec, sig: hdr_ok, sels: "[]".into() })
}


thread_local! {
    // number of failing signatures for which the full selector search is run (it is slow)
    static SEARCH_BUDGET: std::rc::Rc<std::cell::Cell<u32>> = std::rc::Rc::new(std::cell::Cell::new(40));
}

enum Res {
    Ok(Built),
    Err(String),
    AddErr(usize, String),
    Panic,
}

/// The anchor-deferring PCZT builder (what zcash_pool_migration uses): Orchard and Ironwood only,
/// spends added without witnesses.
fn run_deferred(
    req: &Req,
    k: &Keys,
    probe: &Probe,
    brng: ChaCha8Rng,
    mut onotes: Vec<(orchard::Note, orchard::tree::MerklePath)>,
    mut inotes: Vec<(orchard::Note, orchard::tree::MerklePath)>,
    zip212: sapling::note_encryption::Zip212Enforcement,
) -> Res {
    use zcash_primitives::transaction::builder::DeferredPcztBuilder;
    let mut bld = match DeferredPcztBuilder::new::<ProbeErr>(
        req.net,
        BlockHeight::from_u32(req.height),
        BundlePadding { bundle_required: req.opad.0, pad_to_minimum: req.opad.1 },
        BundlePadding { bundle_required: req.ipad.0, pad_to_minimum: req.ipad.1 },
    ) {
        Ok(b) => b,
        Err(e) => return Res::Err(berr_s(&e)),
    };
    let mut asked = Asked::default();
    let (mut noo, mut nio) = (0usize, 0usize);
    for (i, o) in req.ops.iter().enumerate() {
        let e: Result<(), String> = match o {
            Op::OSpend(_) => {
                let (note, _) = onotes.pop().unwrap();
                bld.add_orchard_spend::<ProbeErr>(k.orc_fvk.clone(), note).map_err(|e| berr_s(&e))
            }
            Op::OOut(v) => {
                let ri = noo % k.orc_recv.len();
                let memo = memo_for(b'o', noo, *v);
                noo += 1;
                let (_, addr) = orc_ivk(k, ri, false);
                let r = bld
                    .add_orchard_output::<ProbeErr>(None, addr, Zatoshis::from_u64(*v).unwrap(), memo.clone())
                    .map_err(|e| berr_s(&e));
                if r.is_ok() {
                    asked.orc_outs.push((ri, *v, memo, false));
                }
                r
            }
            Op::OChange(v) => {
                let memo = memo_for(b'c', noo, *v);
                noo += 1;
                let (_, addr) = orc_ivk(k, 0, true);
                let r = bld
                    .add_orchard_change_output::<ProbeErr>(k.orc_fvk.clone(), None, addr, Zatoshis::from_u64(*v).unwrap(), memo.clone())
                    .map_err(|e| berr_s(&e));
                if r.is_ok() {
                    asked.orc_outs.push((0, *v, memo, true));
                }
                r
            }
            Op::ISpend(_, _) => {
                let (note, _) = inotes.pop().unwrap();
                bld.add_ironwood_spend::<ProbeErr>(k.orc_fvk.clone(), note).map_err(|e| berr_s(&e))
            }
            Op::IOut(v) => {
                let ri = nio % k.orc_recv.len();
                let memo = memo_for(b'i', nio, *v);
                nio += 1;
                let (_, addr) = orc_ivk(k, ri, false);
                let r = bld
                    .add_ironwood_output::<ProbeErr>(None, addr, Zatoshis::from_u64(*v).unwrap(), memo.clone())
                    .map_err(|e| berr_s(&e));
                if r.is_ok() {
                    asked.iw_outs.push((ri, *v, memo));
                }
                r
            }
            Op::Expiry(h) => {
                bld = bld.with_expiry_height(BlockHeight::from_u32(*h));
                Ok(())
            }
            // not part of this builder's interface
            _ => Err("EOther".to_string()),
        };
        if let Err(s) = e {
            return Res::AddErr(i, s);
        }
    }
    let iw_outs4: Vec<(usize, u64, MemoBytes, bool)> = asked.iw_outs.iter().map(|(a, v, m)| (*a, *v, m.clone(), false)).collect();
    let out: Result<PcztResult<Network>, String> = match &req.rule {
        Rule::Zip317 => bld.build_for_pczt(brng, &zip317::FeeRule::standard()).map_err(|e| berr_s(&e)),
        Rule::Lin(_) => bld.build_for_pczt(brng, probe).map_err(|e| berr_s(&e)),
    };
    match out {
        Err(s) => Res::Err(s),
        Ok(res) => finish_pczt(res, &asked, &iw_outs4, k, zip212),
    }
}

fn run(req: &Req, k: &Keys, r: &mut Rng) -> (Option<Seen>, Res) {
    let height = BlockHeight::from_u32(req.height);
    // notes to be spent (anchors must be known before the builder exists)
    let svals: Vec<u64> = req.ops.iter().filter_map(|o| if let Op::SSpend(v) = o { Some(*v) } else { None }).collect();
    let ovals: Vec<(u64, orchard::note::NoteVersion)> = req
        .ops
        .iter()
        .filter_map(|o| if let Op::OSpend(v) = o { Some((*v, orchard::note::NoteVersion::V2)) } else { None })
        .collect();
    let ivals: Vec<(u64, orchard::note::NoteVersion)> = req
        .ops
        .iter()
        .filter_map(|o| {
            if let Op::ISpend(v, n3) = o {
                Some((*v, if *n3 { orchard::note::NoteVersion::V3 } else { orchard::note::NoteVersion::V2 }))
            } else {
                None
            }
        })
        .collect();
    let (mut snotes, sanchor) = sapling_notes(k, &svals, r);
    let (mut onotes, oanchor) = orchard_notes(k, &ovals, r);
    let (mut inotes, ianchor) = orchard_notes(k, &ivals, r);
    snotes.reverse();
    onotes.reverse();
    inotes.reverse();

    let cfg = if req.coinbase {
        BuildConfig::Coinbase { miner_data: None }
    } else {
        BuildConfig::Standard {
            sapling_anchor: if req.sap { Some(sanchor) } else { None },
            orchard_anchor: if req.orc { Some(oanchor) } else { None },
            ironwood_anchor: if req.iw { Some(ianchor) } else { None },
            orchard_padding: BundlePadding { bundle_required: req.opad.0, pad_to_minimum: req.opad.1 },
            ironwood_padding: BundlePadding { bundle_required: req.ipad.0, pad_to_minimum: req.ipad.1 },
        }
    };
    let case_tag = r.bytes(32);
    let brng = ChaCha8Rng::seed_from_u64(r.u64());
    let probe = Probe {
        c: match &req.rule {
            Rule::Lin(c) => *c,
            Rule::Zip317 => [0; 7],
        },
        seen: RefCell::new(None),
    };
    let zip212 = zip212_enforcement(&req.net, height);

    if req.route == Route::Deferred {
        let res = catch(|| run_deferred(req, k, &probe, brng.clone(), onotes.clone(), inotes.clone(), zip212));
        let seen = probe.seen.borrow().clone();
        return (seen, res.unwrap_or(Res::Panic));
    }

    let res = catch(|| -> Res {
        let mut bld = Builder::new(req.net, height, cfg);
        let mut asked = Asked::default();
        let (mut nti, mut nso, mut noo, mut nio) = (0usize, 0usize, 0usize, 0usize);
        for (i, o) in req.ops.iter().enumerate() {
            let e: Result<(), String> = match o {
                Op::TIn(v) => {
                    let ki = nti % k.tpk.len();
                    let mut h = [0u8; 32];
                    h.copy_from_slice(&case_tag);
                    h[0] = nti as u8;
                    let op = OutPoint::new(h, nti as u32);
                    let coin = TxOut::new(
                        Zatoshis::from_u64(*v).unwrap(),
                        TransparentAddress::from_pubkey(&k.tpk[ki]).script().into(),
                    );
                    nti += 1;
                    asked.coins.push((op.clone(), coin.clone(), CoinKind::P2pkh(ki)));
                    bld.add_transparent_p2pkh_input(k.tpk[ki], op, coin).map_err(|_| "ETransparentBuild".to_string())
                }
                Op::TInSh(v, m, n) => {
                    let rs = redeem_script(k, *m, *n);
                    let mut h = [0u8; 32];
                    h.copy_from_slice(&case_tag);
                    h[0] = nti as u8;
                    let op = OutPoint::new(h, nti as u32);
                    let coin = TxOut::new(
                        Zatoshis::from_u64(*v).unwrap(),
                        TransparentAddress::ScriptHash(transparent::util::hash160::hash(&rs)).script().into(),
                    );
                    nti += 1;
                    asked.coins.push((op.clone(), coin.clone(), CoinKind::P2sh(*m, *n, rs.clone())));
                    match zcash_script::script::FromChain::parse(&zcash_script::script::Code(rs)) {
                        Ok(fc) => bld.add_transparent_p2sh_input(fc, op, coin).map_err(|_| "ETransparentBuild".to_string()),
                        Err(_) => Err("EOther".to_string()),
                    }
                }
                Op::TInRaw(v) => {
                    let rs = vec![0x51u8];
                    let mut h = [0u8; 32];
                    h.copy_from_slice(&case_tag);
                    h[0] = nti as u8;
                    let op = OutPoint::new(h, nti as u32);
                    let coin = TxOut::new(
                        Zatoshis::from_u64(*v).unwrap(),
                        TransparentAddress::ScriptHash(transparent::util::hash160::hash(&rs)).script().into(),
                    );
                    nti += 1;
                    asked.coins.push((op.clone(), coin.clone(), CoinKind::Raw(rs.clone())));
                    match zcash_script::script::FromChain::parse(&zcash_script::script::Code(rs)) {
                        Ok(fc) => bld.add_transparent_p2sh_input(fc, op, coin).map_err(|_| "ETransparentBuild".to_string()),
                        Err(_) => Err("EOther".to_string()),
                    }
                }
                Op::TOut(v, p2sh) => {
                    let a = if *p2sh {
                        TransparentAddress::ScriptHash([0x5a; 20])
                    } else {
                        TransparentAddress::PublicKeyHash([0x3c; 20])
                    };
                    bld.add_transparent_output(&a, Zatoshis::from_u64(*v).unwrap())
                        .map_err(|_| "ETransparentBuild".to_string())
                }
                Op::TNull(n) => bld
                    .add_transparent_null_data_output::<ProbeErr>(&vec![0xaa; *n])
                    .map_err(|e| berr_s(&e)),
                Op::SSpend(_) => {
                    let (note, path) = snotes.pop().unwrap();
                    let fvk = k.sap_extsk.to_diversifiable_full_viewing_key().fvk().clone();
                    bld.add_sapling_spend::<ProbeErr>(fvk, note, path).map_err(|e| berr_s(&e))
                }
                Op::SOut(v) => {
                    let ri = nso % k.sap_recv.len();
                    let memo = memo_for(b's', nso, *v);
                    nso += 1;
                    let r = bld
                        .add_sapling_output::<ProbeErr>(None, k.sap_recv[ri].1, Zatoshis::from_u64(*v).unwrap(), memo.clone())
                        .map_err(|e| berr_s(&e));
                    if r.is_ok() {
                        asked.sap_outs.push((ri, *v, memo));
                    }
                    r
                }
                Op::OSpend(_) => {
                    let (note, path) = onotes.pop().unwrap();
                    bld.add_orchard_spend::<ProbeErr>(k.orc_fvk.clone(), note, path).map_err(|e| berr_s(&e))
                }
                Op::OOut(v) => {
                    let ri = noo % k.orc_recv.len();
                    let memo = memo_for(b'o', noo, *v);
                    noo += 1;
                    let (_, addr) = orc_ivk(k, ri, false);
                    let r = bld
                        .add_orchard_output::<ProbeErr>(None, addr, Zatoshis::from_u64(*v).unwrap(), memo.clone())
                        .map_err(|e| berr_s(&e));
                    if r.is_ok() {
                        asked.orc_outs.push((ri, *v, memo, false));
                    }
                    r
                }
                Op::OChange(v) => {
                    let memo = memo_for(b'c', noo, *v);
                    noo += 1;
                    let (_, addr) = orc_ivk(k, 0, true);
                    let r = bld
                        .add_orchard_change_output::<ProbeErr>(
                            k.orc_fvk.clone(),
                            None,
                            addr,
                            Zatoshis::from_u64(*v).unwrap(),
                            memo.clone(),
                        )
                        .map_err(|e| berr_s(&e));
                    if r.is_ok() {
                        asked.orc_outs.push((0, *v, memo, true));
                    }
                    r
                }
                Op::ISpend(_, _) => {
                    let (note, path) = inotes.pop().unwrap();
                    bld.add_ironwood_spend::<ProbeErr>(k.orc_fvk.clone(), note, path).map_err(|e| berr_s(&e))
                }
                Op::IOut(v) => {
                    let ri = nio % k.orc_recv.len();
                    let memo = memo_for(b'i', nio, *v);
                    nio += 1;
                    let (_, addr) = orc_ivk(k, ri, false);
                    let r = bld
                        .add_ironwood_output::<ProbeErr>(None, addr, Zatoshis::from_u64(*v).unwrap(), memo.clone())
                        .map_err(|e| berr_s(&e));
                    if r.is_ok() {
                        asked.iw_outs.push((ri, *v, memo));
                    }
                    r
                }
                Op::Propose(v) => bld.propose_version::<ProbeErr>(ver_t(*v)).map_err(|e| berr_s(&e)),
                Op::Expiry(h) => {
                    bld = bld.with_expiry_height(BlockHeight::from_u32(*h));
                    Ok(())
                }
            };
            if let Err(s) = e {
                return Res::AddErr(i, s);
            }
        }

        let extsks = [k.sap_extsk.clone()];
        let saks = [orchard::keys::SpendAuthorizingKey::from(&k.orc_sk)];
        let coins: BTreeMap<OutPoint, Zatoshis> =
            asked.coins.iter().map(|(op, c, _)| (op.clone(), c.value())).collect();
        // signing set of this case: the P2PKH keys, then the multisig keys in the requested order
        let mut signing = TransparentSigningSet::new();
        for ki in 0..4 {
            signing.add_key(k.tsk[ki]);
        }
        for ki in &req.keys {
            signing.add_key(k.tsk[*ki as usize]);
        }
        let iw_outs4: Vec<(usize, u64, MemoBytes, bool)> =
            asked.iw_outs.iter().map(|(a, v, m)| (*a, *v, m.clone(), false)).collect();

        let finish_tx = |res: zcash_primitives::transaction::builder::BuildResult| -> Res {
            let tx = res.transaction();
            let shb_s = |bd: Option<&sapling::Bundle<sapling::bundle::Authorized, zcash_protocol::value::ZatBalance>>| {
                bd.map(|x| Shb {
                    nsp: x.shielded_spends().len(),
                    nout: x.shielded_outputs().len(),
                    vb: i64::from(*x.value_balance()) as i128,
                    spv: None,
                    outv: None,
                })
            };
            let shb_o = |bd: Option<&orchard::Bundle<orchard::bundle::Authorized, zcash_protocol::value::ZatBalance>>| {
                bd.map(|x| Shb {
                    nsp: x.actions().len(),
                    nout: x.actions().len(),
                    vb: i64::from(*x.value_balance()) as i128,
                    spv: None,
                    outv: None,
                })
            };
            let fee_paid = match tx.fee_paid(|op| Ok::<_, BalanceError>(coins.get(op).copied())) {
                Ok(Some(f)) => Some(u64::from(f) as i128),
                Ok(None) => None,
                Err(_) => Some(-1),
            };
            let dec = check_sapling_dec(tx.sapling_bundle(), res.sapling_meta(), &asked.sap_outs, k, zip212)
                && check_orchard_dec(tx.orchard_bundle(), res.orchard_meta(), &asked.orc_outs, k)
                && check_orchard_dec(tx.ironwood_bundle(), res.ironwood_meta(), &iw_outs4, k);
            let sig = check_sigs(tx, &asked, k);
            let sels = observe_sels(tx, &asked, k, &SEARCH_BUDGET.with(|b| b.clone()));
            Res::Ok(Built {
                ver: tx.version(),
                branch: u32::from(tx.consensus_branch_id()),
                expiry: u32::from(tx.expiry_height()),
                lock: tx.lock_time(),
                tin: tx.transparent_bundle().filter(|bd| !bd.is_coinbase()).map_or(vec![], |bd| {
                    bd.vin
                        .iter()
                        .map(|i| {
                            (coins.get(i.prevout()).map_or(-1, |v| u64::from(*v) as i128), charged_size_of_script_sig(&i.script_sig().0 .0))
                        })
                        .collect()
                }),
                tout: tx.transparent_bundle().map_or(vec![], |bd| {
                    bd.vout.iter().map(|o| (u64::from(o.value()), 8 + o.script_pubkey().serialized_size())).collect()
                }),
                sap: shb_s(tx.sapling_bundle()),
                orc: shb_o(tx.orchard_bundle()),
                iw: shb_o(tx.ironwood_bundle()),
                fee_paid,
                dec,
                sig,
                sels,
            })
        };

        match req.route {
            Route::Mock => match bld.mock_build(&signing, &extsks, &saks, brng) {
                Ok(res) => finish_tx(res),
                Err(e) => Res::Err(berr_s(&e)),
            },
            Route::Build => {
                let sp = sapling::prover::mock::MockSpendProver;
                let opv = sapling::prover::mock::MockOutputProver;
                let out = match &req.rule {
                    Rule::Zip317 => bld
                        .build(&signing, &extsks, &saks, brng, &sp, &opv, &zip317::FeeRule::standard())
                        .map_err(|e| berr_s(&e)),
                    Rule::Lin(_) => bld.build(&signing, &extsks, &saks, brng, &sp, &opv, &probe).map_err(|e| berr_s(&e)),
                };
                match out {
                    Ok(res) => finish_tx(res),
                    Err(s) => Res::Err(s),
                }
            }
            Route::Deferred => unreachable!(),
            Route::Pczt => {
                let out: Result<PcztResult<Network>, String> = match &req.rule {
                    Rule::Zip317 => bld.build_for_pczt(brng, &zip317::FeeRule::standard()).map_err(|e| berr_s(&e)),
                    Rule::Lin(_) => bld.build_for_pczt(brng, &probe).map_err(|e| berr_s(&e)),
                };
                match out {
                    Err(s) => Res::Err(s),
                    Ok(res) => finish_pczt(res, &asked, &iw_outs4, k, zip212),
                }
            }
        }
    });
    let seen = probe.seen.borrow().clone();
    (seen, res.unwrap_or(Res::Panic))
}

fn emit(req: &Req, k: &Keys, r: &mut Rng, stats: &mut BTreeMap<String, u64>) -> (Option<Seen>, Res) {
    let (seen, res) = run(req, k, r);
    let o = match &res {
        Res::Ok(x) => {
            *stats.entry("ok".into()).or_default() += 1;
            ok(built_s(x))
        }
        Res::Err(s) => {
            *stats.entry(format!("err:{}", s.split(' ').next().unwrap())).or_default() += 1;
            format!("(Err ({}))", s)
        }
        Res::AddErr(i, s) => {
            *stats.entry(format!("add:{}", s.split(' ').next().unwrap())).or_default() += 1;
            format!("(Err (EAdd {} ({})))", i, s)
        }
        Res::Panic => {
            *stats.entry("panic".into()).or_default() += 1;
            PANIC.into()
        }
    };
    *stats.entry(format!("route:{:?}", req.route)).or_default() += 1;
    let sels = match &res {
        Res::Ok(x) => x.sels.clone(),
        _ => "[]".to_string(),
    };
    case(format!("Case {} {} {} {}", req_s(req), seen_s(&seen), sels, o));
    (seen, res)
}

// ---------------------------------------------------------------------------------------------
// Generators

fn heights(net: Network) -> Vec<u32> {
    let mut v = vec![];
    for nu in [
        NetworkUpgrade::Overwinter,
        NetworkUpgrade::Sapling,
        NetworkUpgrade::Canopy,
        NetworkUpgrade::Nu5,
        NetworkUpgrade::Nu6,
        NetworkUpgrade::Nu6_1,
        NetworkUpgrade::Nu6_2,
        NetworkUpgrade::Nu6_3,
    ] {
        if let Some(h) = net.activation_height(nu) {
            let h = u32::from(h);
            v.extend([h - 1, h, h + 1]);
        }
    }
    let c = u32::from(net.activation_height(NetworkUpgrade::Canopy).unwrap());
    v.extend([c + 32_255, c + 32_256, c + 32_257]);
    v.extend([1, 100_000, 5_000_000]);
    v
}


fn has_orchard_ops(req: &Req) -> bool {
    req.ops.iter().any(|o| matches!(o, Op::OSpend(_) | Op::OOut(_) | Op::OChange(_) | Op::ISpend(..) | Op::IOut(_)))
}
/// A successful build on a transaction route would create a real Orchard proof.
fn may_prove(req: &Req) -> bool {
    req.route != Route::Pczt && req.route != Route::Deferred && !req.coinbase && (has_orchard_ops(req) || (req.orc && req.opad.0) || (req.iw && req.ipad.0))
}

fn value(r: &mut Rng) -> u64 {
    match r.below(20) {
        0 => 0,
        1 => 1,
        2 => MAX_MONEY,
        3 => MAX_MONEY - r.below(100_000),
        4 => r.below(MAX_MONEY + 1),
        5 => 5_000 * r.range(1, 8),
        _ => r.range(1, 400_000),
    }
}
fn note_value(r: &mut Rng) -> u64 {
    match r.below(40) {
        0 => u64::MAX,
        1 => u64::MAX - r.below(1000),
        2 => MAX_MONEY + 1 + r.below(MAX_MONEY),
        3 => (1u64 << 63) + r.below(5) - 2,
        _ => value(r),
    }
}

const PADS: [(bool, Option<u8>); 9] = [
    (false, None),
    (false, None),
    (false, Some(1)),
    (true, None),
    (false, Some(0)),
    (true, Some(0)),
    (false, Some(3)),
    (true, Some(1)),
    (false, Some(2)),
];

fn gen_req(r: &mut Rng) -> Req {
    let net = if r.bool() { Network::MainNetwork } else { Network::TestNetwork };
    let hs = heights(net);
    let nu5 = u32::from(net.activation_height(NetworkUpgrade::Nu5).unwrap());
    let nu63 = u32::from(net.activation_height(NetworkUpgrade::Nu6_3).unwrap());
    let height = match r.below(10) {
        0..=4 => *r.pick(&hs),
        5..=6 => r.range(nu63 as u64, nu63 as u64 + 200_000) as u32,
        7..=8 => r.range(nu5 as u64, nu63 as u64) as u32,
        _ => r.range(1, nu63 as u64 + 1_000_000) as u32,
    };
    let tx_friendly = r.chance(2, 5); // no Orchard-family bundle can arise: cheap on the transaction routes
    let sap = r.chance(4, 5);
    let orc = r.chance(4, 5);
    let iw = r.chance(4, 5);
    let mut opad = *r.pick(&PADS);
    let mut ipad = *r.pick(&PADS);
    if tx_friendly {
        opad.0 = false;
        ipad.0 = false;
    }
    let branch = BranchId::for_height(&net, BlockHeight::from_u32(height));
    let at63 = branch == BranchId::Nu6_3;
    let mostly_valid = r.chance(17, 20);
    let orc_ok = orc && height >= nu5;
    let iw_ok = iw && at63;
    let mut ops: Vec<Op> = vec![];
    let small = r.chance(1, 2); // small values only (so that balancing is usually possible)
    let mut val = |r: &mut Rng| if small { r.range(0, 300_000) } else { value(r) };
    if r.chance(3, 5) {
        for _ in 0..r.below(4) {
            if r.chance(1, 4) {
                if r.chance(1, 6) {
                    ops.push(Op::TInRaw(val(r)));
                } else {
                    let (m, n) = *r.pick(&[(1u8, 1u8), (2, 2), (2, 3), (1, 2), (3, 3), (1, 3), (3, 5), (2, 7), (7, 7), (8, 9), (1, 15), (14, 15)]);
                    ops.push(Op::TInSh(val(r), m, n));
                }
            } else {
                ops.push(Op::TIn(val(r)));
            }
        }
        for _ in 0..r.below(4) {
            ops.push(Op::TOut(val(r), r.chance(1, 3)));
        }
        if r.chance(1, 4) {
            ops.push(Op::TNull(*r.pick(&[0usize, 1, 2, 20, 33, 74, 75, 76, 80, 81])));
        }
    }
    if r.chance(1, 2) && (sap || !mostly_valid) {
        for _ in 0..r.below(3) {
            ops.push(Op::SSpend(if small { r.range(0, 300_000) } else { note_value(r) }));
        }
        for _ in 0..r.below(4) {
            ops.push(Op::SOut(val(r)));
        }
    }
    if !tx_friendly && r.chance(1, 2) && (orc_ok || !mostly_valid) {
        for _ in 0..r.below(3) {
            ops.push(Op::OSpend(if small { r.range(0, 300_000) } else { note_value(r) }));
        }
        for _ in 0..r.below(3) {
            if at63 && mostly_valid || r.chance(1, 4) {
                ops.push(Op::OChange(val(r)));
            } else {
                ops.push(Op::OOut(val(r)));
            }
        }
    }
    if !tx_friendly && r.chance(1, 2) && (iw_ok || !mostly_valid) {
        for _ in 0..r.below(3) {
            ops.push(Op::ISpend(if small { r.range(0, 300_000) } else { note_value(r) }, r.chance(9, 10)));
        }
        for _ in 0..r.below(3) {
            ops.push(Op::IOut(val(r)));
        }
    }
    // shuffle
    for i in (1..ops.len()).rev() {
        let j = r.below(i as u64 + 1) as usize;
        ops.swap(i, j);
    }
    if r.chance(1, 4) {
        let v = *r.pick(&[Ver::V3, Ver::V4, Ver::V4, Ver::V5, Ver::V5, Ver::V6, Ver::V6]);
        let pos = r.below(ops.len() as u64 + 1) as usize;
        ops.insert(pos, Op::Propose(v));
    }
    if r.chance(1, 7) {
        let h = *r.pick(&[0u32, 1, height, height + 1, u32::MAX, 499_999_999]);
        let pos = r.below(ops.len() as u64 + 1) as usize;
        ops.insert(pos, Op::Expiry(h));
    }
    let rule = match r.below(10) {
        0..=4 => Rule::Zip317,
        5..=6 => Rule::Lin([*r.pick(&[0u64, 1, 1000, 10_000, 10_000, 123_456]), 0, 0, 0, 0, 0, 0]),
        7..=8 => Rule::Lin([
            *r.pick(&[0u64, 1000, 10_000]),
            *r.pick(&[0u64, 1, 7]),
            *r.pick(&[0u64, 1, 9]),
            *r.pick(&[0u64, 5000, 1234]),
            *r.pick(&[0u64, 5000, 4321]),
            *r.pick(&[0u64, 5000, 777]),
            *r.pick(&[0u64, 5000, 999]),
        ]),
        _ => Rule::Lin([*r.pick(&[MAX_MONEY, MAX_MONEY - 1, MAX_MONEY + 1, MAX_MONEY / 2 + 1]), 0, 0, *r.pick(&[0u64, 1]), 0, 0, 0]),
    };
    let route = match (&rule, r.below(10), tx_friendly) {
        (Rule::Zip317, 0..=3, _) | (Rule::Zip317, 4..=5, true) => Route::Mock,
        (_, 0..=5, _) | (_, 6..=8, true) => Route::Build,
        _ => Route::Pczt,
    };
    let keys: Vec<u8> = match r.below(8) {
        0..=2 => (4..19).collect(),
        3 => (4..19).rev().collect(),
        4 => {
            let mut v: Vec<u8> = (4..19).collect();
            for i in (1..v.len()).rev() {
                let j = r.below(i as u64 + 1) as usize;
                v.swap(i, j);
            }
            v.truncate(r.range(0, 15) as usize);
            v
        }
        5 => vec![6, 5, 4],
        6 => vec![4, 6],
        _ => vec![],
    };
    // a coinbase transaction: no inputs, no change, no fee; the request is made on a transaction route
    let coinbase = r.chance(1, 14);
    let mut ops = ops;
    let mut route = route;
    if coinbase {
        let keep_orchard_outputs = ops.iter().any(|o| matches!(o, Op::TIn(_) | Op::TInSh(..) | Op::TInRaw(_)));
        ops.retain(|o| match o {
            // a successful build with Orchard-family outputs would create a real proof
            Op::OOut(_) | Op::OChange(_) | Op::IOut(_) => keep_orchard_outputs,
            Op::TIn(_) | Op::TInSh(..) | Op::TInRaw(_) | Op::SSpend(_) | Op::OSpend(_) | Op::ISpend(..) => true,
            _ => true,
        });
        if !r.chance(1, 5) {
            // mostly valid: only outputs
            ops.retain(|o| !matches!(o, Op::TIn(_) | Op::TInSh(..) | Op::TInRaw(_) | Op::SSpend(_) | Op::OSpend(_) | Op::ISpend(..) | Op::OOut(_) | Op::OChange(_) | Op::IOut(_)));
        }
        if route == Route::Pczt {
            route = Route::Build;
        }
    }
    Req { net, height, sap, orc, iw, opad, ipad, keys, ops, rule, route, coinbase }
}

/// Model-free balancing: use the amount the builder itself reports.
fn adjust(req: &Req, amount: i128, insufficient: bool, r: &mut Rng) -> Option<Req> {
    let mut q = req.clone();
    let amt = amount as u64;
    let is_in = |o: &Op| matches!(o, Op::TIn(_) | Op::TInSh(..) | Op::TInRaw(_) | Op::SSpend(_) | Op::OSpend(_) | Op::ISpend(..));
    let is_out = |o: &Op| matches!(o, Op::TOut(..) | Op::SOut(_) | Op::OOut(_) | Op::OChange(_) | Op::IOut(_));
    let bump = |o: &mut Op, d: i128| -> bool {
        let v: &mut u64 = match o {
            Op::TIn(v) | Op::TInSh(v, _, _) | Op::TInRaw(v) | Op::SSpend(v) | Op::OSpend(v) | Op::ISpend(v, _) | Op::TOut(v, _) | Op::SOut(v) | Op::OOut(v)
            | Op::OChange(v) | Op::IOut(v) => v,
            _ => return false,
        };
        let n = *v as i128 + d;
        if n < 0 || n > MAX_MONEY as i128 {
            return false;
        }
        *v = n as u64;
        true
    };
    let ins: Vec<usize> = (0..q.ops.len()).filter(|i| is_in(&q.ops[*i])).collect();
    let outs: Vec<usize> = (0..q.ops.len()).filter(|i| is_out(&q.ops[*i])).collect();
    let _ = amt;
    if insufficient {
        // need `amount` more input, or `amount` less output
        if !ins.is_empty() && (outs.is_empty() || r.bool()) {
            let i = *r.pick(&ins);
            if bump(&mut q.ops[i], amount) {
                return Some(q);
            }
        }
        for i in outs {
            if bump(&mut q.ops[i], -amount) {
                return Some(q);
            }
        }
        if q.ops.len() < 12 {
            if q.route == Route::Deferred {
                q.ops.push(Op::ISpend(amount.min(MAX_MONEY as i128) as u64, true));
            } else {
                q.ops.push(Op::TIn(amount.min(MAX_MONEY as i128) as u64));
            }
            return Some(q);
        }
        None
    } else {
        if !outs.is_empty() && (ins.is_empty() || r.bool()) {
            let i = *r.pick(&outs);
            if bump(&mut q.ops[i], amount) {
                return Some(q);
            }
        }
        for i in ins {
            if bump(&mut q.ops[i], -amount) {
                return Some(q);
            }
        }
        None
    }
}

fn run_with_balancing(req: Req, k: &Keys, r: &mut Rng, stats: &mut BTreeMap<String, u64>, allow_prove: bool) {
    run_with_balancing_v(req, k, r, stats, allow_prove, false)
}
fn run_with_balancing_v(req: Req, k: &Keys, r: &mut Rng, stats: &mut BTreeMap<String, u64>, allow_prove: bool, all: bool) {
    let (_, res) = emit(&req, k, r, stats);
    let (amt, insuff) = match res {
        Res::Err(s) if s.starts_with("EInsufficient ") => (s[14..].trim_matches(|c| c == '(' || c == ')').parse::<i128>().unwrap(), true),
        Res::Err(s) if s.starts_with("EChange ") => (s[8..].trim_matches(|c| c == '(' || c == ')').parse::<i128>().unwrap(), false),
        _ => return,
    };
    // exactly balanced, and off by one in both directions
    for d in [0i128, 1, -1] {
        if d != 0 && !all && !r.chance(1, 3) {
            continue;
        }
        if amt + d <= 0 {
            continue;
        }
        if let Some(mut q) = adjust(&req, amt + d, insuff, r) {
            if may_prove(&q) && !allow_prove {
                q.route = Route::Pczt;
            }
            emit(&q, k, r, stats);
        }
    }
}

fn lattice_version(k: &Keys, r: &mut Rng, stats: &mut BTreeMap<String, u64>) {
    for net in [Network::MainNetwork, Network::TestNetwork] {
        let hs: Vec<u32> = heights(net)
            .into_iter()
            .enumerate()
            .filter(|(i, _)| i % 3 != 2 || *i >= 24)
            .map(|(_, h)| h)
            .collect();
        for h in hs {
            for pv in [None, Some(Ver::V3), Some(Ver::V4), Some(Ver::V5), Some(Ver::V6)] {
                for pat in 0..5 {
                    let mut ops = match pat {
                        0 => vec![Op::TIn(0)],
                        1 => vec![Op::SOut(0)],
                        2 => vec![Op::OOut(0)],
                        3 => vec![Op::OChange(0)],
                        _ => vec![Op::IOut(0)],
                    };
                    // propose before or after the pool is in use
                    if let Some(v) = pv {
                        if (h + pat) % 2 == 0 {
                            ops.push(Op::Propose(v));
                        } else {
                            ops.insert(0, Op::Propose(v));
                        }
                    }
                    let route = if (h / 2 + pat) % 2 == 0 { Route::Pczt } else { Route::Build };
                    let req = Req {
                        net,
                        height: h,
                        sap: true,
                        orc: true,
                        iw: true,
                        opad: (false, None),
                        ipad: (false, None),
                        keys: vec![4, 5, 6],
                        ops,
                        // the tx routes stay unbalanced (one zatoshi short): no proving, gate still observable
                        rule: Rule::Lin([if route == Route::Pczt { 0 } else { 1 }, 0, 0, 0, 0, 0, 0]),
                        route,
                        coinbase: false,
                    };
                    emit(&req, k, r, stats);
                }
            }
        }
    }
}

fn lattice_padding(k: &Keys, r: &mut Rng, stats: &mut BTreeMap<String, u64>) {
    // all values zero and a zero fee: every request is balanced, so the built shape is observed
    for net in [Network::MainNetwork] {
        let hs: Vec<u32> = [NetworkUpgrade::Nu5, NetworkUpgrade::Nu6_2, NetworkUpgrade::Nu6_3]
            .iter()
            .map(|nu| u32::from(net.activation_height(*nu).unwrap()))
            .collect();
        for h in hs {
            for pad in [(false, None), (false, Some(0)), (false, Some(1)), (false, Some(3)), (true, None), (true, Some(0)), (true, Some(1))] {
                for ns in 0..3 {
                    for no in 0..3 {
                        for pool in 0..3 {
                            let mut ops = vec![];
                            for _ in 0..ns {
                                ops.push(match pool {
                                    0 => Op::SSpend(0),
                                    1 => Op::OSpend(0),
                                    _ => Op::ISpend(0, true),
                                });
                            }
                            for j in 0..no {
                                ops.push(match pool {
                                    0 => Op::SOut(0),
                                    1 => if j == 0 { Op::OChange(0) } else { Op::OOut(0) },
                                    _ => Op::IOut(0),
                                });
                            }
                            if pool == 0 && pad != (false, None) {
                                continue;
                            }
                            let req = Req {
                                net,
                                height: h,
                                sap: true,
                                orc: true,
                                iw: true,
                                opad: if pool == 1 { pad } else { (false, None) },
                                ipad: if pool == 2 { pad } else { (false, None) },
                                keys: vec![4, 5, 6],
                                ops,
                                rule: Rule::Lin([0, 1, 1, 0, 0, 0, 0]),
                                route: Route::Pczt,
                                coinbase: false,
                            };
                            emit(&req, k, r, stats);
                        }
                    }
                }
            }
        }
    }
}

fn witnesses(k: &Keys, r: &mut Rng, stats: &mut BTreeMap<String, u64>, slow: bool) {
    let h63 = u32::from(Network::MainNetwork.activation_height(NetworkUpgrade::Nu6_3).unwrap());
    let h5 = u32::from(Network::MainNetwork.activation_height(NetworkUpgrade::Nu5).unwrap());
    let base = Req {
        net: Network::MainNetwork,
        height: h63,
        sap: false,
        orc: false,
        iw: true,
        opad: (false, None),
        ipad: (true, None),
        keys: vec![4, 5, 6],
        ops: vec![Op::Propose(Ver::V5), Op::TIn(1998)],
        rule: Rule::Lin([0, 0, 0, 0, 0, 0, 999]),
        route: Route::Pczt,
        coinbase: false,
    };
    // required-but-unused Ironwood bundle under a proposed V5 (PCZT route)
    emit(&base, k, r, stats);
    // required-but-unused Orchard bundle under a proposed V4 (PCZT route)
    let mut q = base.clone();
    q.height = h5;
    q.orc = true;
    q.iw = false;
    q.opad = (true, None);
    q.ipad = (false, None);
    q.ops = vec![Op::Propose(Ver::V4), Op::TIn(1554)];
    q.rule = Rule::Lin([0, 0, 0, 0, 0, 777, 0]);
    emit(&q, k, r, stats);
    // DeferredPcztBuilder: a required-but-unused Ironwood bundle next to a used Orchard bundle
    let d = Req {
        net: Network::MainNetwork,
        height: h63 + 3,
        sap: false,
        orc: false,
        iw: false,
        opad: (false, Some(1)),
        ipad: (true, None),
        keys: vec![],
        ops: vec![Op::OSpend(10_000), Op::OChange(5_000)],
        rule: Rule::Lin([0, 0, 0, 0, 0, 777, 999]),
        route: Route::Deferred,
        coinbase: false,
    };
    run_with_balancing_v(d, k, r, stats, false, true);
    if slow {
        let mut q2 = base.clone();
        q2.route = Route::Build;
        emit(&q2, k, r, stats);
        q.route = Route::Build;
        emit(&q, k, r, stats);
    }
}

/// P2SH multisig inputs: m-of-n redeem scripts x key registrations (script order, reversed,
/// rotated, subsets) x routes; every request is then balanced with the builder's own amount.
fn lattice_p2sh(k: &Keys, r: &mut Rng, stats: &mut BTreeMap<String, u64>) {
    let h = u32::from(Network::MainNetwork.activation_height(NetworkUpgrade::Nu6).unwrap());
    let mut c = 0u32;
    for (m, n) in [(1u8, 1u8), (1, 2), (2, 2), (2, 3), (3, 3), (3, 5), (2, 7), (8, 8), (1, 15), (15, 15)] {
        let all: Vec<u8> = (4..19).collect();
        let rev: Vec<u8> = all.iter().rev().copied().collect();
        for keys in [all.clone(), rev, vec![5u8, 6, 4, 8, 7, 11, 10, 9], vec![4, 6], vec![6, 4], vec![5], vec![]] {
            for route in [Route::Build, Route::Mock, Route::Pczt] {
                c += 1;
                let rule = if route == Route::Mock || c % 2 == 0 { Rule::Zip317 } else { Rule::Lin([1000, 3, 1, 0, 0, 0, 0]) };
                let ops = if c % 3 == 0 {
                    vec![Op::TIn(30_000), Op::TInSh(40_000, m, n), Op::TOut(20_000, false)]
                } else {
                    vec![Op::TInSh(40_000, m, n), Op::TIn(30_000), Op::TInSh(5_000, m, n), Op::TOut(20_000, true)]
                };
                let req = Req {
                    net: Network::MainNetwork,
                    height: h + c,
                    sap: false,
                    orc: false,
                    iw: false,
                    opad: (false, None),
                    ipad: (false, None),
                    keys: keys.clone(),
                    ops,
                    rule,
                    route,
                    coinbase: false,
                };
                run_with_balancing_v(req, k, r, stats, false, false);
            }
        }
    }
}

/// DeferredPcztBuilder: Ironwood-only and Orchard-only shapes with k spends and l outputs for all
/// small (k, l), padding configurations, both fee rules; under-funded as generated, then balanced,
/// over-funded by one and under-funded by one using the amount the builder reports.
fn lattice_deferred(k: &Keys, r: &mut Rng, stats: &mut BTreeMap<String, u64>) {
    let m63 = u32::from(Network::MainNetwork.activation_height(NetworkUpgrade::Nu6_3).unwrap());
    let t63 = u32::from(Network::TestNetwork.activation_height(NetworkUpgrade::Nu6_3).unwrap());
    let pads = [(false, None), (false, Some(1)), (true, None), (false, Some(3)), (true, Some(0))];
    let mut c = 0u32;
    for ks in 0..4usize {
        for lo in 0..4usize {
            for pad in pads {
                for pool in 0..2 {
                    c += 1;
                    let mut ops = vec![];
                    for j in 0..ks {
                        ops.push(if pool == 0 { Op::ISpend(40_000 + j as u64, true) } else { Op::OSpend(40_000 + j as u64) });
                    }
                    for j in 0..lo {
                        ops.push(if pool == 0 { Op::IOut(1_000 + j as u64) } else { Op::OChange(1_000 + j as u64) });
                    }
                    let (net, height) = if c % 2 == 0 { (Network::MainNetwork, m63 + c) } else { (Network::TestNetwork, t63 + c) };
                    let req = Req {
                        net,
                        height,
                        sap: false,
                        orc: false,
                        iw: false,
                        opad: if pool == 1 { pad } else { (false, None) },
                        ipad: if pool == 0 { pad } else { (false, None) },
                        keys: vec![],
                        ops,
                        rule: if c % 3 == 0 { Rule::Lin([0, 0, 0, 0, 0, 777, 999]) } else { Rule::Zip317 },
                        route: Route::Deferred,
                        coinbase: false,
                    };
                    run_with_balancing_v(req, k, r, stats, false, c % 2 == 0);
                }
            }
        }
    }
    // mixed pools, refused calls, and heights where anchor deferral is not available
    for (net, h) in [(Network::MainNetwork, m63 - 1), (Network::TestNetwork, t63 - 1), (Network::MainNetwork, 1_000_000)] {
        let req = Req {
            net,
            height: h,
            sap: false,
            orc: false,
            iw: false,
            opad: (false, None),
            ipad: (false, None),
            keys: vec![],
            ops: vec![Op::IOut(1)],
            rule: Rule::Zip317,
            route: Route::Deferred,
            coinbase: false,
        };
        emit(&req, k, r, stats);
    }
    for ops in [
        vec![Op::OSpend(50_000), Op::IOut(35_000)],
        vec![Op::OSpend(50_000), Op::OOut(1_000)],
        vec![Op::ISpend(50_000, false)],
        vec![Op::OSpend(70_000), Op::OChange(5_000), Op::IOut(7_000), Op::ISpend(1_000, true), Op::Expiry(77)],
        vec![Op::OSpend(u64::MAX), Op::OSpend(5), Op::IOut(7_000)],
        vec![Op::OSpend(MAX_MONEY), Op::ISpend(MAX_MONEY, true), Op::IOut(7_000)],
    ] {
        let req = Req {
            net: Network::MainNetwork,
            height: m63 + 7,
            sap: false,
            orc: false,
            iw: false,
            opad: (false, None),
            ipad: (false, Some(1)),
            keys: vec![],
            ops,
            rule: Rule::Zip317,
            route: Route::Deferred,
            coinbase: false,
        };
        run_with_balancing_v(req, k, r, stats, false, true);
    }
}

/// Coinbase configuration: heights in every branch, outputs only / with a forbidden spend or
/// input / with an overridden expiry / with a proposed version.
fn lattice_coinbase(k: &Keys, r: &mut Rng, stats: &mut BTreeMap<String, u64>) {
    for net in [Network::MainNetwork, Network::TestNetwork] {
        let hs: Vec<u32> = heights(net).into_iter().enumerate().filter(|(i, _)| i % 3 != 0 || *i >= 24).map(|(_, h)| h).collect();
        for (hi, h) in hs.into_iter().enumerate() {
            let pats: Vec<Vec<Op>> = vec![
                vec![Op::TOut(625_000_000, false)],
                vec![Op::TOut(500_000_000, false), Op::SOut(125_000_000), Op::TOut(1, true)],
                vec![Op::SOut(5), Op::SOut(7), Op::SOut(MAX_MONEY)],
                vec![],
                vec![Op::TOut(5, false), Op::TIn(5)],
                vec![Op::TOut(5, false), Op::SSpend(5)],
                vec![Op::OSpend(5)],
                vec![Op::ISpend(5, true)],
                vec![Op::TOut(5, false), Op::Expiry(h + 1)],
                vec![Op::TOut(5, false), Op::Expiry(0), Op::Expiry(h)],
                vec![Op::TOut(5, false), Op::Propose(Ver::V4)],
                vec![Op::SOut(5), Op::Propose(Ver::V5)],
                vec![Op::TIn(9), Op::OOut(5), Op::IOut(6), Op::OChange(7)],
                vec![Op::TNull(10), Op::TOut(7, false)],
            ];
            for (pi, ops) in pats.into_iter().enumerate() {
                if (hi + pi) % 2 == 1 && pi > 3 {
                    continue;
                }
                let req = Req {
                    net,
                    height: h,
                    sap: false,
                    orc: false,
                    iw: false,
                    opad: (false, None),
                    ipad: (false, None),
                    keys: vec![],
                    ops,
                    rule: Rule::Zip317,
                    route: if (hi + pi) % 3 == 0 { Route::Mock } else { Route::Build },
                    coinbase: true,
                };
                emit(&req, k, r, stats);
            }
        }
    }
}

fn main() {
    let a = args();
    if std::env::var("C14_LOUD").is_err() {
        quiet_panics();
    }
    let k = keys();
    let mut r = Rng::new(a.seed, 14);
    let mut stats: BTreeMap<String, u64> = BTreeMap::new();
    let t0 = std::time::Instant::now();
    witnesses(&k, &mut r, &mut stats, std::env::var("C14_SLOW").is_ok());
    if std::env::var("C14_ONLYW").is_ok() {
        return;
    }
    lattice_version(&k, &mut r, &mut stats);
    lattice_padding(&k, &mut r, &mut stats);
    lattice_p2sh(&k, &mut r, &mut stats);
    lattice_deferred(&k, &mut r, &mut stats);
    lattice_coinbase(&k, &mut r, &mut stats);
    let n = a.budget(600, 8000);
    let mut proofs = if a.thorough() && !a.search { 3 } else { 0 };
    for _ in 0..n {
        let req = gen_req(&mut r);
        let allow = proofs > 0 && may_prove(&req) && r.chance(1, 50);
        if allow {
            proofs -= 1;
        }
        run_with_balancing(req, &k, &mut r, &mut stats, allow);
    }
    stat(format!(
        "{{\"generated_requests\": {}, \"seconds\": {:.1}, {}}}",
        n,
        t0.elapsed().as_secs_f64(),
        stats.iter().map(|(k, v)| format!("\"{}\": {}", k, v)).collect::<Vec<_>>().join(", ")
    ));
}
