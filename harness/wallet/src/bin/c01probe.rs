use vhist::*;
use std::time::Instant;
fn main() {
    let t = Instant::now();
    let mut w = World::new(rng_from(1, 1), 2);
    println!("new: {:?}", t.elapsed());
    let t = Instant::now();
    let f = w.fresh_wallet();
    println!("fresh: {:?}", t.elapsed());
    let mut r = vcommon::Rng::new(1, 2);
    let t = Instant::now();
    w.gen_blocks(&mut r, 40, &ChainParams::default());
    println!("gen 40: {:?} notes {}", t.elapsed(), w.notes.len());
    let t = Instant::now();
    println!("{:?}", w.scan(BASE, 40));
    println!("scan 40: {:?}", t.elapsed());
    let t = Instant::now();
    for _ in 0..10 { w.dump(); }
    println!("10 dumps: {:?}", t.elapsed());
}
