//! C08 harness — proposals spend only spendable funds, each once, and balance exactly.
//!
//! Wallet histories on the real SQLite backend (`zcash_client_sqlite::testing::TestDb` driven by
//! `zcash_client_backend::data_api::testing::TestState`): receipts into two accounts and two
//! shielded pools, external spends, out-of-order / partial scans, pending transactions created
//! through `create_proposed_transactions` (which stores them with `store_transactions_to_be_sent`)
//! and then mined or left to expire by tip advance, locks taken / released / cleared / expired.
//!
//! After every operation the note rows are dumped with plain `SELECT`s (no use of the predicate
//! SQL under test) and the public API is queried:
//!   * `InputSource::select_spendable_notes` (targets × confirmation policies × lock filters ×
//!     exclusion lists)                                                   -> `CSelect`
//!   * `propose_transfer` (requests × policies × locked-input policies × change strategies,
//!     optionally with a `LockRequest`); the change strategy is wrapped by a recorder that logs
//!     every `compute_balance` call and can behave adversarially         -> `CPropose`
//!   * `OutputLockStore::lock_outputs`                                    -> `CLock`
use std::cell::RefCell;
use std::collections::{BTreeMap, BTreeSet};
use std::convert::Infallible;
use std::num::NonZeroU32;

use vcommon::*;

use zcash_client_backend::data_api::testing::{AddressType, FakeCompactOutput, TestBuilder, TestState};
use zcash_client_backend::data_api::wallet::input_selection::{
    GreedyInputSelector, LockFilter, LockedInputPolicy, NonEmptyBTreeSet, SpendPolicy,
};
use zcash_client_backend::data_api::wallet::{propose_transfer, ConfirmationsPolicy, LockRequest, TargetHeight};
use zcash_client_backend::data_api::wallet::propose_shielding;
use zcash_client_backend::data_api::{
    Account as _, CoinbaseFilter, InputSource, MaxSpendMode, OutputLockStore, TargetValue, WalletRead, WalletWrite,
};
use zcash_client_backend::wallet::WalletTransparentOutput;
use zcash_transparent::address::TransparentAddress;
use zcash_transparent::bundle::{OutPoint, TxOut};
use zcash_transparent::keys::TransparentKeyScope;
use zcash_client_backend::fees::{
    orchard as ofees, sapling as sfees, standard, ChangeError, ChangeStrategy, ChangeValue, DustOutputPolicy,
    EphemeralBalance, SplitPolicy, StandardFeeRule, TransactionBalance,
};
use zcash_client_backend::proposal::Proposal;
use zcash_client_backend::wallet::{LockOwner, OutputRef, OvkPolicy};
use zcash_client_sqlite::testing::{db::TestDb, db::TestDbFactory, BlockCache};
use zcash_client_sqlite::{AccountUuid, ReceivedNoteId};
use zcash_keys::address::Address;
use zcash_keys::keys::{UnifiedAddressRequest, UnifiedSpendingKey};
use zcash_primitives::block::BlockHash;
use zcash_primitives::transaction::fees::transparent as tfees;
use zcash_protocol::consensus::{self, BlockHeight};
use zcash_protocol::local_consensus::LocalNetwork;
use zcash_protocol::value::Zatoshis;
use zcash_protocol::{PoolType, ShieldedPool, TxId};
use zip321::{Payment, TransactionRequest};

type St = TestState<BlockCache, TestDb, LocalNetwork>;

// ---------------------------------------------------------------------------------------------
// note ids
// ---------------------------------------------------------------------------------------------

fn pool_name(p: ShieldedPool) -> &'static str {
    match p {
        ShieldedPool::Sapling => "Sapling",
        ShieldedPool::Orchard => "Orchard",
        ShieldedPool::Ironwood => "Ironwood",
    }
}

/// `ReceivedNoteId` has crate-private fields; its derived `Debug` is `ReceivedNoteId(Pool, n)`.
fn nid(id: &ReceivedNoteId) -> (ShieldedPool, i64) {
    let s = format!("{:?}", id);
    let inner = s.trim_start_matches("ReceivedNoteId(").trim_end_matches(')');
    let mut it = inner.split(',');
    let p = match it.next().unwrap().trim() {
        "Sapling" => ShieldedPool::Sapling,
        "Orchard" => ShieldedPool::Orchard,
        _ => ShieldedPool::Ironwood,
    };
    (p, it.next().unwrap().trim().parse().unwrap())
}

fn nid_generic<N>(n: &N) -> (ShieldedPool, i64) {
    assert_eq!(std::any::type_name::<N>(), std::any::type_name::<ReceivedNoteId>());
    // SAFETY: the type names are equal, so N is ReceivedNoteId.
    let r: &ReceivedNoteId = unsafe { &*(n as *const N as *const ReceivedNoteId) };
    nid(r)
}

fn pid_coq(x: &(ShieldedPool, i64)) -> String {
    format!("({}, {})", pool_name(x.0), x.1)
}

fn changes_coq(cs: &[ChangeValue]) -> String {
    list(cs.iter().map(|c| {
        let p = match c.output_pool() {
            PoolType::Transparent => "CT".to_string(),
            PoolType::Shielded(p) => format!("(CP {})", pool_name(p)),
        };
        format!("({}, {})", p, u64::from(c.value()))
    }))
}

// ---------------------------------------------------------------------------------------------
// recording / adversarial change strategy
// ---------------------------------------------------------------------------------------------

struct Rec<S> {
    inner: S,
    /// 0 faithful; 1 reports the smallest input as dust (when >= 2 inputs and their id sum is even);
    /// 2 asks for one zatoshi more than the inputs hold while fewer than `k` inputs are offered;
    /// 3 returns an unbalanced result (fee + 1).
    mode: u8,
    k: usize,
    log: RefCell<Vec<String>>,
    /// shielding mode: log transparent inputs (outpoint -> row id) instead of shielded ones
    utxo_ids: Option<BTreeMap<(Vec<u8>, u32), i64>>,
    /// transfer mode: outpoint -> row id, to log the transparent inputs next to the shielded ones
    xfer_ids: BTreeMap<(Vec<u8>, u32), i64>,
}

impl<S: ChangeStrategy> ChangeStrategy for Rec<S> {
    type FeeRule = S::FeeRule;
    type Error = S::Error;
    type MetaSource = S::MetaSource;
    type AccountMetaT = S::AccountMetaT;

    fn fee_rule(&self) -> &Self::FeeRule {
        self.inner.fee_rule()
    }

    fn fetch_wallet_meta(
        &self,
        meta_source: &Self::MetaSource,
        account: <Self::MetaSource as zcash_client_backend::fees::MetaSource>::AccountId,
        target_height: TargetHeight,
        exclude: &[<Self::MetaSource as zcash_client_backend::fees::MetaSource>::NoteRef],
    ) -> Result<Self::AccountMetaT, <Self::MetaSource as zcash_client_backend::fees::MetaSource>::Error> {
        self.inner.fetch_wallet_meta(meta_source, account, target_height, exclude)
    }

    fn compute_balance<P: consensus::Parameters, NoteRefT: Clone>(
        &self,
        params: &P,
        target_height: TargetHeight,
        anchor_height: BlockHeight,
        zip318: &zcash_client_backend::data_api::anchor_retention::PoolMigrationParams,
        transparent_inputs: &[impl tfees::InputView],
        transparent_outputs: &[impl tfees::OutputView],
        sapling: &impl sfees::BundleView<NoteRefT>,
        orchard: &impl ofees::BundleView<NoteRefT>,
        ironwood: &impl ofees::BundleView<NoteRefT>,
        ephemeral_balance: Option<EphemeralBalance>,
        wallet_meta: &Self::AccountMetaT,
    ) -> Result<TransactionBalance, ChangeError<Self::Error, NoteRefT>> {
        if let Some(map) = &self.utxo_ids {
            let tins: Vec<(i64, u64, OutPoint)> = transparent_inputs
                .iter()
                .map(|i| {
                    let op = tfees::InputView::outpoint(i).clone();
                    let id = *map.get(&(op.hash().to_vec(), op.n())).unwrap_or(&-1);
                    (id, u64::from(tfees::InputView::coin(i).value()), op)
                })
                .collect();
            let r = self.inner.compute_balance(
                params,
                target_height,
                anchor_height,
                zip318,
                transparent_inputs,
                transparent_outputs,
                sapling,
                orchard,
                ironwood,
                ephemeral_balance,
                wallet_meta,
            );
            let tot: u64 = tins.iter().map(|x| x.1).sum();
            let r = match (self.mode, r) {
                (1, Ok(_)) if tins.len() >= 2 => {
                    let m = tins.iter().min_by_key(|x| (x.1, x.0)).unwrap();
                    Err(ChangeError::DustInputs { transparent: vec![m.2.clone()], sapling: vec![], orchard: vec![], ironwood: vec![] })
                }
                (2, Ok(_)) if tins.len() < self.k => Err(ChangeError::InsufficientFunds {
                    available: Zatoshis::from_u64(tot).unwrap(),
                    required: Zatoshis::from_u64(tot + 1).unwrap(),
                }),
                (3, Ok(b)) => Ok(TransactionBalance::new(
                    b.proposed_change().to_vec(),
                    (b.fee_required() + Zatoshis::const_from_u64(1)).unwrap(),
                )
                .unwrap()),
                (_, r) => r,
            };
            let mut key: Vec<i64> = tins.iter().map(|x| x.0).collect();
            key.sort();
            let res = match &r {
                Ok(b) => format!("TBal {} {}", changes_coq(b.proposed_change()), u64::from(b.fee_required())),
                Err(ChangeError::InsufficientFunds { required, .. }) => format!("TInsuff {}", u64::from(*required)),
                Err(ChangeError::DustInputs { transparent, .. }) => format!(
                    "TDust {}",
                    list(transparent.iter().map(|op| map.get(&(op.hash().to_vec(), op.n())).unwrap_or(&-1).to_string()))
                ),
                Err(_) => "TErr".to_string(),
            };
            self.log.borrow_mut().push(format!("({}, {})", list(key.iter().map(|x| x.to_string())), res));
            return r;
        }
        use ofees::InputView as _;
        use sfees::InputView as _;
        let mut ins: Vec<((ShieldedPool, i64), u64, NoteRefT)> = vec![];
        for i in sapling.inputs() {
            ins.push((nid_generic(sfees::InputView::note_id(i)), u64::from(sfees::InputView::value(i)), sfees::InputView::note_id(i).clone()));
        }
        for i in orchard.inputs() {
            ins.push((nid_generic(ofees::InputView::note_id(i)), u64::from(ofees::InputView::value(i)), ofees::InputView::note_id(i).clone()));
        }
        for i in ironwood.inputs() {
            ins.push((nid_generic(ofees::InputView::note_id(i)), u64::from(ofees::InputView::value(i)), ofees::InputView::note_id(i).clone()));
        }
        let tins: Vec<(i64, u64, OutPoint)> = transparent_inputs
            .iter()
            .map(|i| {
                let op = tfees::InputView::outpoint(i).clone();
                let id = *self.xfer_ids.get(&(op.hash().to_vec(), op.n())).unwrap_or(&-1);
                (id, u64::from(tfees::InputView::coin(i).value()), op)
            })
            .collect();
        let total: u64 = ins.iter().map(|x| x.1).sum::<u64>() + tins.iter().map(|x| x.1).sum::<u64>();
        let r = self.inner.compute_balance(
            params,
            target_height,
            anchor_height,
            zip318,
            transparent_inputs,
            transparent_outputs,
            sapling,
            orchard,
            ironwood,
            ephemeral_balance,
            wallet_meta,
        );
        let r = match (self.mode, r) {
            (1, Ok(_)) if tins.len() >= 2 && ins.is_empty() => {
                let m = tins.iter().min_by_key(|x| (x.1, x.0)).unwrap();
                Err(ChangeError::DustInputs { transparent: vec![m.2.clone()], sapling: vec![], orchard: vec![], ironwood: vec![] })
            }
            (1, Ok(_)) if ins.len() >= 2 && ins.iter().map(|x| x.0 .1).sum::<i64>() % 2 == 0 => {
                let m = ins.iter().min_by_key(|x| (x.1, x.0 .1)).unwrap();
                let (mut s, mut o, mut w) = (vec![], vec![], vec![]);
                match m.0 .0 {
                    ShieldedPool::Sapling => s.push(m.2.clone()),
                    ShieldedPool::Orchard => o.push(m.2.clone()),
                    ShieldedPool::Ironwood => w.push(m.2.clone()),
                }
                Err(ChangeError::DustInputs { transparent: vec![], sapling: s, orchard: o, ironwood: w })
            }
            (2, Ok(_)) if ins.len() + tins.len() < self.k => Err(ChangeError::InsufficientFunds {
                available: Zatoshis::from_u64(total).unwrap(),
                required: Zatoshis::from_u64(total + 1).unwrap(),
            }),
            (3, Ok(b)) => Ok(TransactionBalance::new(
                b.proposed_change().to_vec(),
                (b.fee_required() + Zatoshis::const_from_u64(1)).unwrap(),
            )
            .unwrap()),
            (_, r) => r,
        };
        let mut key: Vec<(ShieldedPool, i64)> = ins.iter().map(|x| x.0).collect();
        key.sort();
        let res = match &r {
            Ok(b) => format!("OBal {} {}", changes_coq(b.proposed_change()), u64::from(b.fee_required())),
            Err(ChangeError::InsufficientFunds { required, .. }) => format!("OInsuff {}", u64::from(*required)),
            Err(ChangeError::DustInputs { transparent, sapling, orchard, ironwood }) => {
                let d: Vec<(ShieldedPool, i64)> =
                    sapling.iter().chain(orchard.iter()).chain(ironwood.iter()).map(nid_generic).collect();
                format!(
                    "ODust {} {}",
                    list(d.iter().map(pid_coq)),
                    list(transparent.iter().map(|op| self.xfer_ids.get(&(op.hash().to_vec(), op.n())).unwrap_or(&-1).to_string()))
                )
            }
            Err(_) => "OErr".to_string(),
        };
        let mut tkey: Vec<i64> = tins.iter().map(|x| x.0).collect();
        tkey.sort();
        self.log.borrow_mut().push(format!(
            "({}, {}, {}, {})",
            u32::from(anchor_height),
            list(key.iter().map(pid_coq)),
            list(tkey.iter().map(|x| x.to_string())),
            res
        ));
        r
    }
}

// ---------------------------------------------------------------------------------------------
// state dump (plain SELECTs)
// ---------------------------------------------------------------------------------------------

#[derive(Clone, Debug)]
struct Row {
    id: i64,
    acct: i64,
    pool: ShieldedPool,
    value: i64,
    block: Option<i64>,
    mined: Option<i64>,
    texpiry: Option<i64>,
    tminobs: i64,
    ufvk: bool,
    scope: Option<i64>,
    nf: bool,
    pos: Option<i64>,
    stab: bool,
    trust: bool,
    prio: Option<i64>,
    shin: Option<i64>,
    shtrust: bool,
    lock: Option<i64>,
    owner: Option<i64>,
    spenders: Vec<(Option<i64>, Option<i64>, i64)>,
    txid: [u8; 32],
    oidx: u32,
}

fn oz(x: Option<i64>) -> String {
    opt(x.map(|v| z(v as i128)))
}

impl Row {
    fn coq(&self) -> String {
        format!(
            "R {} {} {} {} {} {} {} {} {} {} {} {} {} {} {} {} {} {} {} {}",
            self.id,
            self.acct,
            pool_name(self.pool),
            self.value,
            oz(self.block),
            oz(self.mined),
            oz(self.texpiry),
            self.tminobs,
            boolc(self.ufvk),
            oz(self.scope),
            boolc(self.nf),
            oz(self.pos),
            boolc(self.stab),
            boolc(self.trust),
            oz(self.prio),
            oz(self.shin),
            boolc(self.shtrust),
            oz(self.lock),
            oz(self.owner),
            list(self.spenders.iter().map(|s| format!("Sp {} {} {}", oz(s.0), oz(s.1), s.2)))
        )
    }
    fn oref(&self) -> OutputRef {
        OutputRef::new(TxId::from_bytes(self.txid), PoolType::Shielded(self.pool), self.oidx)
    }
}

#[derive(Clone, Debug)]
struct Urow {
    id: i64,
    acct: i64,
    addr: i64,
    scope: i64,
    value: i64,
    mined: Option<i64>,
    expiry: Option<i64>,
    txindex: Option<i64>,
    maxobs: Option<i64>,
    nowin: bool,
    imp_pk: bool,
    imp_script: bool,
    lock: Option<i64>,
    owner: Option<i64>,
    spenders: Vec<(Option<i64>, Option<i64>, i64)>,
    rank: i64,
    txid: Vec<u8>,
    oidx: u32,
}

impl Urow {
    fn coq(&self) -> String {
        format!(
            "U {} {} {} {} {} {} {} {} {} {} {} {} {} {} {} {}",
            self.id,
            self.acct,
            self.addr,
            z(self.scope as i128),
            self.value,
            oz(self.mined),
            oz(self.expiry),
            oz(self.txindex),
            oz(self.maxobs),
            boolc(self.nowin),
            boolc(self.imp_pk),
            boolc(self.imp_script),
            oz(self.lock),
            oz(self.owner),
            list(self.spenders.iter().map(|s| format!("Sp {} {} {}", oz(s.0), oz(s.1), s.2))),
            self.rank
        )
    }
}

fn dump_utxos(st: &St, accts: &[AccountUuid], addrs: &[String], known_spends: &[(Vec<u8>, u32, [u8; 32])]) -> Vec<Urow> {
    let conn = st.wallet().conn();
    let mut stmt = conn
        .prepare(
            "SELECT u.id, a.uuid, ad.cached_transparent_receiver_address, ad.key_scope, u.value_zat,
                    t.mined_height, t.expiry_height, t.tx_index, u.max_observed_unspent_height,
                    t.id_tx NOT IN (SELECT transaction_id FROM v_received_output_spends v WHERE v.account_id = a.id),
                    ad.imported_transparent_receiver_pubkey IS NOT NULL, ad.imported_transparent_receiver_script IS NOT NULL,
                    u.lock_expiry_height, u.lock_owner, t.txid, u.output_index
             FROM transparent_received_outputs u
             JOIN transactions t ON t.id_tx = u.transaction_id
             JOIN accounts a ON a.id = u.account_id
             JOIN addresses ad ON ad.id = u.address_id
             ORDER BY u.id",
        )
        .unwrap();
    let mut rows: Vec<Urow> = stmt
        .query_map([], |r| {
            let uuid: uuid::Uuid = r.get(1)?;
            let a: Option<String> = r.get(2)?;
            Ok(Urow {
                id: r.get(0)?,
                acct: accts.iter().position(|x| x.expose_uuid() == uuid).map(|i| i as i64).unwrap_or(9),
                addr: a.and_then(|a| addrs.iter().position(|x| *x == a)).map(|i| i as i64).unwrap_or(9),
                scope: r.get(3)?,
                value: r.get(4)?,
                mined: r.get(5)?,
                expiry: r.get(6)?,
                txindex: r.get(7)?,
                maxobs: r.get(8)?,
                nowin: r.get(9)?,
                imp_pk: r.get(10)?,
                imp_script: r.get(11)?,
                lock: r.get(12)?,
                owner: owner_code(r.get(13)?),
                spenders: vec![],
                rank: 0,
                txid: r.get(14)?,
                oidx: r.get(15)?,
            })
        })
        .unwrap()
        .map(|x| x.unwrap())
        .collect();
    for row in rows.iter_mut() {
        let mut s = conn
            .prepare(
                "SELECT stx.mined_height, stx.expiry_height, stx.min_observed_height, stx.txid
                 FROM transparent_received_output_spends sp JOIN transactions stx ON stx.id_tx = sp.transaction_id
                 WHERE sp.transparent_received_output_id = ?1 ORDER BY stx.id_tx",
            )
            .unwrap();
        let sp: Vec<((Option<i64>, Option<i64>, i64), Vec<u8>)> = s
            .query_map([row.id], |r| Ok(((r.get(0)?, r.get(1)?, r.get(2)?), r.get(3)?)))
            .unwrap()
            .map(|x| x.unwrap())
            .collect();
        row.spenders = sp.iter().map(|x| x.0).collect();
        // GROUND TRUTH: transactions this harness stored in the wallet that spend this outpoint. If the
        // wallet has no spend row for one of them, the spender is added here from the transactions table.
        for (txid, n, spender_txid) in known_spends {
            if *txid == row.txid && *n == row.oidx && !sp.iter().any(|x| x.1[..] == spender_txid[..]) {
                let got: Option<(Option<i64>, Option<i64>, i64)> = conn
                    .query_row(
                        "SELECT mined_height, expiry_height, min_observed_height FROM transactions WHERE txid = ?1",
                        [&spender_txid[..]],
                        |r| Ok((r.get(0)?, r.get(1)?, r.get(2)?)),
                    )
                    .ok();
                if let Some(x) = got {
                    row.spenders.push(x);
                }
            }
        }
    }
    // rank in OutPoint order
    let mut ord: Vec<(OutPoint, i64)> = rows
        .iter()
        .map(|r| {
            let mut h = [0u8; 32];
            h.copy_from_slice(&r.txid);
            (OutPoint::new(h, r.oidx), r.id)
        })
        .collect();
    ord.sort();
    for (k, (_, id)) in ord.iter().enumerate() {
        rows.iter_mut().find(|r| r.id == *id).unwrap().rank = k as i64;
    }
    rows
}

struct Dump {
    rows: Vec<Row>,
    /// (pool, block_range_start, subtree_start_height, subtree_end_height)
    ranges: Vec<(ShieldedPool, i64, Option<i64>, Option<i64>)>,
    tip: Option<i64>,
}

fn owner_code(b: Option<Vec<u8>>) -> Option<i64> {
    b.map(|v| if !v.is_empty() && v.iter().all(|x| *x == v[0]) { v[0] as i64 } else { 99 })
}

fn dump(st: &St, accts: &[AccountUuid]) -> Dump {
    let conn = st.wallet().conn();
    let mut rows = vec![];
    let mut ranges = vec![];
    for (pool, pfx, idx) in [
        (ShieldedPool::Sapling, "sapling", "output_index"),
        (ShieldedPool::Orchard, "orchard", "action_index"),
        (ShieldedPool::Ironwood, "ironwood", "action_index"),
    ] {
        let mut stmt = conn
            .prepare(&format!(
                "SELECT rn.id, a.uuid, rn.value, t.block, t.mined_height, t.expiry_height, t.min_observed_height,
                        a.ufvk IS NOT NULL, rn.recipient_key_scope, rn.nf IS NOT NULL, rn.commitment_tree_position,
                        rn.witness_stabilized, IFNULL(t.trust_status, 0), rn.lock_expiry_height, rn.lock_owner,
                        t.txid, rn.{idx}, t.id_tx, a.id
                 FROM {pfx}_received_notes rn
                 JOIN accounts a ON a.id = rn.account_id
                 JOIN transactions t ON t.id_tx = rn.transaction_id
                 ORDER BY rn.id"
            ))
            .unwrap();
        let got: Vec<(Row, i64, i64)> = stmt
            .query_map([], |r| {
                let uuid: uuid::Uuid = r.get(1)?;
                let acct = accts.iter().position(|a| a.expose_uuid() == uuid).map(|i| i as i64).unwrap_or(9);
                let txid: [u8; 32] = r.get(15)?;
                Ok((
                    Row {
                        id: r.get(0)?,
                        acct,
                        pool,
                        value: r.get(2)?,
                        block: r.get(3)?,
                        mined: r.get(4)?,
                        texpiry: r.get(5)?,
                        tminobs: r.get(6)?,
                        ufvk: r.get(7)?,
                        scope: r.get(8)?,
                        nf: r.get(9)?,
                        pos: r.get(10)?,
                        stab: r.get(11)?,
                        trust: r.get::<_, i64>(12)? != 0,
                        prio: None,
                        shin: None,
                        shtrust: false,
                        lock: r.get(13)?,
                        owner: owner_code(r.get(14)?),
                        spenders: vec![],
                        txid,
                        oidx: r.get(16)?,
                    },
                    r.get(17)?,
                    r.get(18)?,
                ))
            })
            .unwrap()
            .map(|x| x.unwrap())
            .collect();
        for (mut row, id_tx, acct_id) in got {
            // spenders
            let mut s = conn
                .prepare(&format!(
                    "SELECT stx.mined_height, stx.expiry_height, stx.min_observed_height
                     FROM {pfx}_received_note_spends rns JOIN transactions stx ON stx.id_tx = rns.transaction_id
                     WHERE rns.{pfx}_received_note_id = ?1 ORDER BY stx.id_tx"
                ))
                .unwrap();
            row.spenders = s
                .query_map([row.id], |r| Ok((r.get(0)?, r.get(1)?, r.get(2)?)))
                .unwrap()
                .map(|x| x.unwrap())
                .collect();
            // shard scan state
            if let Some(p) = row.pos {
                row.prio = conn
                    .query_row(
                        &format!(
                            "SELECT MAX(max_priority) FROM v_{pfx}_shards_scan_state
                             WHERE start_position <= ?1 AND ?1 < end_position_exclusive"
                        ),
                        [p],
                        |r| r.get(0),
                    )
                    .unwrap();
            }
            // transparent inputs of the creating transaction that belong to the same account
            let (shin, shtrust): (Option<i64>, Option<i64>) = conn
                .query_row(
                    "SELECT MAX(tt.mined_height), MIN(IFNULL(tt.trust_status, 0))
                     FROM transparent_received_output_spends ros
                     JOIN transparent_received_outputs tro ON tro.id = ros.transparent_received_output_id
                     JOIN transactions tt ON tt.id_tx = tro.transaction_id
                     WHERE ros.transaction_id = ?1 AND tro.account_id = ?2",
                    [id_tx, acct_id],
                    |r| Ok((r.get(0)?, r.get(1)?)),
                )
                .unwrap();
            row.shin = shin;
            row.shtrust = shtrust.unwrap_or(0) != 0;
            rows.push(row);
        }
        let mut s = conn
            .prepare(&format!(
                "SELECT block_range_start, subtree_start_height, subtree_end_height FROM v_{pfx}_shard_unscanned_ranges"
            ))
            .unwrap();
        for x in s.query_map([], |r| Ok((r.get(0)?, r.get(1)?, r.get(2)?))).unwrap() {
            let (a, b, c) = x.unwrap();
            ranges.push((pool, a, b, c));
        }
    }
    let tip = st.wallet().chain_height().unwrap().map(|h| u32::from(h) as i64);
    Dump { rows, ranges, tip }
}

impl Dump {
    fn coq_db(&self) -> String {
        list(self.rows.iter().map(|r| r.coq()))
    }
    fn coq_ranges(&self) -> String {
        list(self.ranges.iter().map(|r| format!("({}, {}, {}, {})", pool_name(r.0), r.1, oz(r.2), oz(r.3))))
    }
}

// ---------------------------------------------------------------------------------------------
// generator
// ---------------------------------------------------------------------------------------------

struct Acct {
    id: AccountUuid,
    usk: UnifiedSpendingKey,
}

struct H {
    st: St,
    accts: Vec<Acct>,
    rng: Rng,
    ids: BTreeMap<(ShieldedPool, i64), ReceivedNoteId>,
    /// heights generated but not yet scanned
    unscanned: Vec<BlockHeight>,
    nf_sapling: Vec<(usize, sapling::Nullifier, u64, bool)>,
    nf_orchard: Vec<(usize, orchard::note::Nullifier, u64, bool)>,
    pending: Vec<TxId>,
    stats: BTreeMap<String, u64>,
    ncases: usize,
    /// NU6.3 (Ironwood) active from the first block; ZIP 318 grid of GRID blocks
    nu63: bool,
    taddrs: Vec<TransparentAddress>,
    pending_t: Vec<TxId>,
    /// (outpoint txid, outpoint n, spending txid) for transactions stored in this wallet
    known_spends: Vec<(Vec<u8>, u32, [u8; 32])>,
    used_uvalues: BTreeSet<u64>,
    plain_acct: Option<usize>,
    focus: Option<(usize, ShieldedPool)>,
    seed: u64,
}

const GRID: u32 = 12;
const ACTIVATION: u32 = 100_000;

fn owner(k: u8) -> LockOwner {
    LockOwner::new([k; 32])
}

fn policies() -> Vec<ConfirmationsPolicy> {
    vec![
        ConfirmationsPolicy::MIN,
        ConfirmationsPolicy::default(),
        ConfirmationsPolicy::new_unchecked(1, 3, true),
        ConfirmationsPolicy::new_unchecked(2, 2, false),
        ConfirmationsPolicy::new_unchecked(3, 5, true),
    ]
}

#[derive(Clone)]
enum Lf {
    Unfiltered,
    Pol(LockedInputPolicy),
}

fn lip_coq(p: &LockedInputPolicy) -> String {
    let owners = |o: &NonEmptyBTreeSet<LockOwner>| list(o.iter().map(|x| format!("{}", x.as_bytes()[0])));
    match p {
        LockedInputPolicy::Exclude => "LExclude".into(),
        LockedInputPolicy::PreferUnlocked(o) => format!("(LPreferUnlocked {})", owners(o)),
        LockedInputPolicy::PreferLocked(o) => format!("(LPreferLocked {})", owners(o)),
    }
}

impl Lf {
    fn coq(&self) -> String {
        match self {
            Lf::Unfiltered => "LFUnfiltered".into(),
            Lf::Pol(p) => format!("(LFPolicy {})", lip_coq(p)),
        }
    }
}

fn pol_coq(p: &ConfirmationsPolicy) -> String {
    format!("(Pol {} {})", u32::from(p.trusted()), u32::from(p.untrusted()))
}

impl H {
    fn new(seed: u64, stream: u64, nu63: bool) -> H {
        let act = Some(BlockHeight::from_u32(ACTIVATION));
        let net = if nu63 {
            LocalNetwork { nu6: act, nu6_1: act, nu6_2: act, nu6_3: act, ..TestBuilder::<(), ()>::DEFAULT_NETWORK }
        } else {
            TestBuilder::<(), ()>::DEFAULT_NETWORK
        };
        let mut st = TestBuilder::new()
            .with_network(net)
            .with_anchor_retention_interval(zcash_protocol::zip318::AnchorBucketInterval::custom(
                NonZeroU32::new(GRID).unwrap(),
            ))
            .with_data_store_factory(TestDbFactory::default())
            .with_block_cache(BlockCache::new())
            .with_account_from_sapling_activation(BlockHash([0; 32]))
            .build();
        let a0 = st.test_account().unwrap().clone();
        let (b_id, b_usk) = st.create_account_from_test_seed("B");
        let accts = vec![Acct { id: a0.id(), usk: a0.usk().clone() }, Acct { id: b_id, usk: b_usk }];
        let taddrs: Vec<TransparentAddress> = accts
            .iter()
            .map(|a| {
                *st.wallet()
                    .get_last_generated_address_matching(a.id, UnifiedAddressRequest::AllAvailableKeys)
                    .unwrap()
                    .unwrap()
                    .transparent()
                    .unwrap()
            })
            .collect();
        H {
            st,
            accts,
            rng: Rng::new(seed, stream),
            ids: BTreeMap::new(),
            unscanned: vec![],
            nf_sapling: vec![],
            nf_orchard: vec![],
            pending: vec![],
            stats: BTreeMap::new(),
            ncases: 0,
            nu63,
            taddrs,
            pending_t: vec![],
            known_spends: vec![],
            used_uvalues: BTreeSet::new(),
            plain_acct: None,
            focus: None,
            seed,
        }
    }

    /// transparent output values are kept distinct (the gather's ORDER BY value is then total)
    fn uvalue(&mut self) -> u64 {
        loop {
            let v = self.value() + self.rng.below(3000);
            if self.used_uvalues.insert(v) {
                return v;
            }
        }
    }

    fn taddr_strings(&self) -> Vec<String> {
        use zcash_keys::encoding::AddressCodec;
        self.taddrs.iter().map(|a| a.encode(self.st.network())).collect()
    }

    fn udump(&self) -> Vec<Urow> {
        dump_utxos(&self.st, &self.acct_ids(), &self.taddr_strings(), &self.known_spends)
    }

    /// A transparent output received at one of the accounts' default transparent addresses.
    fn op_utxo(&mut self) {
        let Some(tip) = self.st.wallet().chain_height().unwrap() else { return };
        let a = self.rng.below(2) as usize;
        let mut h = [0u8; 32];
        h.copy_from_slice(&self.rng.bytes(32));
        let op = OutPoint::new(h, self.rng.below(3) as u32);
        let v = self.uvalue();
        let mined = match self.rng.below(8) {
            0 => None,
            1 => Some(tip),
            2 => Some(tip + 1),
            _ => Some(BlockHeight::from_u32(u32::from(tip).saturating_sub(self.rng.below(12) as u32).max(ACTIVATION))),
        };
        let utxo = WalletTransparentOutput::from_parts(
            op,
            TxOut::new(Zatoshis::from_u64(v).unwrap(), self.taddrs[a].script().into()),
            mined,
            Some(self.accts[a].id),
            Some(TransparentKeyScope::EXTERNAL),
            None,
        )
        .unwrap();
        let r = catch(|| self.st.wallet_mut().put_received_transparent_utxo(&utxo));
        self.bump(if matches!(r, Some(Ok(_))) { "op_utxo_received" } else { "op_utxo_failed" });
    }

    fn rand_addrs(&mut self) -> (Vec<TransparentAddress>, Vec<i64>) {
        match self.rng.below(6) {
            0 => (vec![], vec![]),
            1 | 2 => (vec![self.taddrs[0]], vec![0]),
            3 => (vec![self.taddrs[1]], vec![1]),
            _ => (self.taddrs.clone(), vec![0, 1]),
        }
    }

    fn rand_filter(&mut self) -> (CoinbaseFilter, &'static str) {
        match self.rng.below(6) {
            0 => (CoinbaseFilter::CoinbaseOnly, "CbOnly"),
            1 | 2 => (CoinbaseFilter::NonCoinbaseOnly, "CbNon"),
            _ => (CoinbaseFilter::AllTransparentOutputs, "CbAll"),
        }
    }

    fn tpolicy(&mut self) -> ConfirmationsPolicy {
        match self.rng.below(6) {
            0 => ConfirmationsPolicy::new_unchecked(1, 1, false),
            1 => ConfirmationsPolicy::new_unchecked(2, 3, false),
            2 => ConfirmationsPolicy::new_unchecked(1, 5, false),
            3 => ConfirmationsPolicy::default(),
            _ => ConfirmationsPolicy::MIN,
        }
    }

    fn q_tselect(&mut self, ud: &[Urow]) {
        let pol = self.tpolicy();
        let Some((target, _)) = self.st.wallet().get_target_and_anchor_heights(pol.trusted()).unwrap() else { return };
        let (addrs, addrc) = self.rand_addrs();
        let (f, fc) = self.rand_filter();
        let lf = self.rand_lf();
        let lfr = match &lf {
            Lf::Unfiltered => LockFilter::Unfiltered,
            Lf::Pol(p) => LockFilter::Policy(p),
        };
        let r = catch(|| self.st.wallet().get_spendable_transparent_outputs_for_addresses(&addrs, target, pol, f, lfr));
        let obs = match r {
            None => PANIC.to_string(),
            Some(Ok(outs)) => {
                let mut v: Vec<i64> = outs
                    .iter()
                    .map(|o| {
                        ud.iter()
                            .find(|u| u.txid[..] == o.outpoint().hash()[..] && u.oidx == o.outpoint().n())
                            .map(|u| u.id)
                            .unwrap_or(-1)
                    })
                    .collect();
                v.sort();
                ok(list(v.iter().map(|x| x.to_string())))
            }
            Some(Err(_)) => err("ESelOther"),
        };
        case(format!(
            "CTSelect {} {} {} {} {} {} {} {}",
            list(ud.iter().map(|u| u.coq())),
            u32::from(BlockHeight::from(target)),
            list(addrc.iter().map(|x| x.to_string())),
            pol_coq(&pol),
            boolc(pol.allow_zero_conf_shielding()),
            fc,
            lf.coq(),
            obs
        ));
        self.ncases += 1;
        self.bump("q_tselect");
    }

    /// propose_shielding; returns the proposal for optional creation.
    fn q_shield(&mut self, ud: &[Urow], d: &Dump, lock: Option<LockRequest>, plain: bool) -> Option<(usize, Proposal<StandardFeeRule, Infallible>, Vec<TransparentAddress>)> {
        let pol = if plain { ConfirmationsPolicy::MIN } else { self.tpolicy() };
        let (env, _) = self.env_coq(d, &pol);
        let (addrs, addrc) = match (plain, self.plain_acct) {
            (true, Some(a)) => (vec![self.taddrs[a]], vec![a as i64]),
            (true, None) => (self.taddrs.clone(), vec![0, 1]),
            _ => self.rand_addrs(),
        };
        let (f, fc) = if plain { (CoinbaseFilter::AllTransparentOutputs, "CbAll") } else { self.rand_filter() };
        let to = match (plain, self.plain_acct) {
            (true, Some(a)) => a,
            _ => self.rng.below(2) as usize,
        };
        let tot: i64 = ud.iter().map(|u| u.value).sum();
        let threshold = match self.rng.below(5) {
            0 => 0,
            1 => 10000,
            2 => (tot.max(0) as u64) + 1,
            _ => self.rng.range(0, (tot.max(1) as u64)),
        };
        let threshold = if plain { 1 } else { threshold };
        let lip = if plain {
            LockedInputPolicy::Exclude
        } else if lock.is_some() && self.rng.bool() {
            let other = if lock.unwrap().owner().as_bytes()[0] == 1 { 2 } else { 1 };
            LockedInputPolicy::PreferLocked(
                NonEmptyBTreeSet::from_set([owner(other)].into_iter().collect::<BTreeSet<_>>()).unwrap(),
            )
        } else {
            match self.rand_lf() {
                Lf::Unfiltered => LockedInputPolicy::Exclude,
                Lf::Pol(p) => p,
            }
        };
        let (mode, k) = if plain {
            (0u8, 0usize)
        } else {
            match self.rng.below(10) {
                0 | 1 => (1, 0),
                2 => (2, 1 + self.rng.below(3) as usize),
                3 => (3, 0),
                _ => (0, 0),
            }
        };
        let change_pool = if plain || !self.rng.chance(1, 3) { ShieldedPool::Sapling } else { ShieldedPool::Orchard };
        let inner = standard::SingleOutputChangeStrategy::<TestDb>::new(
            StandardFeeRule::Zip317,
            None,
            change_pool,
            DustOutputPolicy::default(),
        );
        let map: BTreeMap<(Vec<u8>, u32), i64> = ud.iter().map(|u| ((u.txid.clone(), u.oidx), u.id)).collect();
        let rec = Rec { inner, mode, k, log: RefCell::new(vec![]), utxo_ids: Some(map), xfer_ids: BTreeMap::new() };
        let sel = GreedyInputSelector::<TestDb>::new().with_locked_input_policy(lip.clone());
        let net = self.st.network().clone();
        let to_acct = self.accts[to].id;
        let r = catch(|| {
            propose_shielding::<_, _, _, _, Infallible>(
                self.st.wallet_mut(),
                &net,
                &sel,
                &rec,
                Zatoshis::from_u64(threshold).unwrap(),
                &addrs,
                to_acct,
                pol,
                f,
                lock,
            )
        });
        let res = r.map(|x| x.map_err(|e| format!("{:?}", e)));
        let obs = match &res {
            None => PANIC.to_string(),
            Some(Ok(p)) => {
                let steps = p.steps().iter().map(|s| {
                    let mut tins: Vec<i64> = s
                        .transparent_inputs()
                        .iter()
                        .map(|o| {
                            ud.iter()
                                .find(|u| u.txid[..] == o.outpoint().hash()[..] && u.oidx == o.outpoint().n())
                                .map(|u| u.id)
                                .unwrap_or(-1)
                        })
                        .collect();
                    tins.sort();
                    let inval: u64 = s.transparent_inputs().iter().map(|o| u64::from(o.value())).sum();
                    let pay: u64 = s.transaction_request().total().unwrap().map(u64::from).unwrap_or(0);
                    format!(
                        "(Step [] {} {} {} {} {} {})",
                        inval,
                        list(tins.iter().map(|x| x.to_string())),
                        pay,
                        changes_coq(s.balance().proposed_change()),
                        u64::from(s.balance().fee_required()),
                        opt(s.anchor_height().map(|a| u32::from(a).to_string()))
                    )
                });
                ok(list(steps))
            }
            Some(Err(s)) => err(if s.starts_with("InsufficientFunds") {
                "EInsufficient"
            } else if s.starts_with("ScanRequired") {
                "ESyncRequired"
            } else if s.starts_with("Proposal(InputsLocked") {
                "ELocked"
            } else if s.starts_with("Proposal(BalanceError") {
                "EBalance"
            } else if s.starts_with("Proposal(") {
                "EProposal"
            } else if s.starts_with("Change(") {
                "EChange"
            } else {
                "EOther"
            }),
        };
        self.bump(&format!("shield_{}", if obs.starts_with("(Ok") { "ok".to_string() } else { obs.replace("(Err ", "").replace(')', "") }));
        let lockc = match lock {
            None => "None".to_string(),
            Some(l) => format!("(Some ({}, {}))", l.owner().as_bytes()[0], l.for_blocks()),
        };
        case(format!(
            "CShield {} {} {} {} {} {} {} {} {} {} {} {}",
            list(ud.iter().map(|u| u.coq())),
            env,
            threshold,
            list(addrc.iter().map(|x| x.to_string())),
            pol_coq(&pol),
            boolc(pol.allow_zero_conf_shielding()),
            fc,
            lip_coq(&lip),
            boolc(self.nu63),
            lockc,
            list(rec.log.into_inner().into_iter()),
            obs
        ));
        self.ncases += 1;
        match res {
            Some(Ok(p)) => Some((to, p, addrs)),
            _ => None,
        }
    }

    /// A shielding transaction created for real (Sapling change, mock provers) and stored pending.
    fn op_shield_store(&mut self, allow_never: bool) -> Option<TxId> {
        let accts = self.acct_ids();
        let ud = self.udump();
        let d = dump(&self.st, &accts);
        let lock = if self.rng.chance(1, 3) { Some(LockRequest::new(owner(1 + self.rng.below(2) as u8), 1 + self.rng.below(6) as u32)) } else { None };
        if let Some((_to, p, _)) = self.q_shield(&ud, &d, lock, true) {
            // the spending keys must cover the input addresses: try both accounts
            let net = self.st.network().clone();
            let never = allow_never && self.rng.chance(1, 3);
            let spent: Vec<(Option<ShieldedPool>, i64)> = p
                .steps()
                .iter()
                .flat_map(|s| s.transparent_inputs().iter().map(|o| {
                    ud.iter()
                        .find(|u| u.txid[..] == o.outpoint().hash()[..] && u.oidx == o.outpoint().n())
                        .map(|u| u.id)
                        .unwrap_or(-1)
                }).collect::<Vec<_>>())
                .map(|id| (None, id))
                .collect();
            self.plant_cross_pool_locks(&spent);
            let pre = dump(&self.st, &accts);
            let upre = self.udump();
            for a in 0..2 {
                let usk = self.accts[a].usk.clone();
                let r = catch(|| {
                    zcash_client_backend::data_api::wallet::create_proposed_transactions::<_, _, Infallible, _, Infallible, _>(
                        self.st.wallet_mut(),
                        &net,
                        &sapling::prover::mock::MockSpendProver,
                        &sapling::prover::mock::MockOutputProver,
                        &zcash_client_backend::data_api::wallet::SpendingKeys::from_unified_spending_key(usk),
                        OvkPolicy::Sender,
                        &p,
                        if never { Some(BlockHeight::from_u32(0)) } else { None },
                    )
                });
                if let Some(Ok(txids)) = r {
                    self.emit_store(&pre, &upre, &spent);
                    if !never {
                        self.pending_t.push(txids[0]);
                    }
                    self.bump("op_shield_created");
                    return Some(txids[0]);
                }
            }
            self.bump("op_shield_create_failed");
        }
        None
    }

    fn put_utxo(&mut self, a: usize, mined: Option<BlockHeight>, v: u64) -> Option<WalletTransparentOutput<AccountUuid>> {
        let mut h = [0u8; 32];
        h.copy_from_slice(&self.rng.bytes(32));
        let op = OutPoint::new(h, self.rng.below(3) as u32);
        let utxo = WalletTransparentOutput::from_parts(
            op,
            TxOut::new(Zatoshis::from_u64(v).unwrap(), self.taddrs[a].script().into()),
            mined,
            Some(self.accts[a].id),
            Some(TransparentKeyScope::EXTERNAL),
            None,
        )
        .unwrap();
        let r = catch(|| self.st.wallet_mut().put_received_transparent_utxo(&utxo));
        if matches!(r, Some(Ok(_))) { Some(utxo) } else { None }
    }

    /// A shielding transaction with 2-3 transparent inputs of DIFFERENT ages, shielded at zero
    /// confirmations and mined at once; then proposals at every confirmation depth while the tip
    /// advances past the trusted / untrusted thresholds of the inputs.
    fn op_shield_scenario(&mut self) {
        let Some(tip) = self.st.wallet().chain_height().unwrap() else { return };
        let tipu = u32::from(tip);
        let a = self.rng.below(2) as usize;
        // every existing transparent output of the account is spent first, so the scenario's inputs are exactly these
        let n = 2 + self.rng.below(2) as usize;
        let mut offs: Vec<u32> = vec![0, 2 + self.rng.below(4) as u32, 9 + self.rng.below(6) as u32];
        offs.truncate(n);
        for o in offs {
            let v = self.uvalue() + 15000;
            self.used_uvalues.insert(v);
            self.put_utxo(a, Some(BlockHeight::from_u32(tipu.saturating_sub(o).max(ACTIVATION))), v);
        }
        self.plain_acct = Some(a);
        let tx = self.op_shield_store(false);
        self.plain_acct = None;
        let Some(txid) = tx else { return };
        self.pending_t.retain(|t| *t != txid);
        if let Some((h, _)) = catch(|| self.st.generate_next_block_including(txid)) {
            self.after_block(h, true);
            self.scan_pending();
            self.bump("op_shield_scenario_mined");
            self.focus = Some((a, ShieldedPool::Sapling));
            for _ in 0..12 {
                self.op_empty(1, true);
                self.queries(3, 1);
            }
            self.focus = None;
        }
    }

    /// Two devices on one seed: device B holds a transparent output and stores a transaction S spending
    /// it; this wallet first learns S (unmined, decrypt_and_store_transaction) and only THEN the output
    /// (put_received_transparent_utxo, as read from the network's UTXO set).
    fn op_two_device(&mut self) {
        let Some(tip) = self.st.wallet().chain_height().unwrap() else { return };
        let tipu = u32::from(tip);
        let a = self.rng.below(2) as usize;
        let mut b = H::new(self.seed, 9_000_000, self.nu63);
        b.op_empty((tipu - ACTIVATION + 1) as usize, true);
        let v = self.uvalue() + 25000;
        self.used_uvalues.insert(v);
        let mined = Some(BlockHeight::from_u32(tipu.saturating_sub(self.rng.below(4) as u32).max(ACTIVATION)));
        let Some(utxo) = b.put_utxo(a, mined, v) else { return };
        let inner = standard::SingleOutputChangeStrategy::<TestDb>::new(
            StandardFeeRule::Zip317,
            None,
            ShieldedPool::Sapling,
            DustOutputPolicy::default(),
        );
        let sel = GreedyInputSelector::<TestDb>::new();
        let net = b.st.network().clone();
        let to = b.accts[a].id;
        let addr = b.taddrs[a];
        let p = catch(|| {
            propose_shielding::<_, _, _, _, Infallible>(
                b.st.wallet_mut(),
                &net,
                &sel,
                &inner,
                Zatoshis::const_from_u64(1),
                &[addr],
                to,
                ConfirmationsPolicy::MIN,
                CoinbaseFilter::AllTransparentOutputs,
                None,
            )
        });
        let Some(Ok(p)) = p else { self.bump("op_two_device_no_proposal"); return };
        let usk = b.accts[a].usk.clone();
        let r = catch(|| {
            zcash_client_backend::data_api::wallet::create_proposed_transactions::<_, _, Infallible, _, Infallible, _>(
                b.st.wallet_mut(),
                &net,
                &sapling::prover::mock::MockSpendProver,
                &sapling::prover::mock::MockOutputProver,
                &zcash_client_backend::data_api::wallet::SpendingKeys::from_unified_spending_key(usk),
                OvkPolicy::Sender,
                &p,
                None,
            )
        });
        let Some(Ok(txids)) = r else { self.bump("op_two_device_no_tx"); return };
        let txid = txids[0];
        let tx = b.st.wallet().get_transaction(txid).unwrap().unwrap();
        // this device: the spender first ...
        let r = catch(|| zcash_client_backend::data_api::wallet::decrypt_and_store_transaction(&net, self.st.wallet_mut(), &tx, None));
        if !matches!(r, Some(Ok(_))) {
            self.bump("op_two_device_store_failed");
            return;
        }
        let mut tb = [0u8; 32];
        tb.copy_from_slice(txid.as_ref());
        self.known_spends.push((utxo.outpoint().hash().to_vec(), utxo.outpoint().n(), tb));
        // ... then the output it spends
        let r = catch(|| self.st.wallet_mut().put_received_transparent_utxo(&utxo));
        self.bump(if matches!(r, Some(Ok(_))) { "op_two_device_spend_before_output" } else { "op_two_device_put_failed" });
        self.tqueries(3, 2);
    }

    fn op_lock_utxo(&mut self) {
        let ud = self.udump();
        if ud.is_empty() {
            return;
        }
        let u = &ud[self.rng.below(ud.len() as u64) as usize];
        let mut h = [0u8; 32];
        h.copy_from_slice(&u.txid);
        let r = OutputRef::new(TxId::from_bytes(h), PoolType::TRANSPARENT, u.oidx);
        let tip = self.st.wallet().chain_height().unwrap().map(u32::from).unwrap_or(0);
        let exp = tip + 1 + self.rng.below(30) as u32;
        let k = 1 + self.rng.below(2) as u8;
        let _ = catch(|| self.st.wallet_mut().lock_outputs(&[r], owner(k), BlockHeight::from_u32(exp)));
        self.bump("op_lock_utxo");
    }

    fn tqueries(&mut self, nsel: usize, nsh: usize) {
        let ud = self.udump();
        for _ in 0..nsel {
            self.q_tselect(&ud);
        }
        for _ in 0..nsh {
            let accts = self.acct_ids();
            let ud = self.udump();
            let d = dump(&self.st, &accts);
            let lock = if self.rng.chance(1, 4) {
                Some(LockRequest::new(owner(1 + self.rng.below(3) as u8), self.rng.below(8) as u32))
            } else {
                None
            };
            self.q_shield(&ud, &d, lock, false);
        }
    }

    fn bump(&mut self, k: &str) {
        *self.stats.entry(k.to_string()).or_insert(0) += 1;
    }

    fn acct_ids(&self) -> Vec<AccountUuid> {
        self.accts.iter().map(|a| a.id).collect()
    }

    fn value(&mut self) -> u64 {
        if self.nu63 && self.rng.chance(2, 3) {
            // around the ZIP 318 canonical denominations 0.01 / 0.02 / 0.05 ZEC
            return match self.rng.below(6) {
                0 => 1_000_000,
                1 => 1_015_000,
                2 => 1_020_000,
                3 => 2_030_000,
                4 => self.rng.range(1_000_000, 6_000_000),
                _ => self.rng.range(900_000, 2_500_000),
            };
        }
        match self.rng.below(10) {
            0 => 5000,
            1 => 5001,
            2 => 4000,
            3 => 10000,
            4 => 15000,
            5 => 20000,
            6 => self.rng.range(5001, 30000),
            7 => self.rng.range(30000, 100000),
            8 => 60000,
            _ => self.rng.range(10000, 300000),
        }
    }

    fn scan_pending(&mut self) {
        // scan all outstanding blocks in ascending runs
        let mut hs = std::mem::take(&mut self.unscanned);
        hs.sort();
        hs.dedup();
        let mut i = 0;
        while i < hs.len() {
            let mut j = i;
            while j + 1 < hs.len() && hs[j + 1] == hs[j] + 1 {
                j += 1;
            }
            self.st.scan_cached_blocks(hs[i], j - i + 1);
            i = j + 1;
        }
    }

    fn after_block(&mut self, h: BlockHeight, scan_now: bool) {
        if scan_now && !self.unscanned.is_empty() && self.rng.chance(1, 2) {
            // scan only the newest block: the older ones stay an unscanned gap below the tip
            self.st.scan_cached_blocks(h, 1);
            self.bump("scan_newest_only_leaving_gap");
            return;
        }
        self.unscanned.push(h);
        if scan_now {
            self.scan_pending();
        }
    }

    fn op_receive(&mut self, scan_now: bool) {
        let a = self.rng.below(2) as usize;
        let n = 1 + self.rng.below(3) as usize;
        let vals: Vec<u64> = (0..n).map(|_| self.value()).collect();
        let at = match self.rng.below(5) {
            0 => AddressType::Internal,
            1 => AddressType::DiversifiedExternal(zip32::DiversifierIndex::from(1u32)),
            _ => AddressType::DefaultExternal,
        };
        let internal = matches!(at, AddressType::Internal);
        let ufvk = self.accts[a].usk.to_unified_full_viewing_key();
        if self.nu63 && self.rng.chance(1, 5) {
            let fvk = zcash_client_backend::data_api::testing::IronwoodFvk(ufvk.orchard().unwrap().clone());
            let outs: Vec<_> =
                vals.iter().map(|v| FakeCompactOutput::new(fvk.clone(), at, Zatoshis::from_u64(*v).unwrap())).collect();
            let (h, _, _nfs) = self.st.generate_next_block_multi(&outs);
            self.after_block(h, scan_now);
            self.bump("op_receive_ironwood");
        } else if self.rng.chance(if self.nu63 { 1 } else { 3 }, 5) {
            let fvk = ufvk.sapling().unwrap().clone();
            let outs: Vec<_> =
                vals.iter().map(|v| FakeCompactOutput::new(fvk.clone(), at, Zatoshis::from_u64(*v).unwrap())).collect();
            let (h, _, nfs) = self.st.generate_next_block_multi(&outs);
            for (nf, v) in nfs.into_iter().zip(vals.iter()) {
                self.nf_sapling.push((a, nf, *v, internal));
            }
            self.after_block(h, scan_now);
            self.bump("op_receive_sapling");
        } else {
            let fvk = ufvk.orchard().unwrap().clone();
            let outs: Vec<_> =
                vals.iter().map(|v| FakeCompactOutput::new(fvk.clone(), at, Zatoshis::from_u64(*v).unwrap())).collect();
            let (h, _, nfs) = self.st.generate_next_block_multi(&outs);
            for (nf, v) in nfs.into_iter().zip(vals.iter()) {
                self.nf_orchard.push((a, nf, *v, internal));
            }
            self.after_block(h, scan_now);
            self.bump("op_receive_orchard");
        }
    }

    fn op_empty(&mut self, n: usize, scan_now: bool) {
        for _ in 0..n {
            let (h, _) = self.st.generate_empty_block();
            self.unscanned.push(h);
        }
        if scan_now {
            self.scan_pending();
        }
        self.bump("op_empty_blocks");
    }

    fn op_spend_external(&mut self, scan_now: bool) {
        let to_usk = UnifiedSpendingKey::from_seed(self.st.network(), &[9u8; 32], zip32::AccountId::ZERO).unwrap();
        let to = to_usk.to_unified_full_viewing_key().sapling().unwrap().default_address().1;
        if self.rng.bool() && !self.nf_sapling.is_empty() {
            let i = self.rng.below(self.nf_sapling.len() as u64) as usize;
            let (a, nf, v, _) = self.nf_sapling.remove(i);
            let fvk = self.accts[a].usk.to_unified_full_viewing_key().sapling().unwrap().clone();
            let (h, _) = self.st.generate_next_block_spending(
                &fvk,
                (nf, Zatoshis::from_u64(v).unwrap()),
                Address::Sapling(to),
                Zatoshis::from_u64(v / 2).unwrap(),
            );
            self.after_block(h, scan_now);
            self.bump("op_spend_external_sapling");
        } else if !self.nf_orchard.is_empty() {
            let i = self.rng.below(self.nf_orchard.len() as u64) as usize;
            let (a, nf, v, _) = self.nf_orchard.remove(i);
            let fvk = self.accts[a].usk.to_unified_full_viewing_key().orchard().unwrap().clone();
            let (h, _) = self.st.generate_next_block_spending(
                &fvk,
                (nf, Zatoshis::from_u64(v).unwrap()),
                Address::Sapling(to),
                Zatoshis::from_u64(v / 2).unwrap(),
            );
            self.after_block(h, scan_now);
            self.bump("op_spend_external_orchard");
        }
    }

    /// Learn the opaque note ids the API hands out.
    fn learn_ids(&mut self) {
        let Some((target, _)) = self.st.wallet().get_target_and_anchor_heights(NonZeroU32::MIN).unwrap() else {
            return;
        };
        for a in self.acct_ids() {
            if let Ok(ns) = self.st.wallet().select_spendable_notes(
                a,
                TargetValue::AllFunds(MaxSpendMode::MaxSpendable),
                &[ShieldedPool::Sapling, ShieldedPool::Orchard, ShieldedPool::Ironwood],
                target,
                ConfirmationsPolicy::MIN,
                &[],
                LockFilter::Unfiltered,
            ) {
                for n in ns.ironwood().iter() {
                    self.ids.insert(nid(n.internal_note_id()), *n.internal_note_id());
                }
                for n in ns.sapling().iter() {
                    self.ids.insert(nid(n.internal_note_id()), *n.internal_note_id());
                }
                for n in ns.orchard().iter() {
                    self.ids.insert(nid(n.internal_note_id()), *n.internal_note_id());
                }
            }
        }
    }

    fn env_coq(&self, d: &Dump, pol: &ConfirmationsPolicy) -> (String, Option<(TargetHeight, BlockHeight)>) {
        let ta = self.st.wallet().get_target_and_anchor_heights(pol.trusted()).unwrap();
        let s = match ta {
            Some((t, a)) => format!("(Env {} (Some {}) {})", u32::from(BlockHeight::from(t)), u32::from(a), d.coq_ranges()),
            None => {
                let t = d.tip.map(|x| x + 1).unwrap_or(0);
                format!("(Env {} None {})", t, d.coq_ranges())
            }
        };
        (s, ta)
    }

    fn rand_lf(&mut self) -> Lf {
        let set = |v: Vec<u8>| NonEmptyBTreeSet::from_set(v.into_iter().map(owner).collect::<BTreeSet<_>>()).unwrap();
        match self.rng.below(8) {
            0 => Lf::Unfiltered,
            1 | 2 | 3 => Lf::Pol(LockedInputPolicy::Exclude),
            4 => Lf::Pol(LockedInputPolicy::PreferUnlocked(set(vec![1]))),
            5 => Lf::Pol(LockedInputPolicy::PreferLocked(set(vec![1]))),
            6 => Lf::Pol(LockedInputPolicy::PreferUnlocked(set(vec![1, 2]))),
            _ => Lf::Pol(LockedInputPolicy::PreferLocked(set(vec![2]))),
        }
    }

    fn rand_target(&mut self, d: &Dump) -> u64 {
        let tot: i64 = d.rows.iter().map(|r| r.value).sum();
        match self.rng.below(8) {
            0 => 0,
            1 => 1,
            2 => d.rows.get(self.rng.below(d.rows.len().max(1) as u64) as usize).map(|r| r.value as u64).unwrap_or(7),
            3 => d.rows.get(self.rng.below(d.rows.len().max(1) as u64) as usize).map(|r| r.value as u64 + 1).unwrap_or(7),
            4 => (tot.max(0) as u64) + 1,
            5 => self.rng.range(0, (tot.max(1) as u64) / 2 + 1),
            _ => self.rng.range(0, tot.max(1) as u64),
        }
    }

    fn q_select(&mut self, d: &Dump) {
        let pols = policies();
        let pol = if self.focus.is_some() {
            // asymmetric policies: trusted < untrusted
            *self.rng.pick(&[
                ConfirmationsPolicy::default(),
                ConfirmationsPolicy::new_unchecked(1, 3, true),
                ConfirmationsPolicy::new_unchecked(3, 5, true),
                ConfirmationsPolicy::new_unchecked(2, 6, true),
            ])
        } else if self.rng.bool() {
            ConfirmationsPolicy::MIN
        } else {
            *self.rng.pick(&pols)
        };
        let (env, ta) = self.env_coq(d, &pol);
        let Some((target, _)) = ta else {
            return;
        };
        let mut a = self.rng.below(2) as usize;
        let mut pool = if self.rng.bool() { ShieldedPool::Sapling } else { ShieldedPool::Orchard };
        if self.nu63 && self.rng.chance(1, 6) {
            pool = ShieldedPool::Ironwood;
        }
        let focus = self.focus.filter(|_| self.rng.chance(3, 4));
        if !d.rows.is_empty() && self.rng.chance(3, 4) {
            let r = &d.rows[self.rng.below(d.rows.len() as u64) as usize];
            if r.acct < 2 {
                a = r.acct as usize;
            }
            pool = r.pool;
        }
        if let Some((fa, fp)) = focus {
            a = fa;
            pool = fp;
        }
        let lf = self.rand_lf();
        let mut excl: Vec<ReceivedNoteId> = vec![];
        if self.rng.chance(1, 3) {
            let known: Vec<ReceivedNoteId> = self.ids.values().cloned().collect();
            for _ in 0..self.rng.below(3) {
                if !known.is_empty() {
                    excl.push(*self.rng.pick(&known));
                }
            }
        }
        let (tv, tvc) = match self.rng.below(10) {
            0 => (TargetValue::AllFunds(MaxSpendMode::MaxSpendable), "TAllSpendable".to_string()),
            1 => (TargetValue::AllFunds(MaxSpendMode::Everything), "TAllEverything".to_string()),
            _ => {
                let t = self.rand_target(d);
                (TargetValue::AtLeast(Zatoshis::from_u64(t).unwrap()), format!("(TAtLeast {})", t))
            }
        };
        let acct = self.accts[a].id;
        let lfr = match &lf {
            Lf::Unfiltered => LockFilter::Unfiltered,
            Lf::Pol(p) => LockFilter::Policy(p),
        };
        let r = catch(|| self.st.wallet().select_spendable_notes(acct, tv, &[pool], target, pol, &excl, lfr));
        let obs = match r {
            None => PANIC.to_string(),
            Some(Ok(ns)) => {
                let mut v: Vec<i64> = ns
                    .sapling()
                    .iter()
                    .map(|n| nid(n.internal_note_id()).1)
                    .chain(ns.orchard().iter().map(|n| nid(n.internal_note_id()).1))
                    .chain(ns.ironwood().iter().map(|n| nid(n.internal_note_id()).1))
                    .collect();
                v.sort();
                ok(list(v.iter().map(|x| x.to_string())))
            }
            Some(Err(e)) => {
                let s = format!("{:?}", e);
                if s.starts_with("IneligibleNotes") {
                    err("EIneligible")
                } else {
                    err("EOther")
                }
            }
        };
        let ex = list(excl.iter().map(|x| pid_coq(&nid(x))));
        case(format!(
            "CSelect {} {} {} {} {} {} {} {} {}",
            d.coq_db(),
            env,
            a,
            pool_name(pool),
            tvc,
            pol_coq(&pol),
            ex,
            lf.coq(),
            obs
        ));
        self.ncases += 1;
        self.bump("q_select");
    }

    /// Returns the proposal when one was produced (for creating a pending transaction).
    fn q_propose(
        &mut self,
        d: &Dump,
        force_sapling_only: bool,
        lock: Option<LockRequest>,
    ) -> Option<(usize, Proposal<StandardFeeRule, ReceivedNoteId>)> {
        let pols = policies();
        let pol = if !force_sapling_only && self.focus.is_some() {
            *self.rng.pick(&[
                ConfirmationsPolicy::default(),
                ConfirmationsPolicy::new_unchecked(1, 3, true),
                ConfirmationsPolicy::new_unchecked(3, 5, true),
                ConfirmationsPolicy::new_unchecked(2, 6, true),
            ])
        } else if force_sapling_only || self.rng.bool() {
            ConfirmationsPolicy::MIN
        } else {
            *self.rng.pick(&pols)
        };
        let (env, _) = self.env_coq(d, &pol);
        if !force_sapling_only && self.rng.chance(1, 4) {
            self.op_lock_utxo();
        }
        let ud = self.udump();
        let want_t = !force_sapling_only && !ud.is_empty() && self.rng.chance(2, 5);
        let mut a = self.rng.below(2) as usize;
        if want_t && self.rng.chance(2, 3) {
            let u = &ud[self.rng.below(ud.len() as u64) as usize];
            if u.acct < 2 {
                a = u.acct as usize;
            }
        } else if !d.rows.is_empty() && self.rng.chance(3, 4) {
            let r = &d.rows[self.rng.below(d.rows.len() as u64) as usize];
            if r.acct < 2 {
                a = r.acct as usize;
            }
        }
        let acct = self.accts[a].id;
        let to_usk = UnifiedSpendingKey::from_seed(self.st.network(), &[9u8; 32], zip32::AccountId::ZERO).unwrap();
        let to_ufvk = to_usk.to_unified_full_viewing_key();
        if let (false, Some((fa, _))) = (force_sapling_only, self.focus) {
            a = fa;
        }
        if force_sapling_only {
            // the account holding the most unspent, unlocked Sapling value
            let v = |acct: i64| -> i64 {
                d.rows
                    .iter()
                    .filter(|r| r.acct == acct && r.pool == ShieldedPool::Sapling && r.spenders.is_empty() && r.lock.is_none() && r.value > 5000)
                    .map(|r| r.value)
                    .sum()
            };
            a = if v(0) >= v(1) { 0 } else { 1 };
        }
        let acct = self.accts[a].id;
        let canon_pay = self.nu63 && !force_sapling_only && self.rng.chance(3, 5);
        let kind = if force_sapling_only { 0 } else if canon_pay { if self.rng.chance(5, 6) { 2 } else { 0 } } else { self.rng.below(4) };
        let (addr, orchard_out): (Address, bool) = match kind {
            0 | 1 => (Address::Sapling(to_ufvk.sapling().unwrap().default_address().1), false),
            2 => (Address::Unified(to_ufvk.default_address(UnifiedAddressRequest::AllAvailableKeys).unwrap().0), true),
            _ => (
                Address::Transparent(
                    *to_ufvk.default_address(UnifiedAddressRequest::AllAvailableKeys).unwrap().0.transparent().unwrap(),
                ),
                false,
            ),
        };
        let npay = if !force_sapling_only && !canon_pay && self.rng.chance(1, 4) { 2 } else { 1 };
        let mut pays = vec![];
        let mut total = 0u64;
        for _ in 0..npay {
            let mine: i64 = d
                .rows
                .iter()
                .filter(|r| r.acct == a as i64 && r.spenders.is_empty() && r.block.is_some() && r.value > 5000)
                .map(|r| r.value)
                .sum();
            let one: u64 = d
                .rows
                .iter()
                .filter(|r| r.acct == a as i64 && r.spenders.is_empty())
                .map(|r| r.value as u64)
                .nth(self.rng.below(3) as usize)
                .unwrap_or(20000);
            let amt = (match self.rng.below(11) {
                8 | 9 => one.saturating_sub(10000 + self.rng.below(3) * 5000),
                10 => (mine.max(2) as u64) / 4,
                0 => 1,
                1 => self.rng.range(1, 20000),
                2 => (mine.max(1) as u64).saturating_sub(10000) / npay,
                3 => (mine.max(1) as u64) / npay,
                4 => one.saturating_sub(10000),
                5 => one,
                6 => (mine.max(2) as u64) / 3,
                _ => self.rng.range(1, (mine.max(2) as u64) / npay + 1),
            })
            .max(1);
            let amt = if force_sapling_only { self.rng.range(1, 12000) } else { amt };
            let amt = if want_t && self.rng.chance(2, 3) {
                // around what the account's coins can pay: largest coin, two largest, minus typical fees
                let mut vs: Vec<u64> = ud.iter().filter(|u| u.acct == a as i64 && u.spenders.is_empty()).map(|u| u.value as u64).collect();
                vs.sort();
                vs.reverse();
                let base = match self.rng.below(3) {
                    0 => vs.first().copied().unwrap_or(20000),
                    1 => vs.iter().take(2).sum::<u64>(),
                    _ => vs.iter().sum::<u64>(),
                };
                base.saturating_sub(*self.rng.pick(&[0u64, 5000, 10000, 10001, 15000, 20000, 2000])).max(1)
            } else {
                amt
            };
            let amt = if canon_pay {
                match self.rng.below(8) {
                    0 => 2_000_000,
                    1 => 1_000_001,
                    2 => 5_000_000,
                    _ => 1_000_000,
                }
            } else {
                amt
            };
            total += amt;
            pays.push(Payment::without_memo(addr.to_zcash_address(self.st.network()), Zatoshis::from_u64(amt).unwrap()));
        }
        let req = TransactionRequest::new(pays).unwrap();
        let lip = if force_sapling_only {
            LockedInputPolicy::Exclude
        } else if lock.is_some() && self.rng.bool() {
            // draw through the locks of the OTHER owner, then try to lock: InputsLocked
            let other = if lock.unwrap().owner().as_bytes()[0] == 1 { 2 } else { 1 };
            LockedInputPolicy::PreferLocked(
                NonEmptyBTreeSet::from_set([owner(other)].into_iter().collect::<BTreeSet<_>>()).unwrap(),
            )
        } else {
            match self.rand_lf() {
                Lf::Unfiltered => LockedInputPolicy::Exclude,
                Lf::Pol(p) => p,
            }
        };
        let pools: Vec<ShieldedPool> = if force_sapling_only {
            vec![ShieldedPool::Sapling]
        } else {
            match self.rng.below(if self.nu63 { 8 } else { 5 }) {
                0 => vec![ShieldedPool::Sapling],
                1 => vec![ShieldedPool::Orchard],
                5 => vec![ShieldedPool::Ironwood, ShieldedPool::Orchard],
                6 | 7 => vec![ShieldedPool::Sapling, ShieldedPool::Orchard, ShieldedPool::Ironwood],
                _ => vec![ShieldedPool::Sapling, ShieldedPool::Orchard],
            }
        };
        // what the wallet reports about the bucketed (canonical ZIP 318 crossing) attempt
        let canon = if self.nu63 {
            let interval = zcash_protocol::zip318::AnchorBucketInterval::custom(NonZeroU32::new(GRID).unwrap());
            let ta = self.st.wallet().get_target_and_anchor_heights(pol.trusted()).unwrap();
            let mut boundary = 0u32;
            let mut computable = false;
            let mut sel_anchor: Option<u32> = None;
            let mut fee: Option<u64> = None;
            if let Some((t, _)) = ta {
                fee = zcash_client_backend::fees::canonical_crossing_fee(self.st.network(), BlockHeight::from(t))
                    .ok()
                    .map(u64::from);
                if let Some(bp) = pol.bucketed(interval, t, BlockHeight::from_u32(ACTIVATION)) {
                    let b = bp.anchor_height(t);
                    boundary = u32::from(b);
                    computable = self.st.wallet().anchor_computable(ShieldedPool::Orchard, b).unwrap_or(false);
                    sel_anchor = self
                        .st
                        .wallet()
                        .get_target_and_anchor_heights(bp.trusted())
                        .unwrap()
                        .map(|(_, a)| u32::from(a));
                }
            }
            format!(
                "(Some (CI {} {} {} {} {} {}))",
                GRID,
                ACTIVATION,
                boundary,
                boolc(computable),
                opt(sel_anchor.map(|x| x.to_string())),
                opt(fee.map(|x| x.to_string()))
            )
        } else {
            "None".to_string()
        };
        let xmap: BTreeMap<(Vec<u8>, u32), i64> = ud.iter().map(|u| ((u.txid.clone(), u.oidx), u.id)).collect();
        // the call's transparent spend policy
        let other = 1 - a;
        let (tsp, tspc): (Option<zcash_client_backend::data_api::wallet::input_selection::TransparentSpendPolicy>, String) =
            if !want_t {
                (None, "None".into())
            } else {
                use zcash_client_backend::data_api::wallet::input_selection::TransparentSpendPolicy as Tsp;
                match self.rng.below(5) {
                    0 | 1 => (Some(Tsp::any_account_addr()), "(Some None)".into()),
                    2 => (Some(Tsp::from_one_address(self.taddrs[a])), format!("(Some (Some [{}]))", a)),
                    3 => (Some(Tsp::from_one_address(self.taddrs[other])), format!("(Some (Some [{}]))", other)),
                    _ => (
                        Some(Tsp::from_addresses(nonempty::NonEmpty::from_vec(self.taddrs.clone()).unwrap())),
                        "(Some (Some [0; 1]))".into(),
                    ),
                }
            };
        let mut sp = SpendPolicy::shielded_pools(pools.clone()).with_locked_input_policy(lip.clone());
        if let Some(t) = tsp.clone() {
            sp = sp.with_transparent(t);
        }
        // the SELECTOR's own policy (documented for the shielding entry points only) differs from the call's
        let sel_lip = match self.rand_lf() {
            Lf::Unfiltered => LockedInputPolicy::Exclude,
            Lf::Pol(p) => p,
        };
        let (mode, k) = if force_sapling_only {
            (0u8, 0usize)
        } else {
            match self.rng.below(10) {
                0 | 1 => (1, 0),
                2 => (2, 1 + self.rng.below(4) as usize),
                3 => (3, 0),
                _ => (0, 0),
            }
        };
        let multi = !force_sapling_only && self.rng.chance(1, 3);
        let change_pool =
            if force_sapling_only || (!canon_pay && self.rng.bool()) { ShieldedPool::Sapling } else { ShieldedPool::Orchard };
        let sel = GreedyInputSelector::<TestDb>::new().with_locked_input_policy(sel_lip.clone());
        let net = self.st.network().clone();
        let (res, log, strat) = if multi {
            let inner = standard::MultiOutputChangeStrategy::<TestDb>::new(
                StandardFeeRule::Zip317,
                None,
                change_pool,
                DustOutputPolicy::default(),
                SplitPolicy::with_min_output_value(
                    std::num::NonZeroUsize::new(2).unwrap(),
                    Zatoshis::const_from_u64(20000),
                ),
            );
            let rec = Rec { inner, mode, k, log: RefCell::new(vec![]), utxo_ids: None, xfer_ids: xmap.clone() };
            let r = catch(|| {
                propose_transfer::<_, _, _, _, Infallible>(
                    self.st.wallet_mut(),
                    &net,
                    acct,
                    &sel,
                    &rec,
                    req.clone(),
                    pol,
                    &sp,
                    lock,
                    None,
                )
            });
            (r.map(|x| x.map_err(|e| format!("{:?}", e))), rec.log.into_inner(), 1)
        } else {
            let inner = standard::SingleOutputChangeStrategy::<TestDb>::new(
                StandardFeeRule::Zip317,
                None,
                change_pool,
                DustOutputPolicy::default(),
            );
            let rec = Rec { inner, mode, k, log: RefCell::new(vec![]), utxo_ids: None, xfer_ids: xmap.clone() };
            let r = catch(|| {
                propose_transfer::<_, _, _, _, Infallible>(
                    self.st.wallet_mut(),
                    &net,
                    acct,
                    &sel,
                    &rec,
                    req.clone(),
                    pol,
                    &sp,
                    lock,
                    None,
                )
            });
            (r.map(|x| x.map_err(|e| format!("{:?}", e))), rec.log.into_inner(), 0)
        };
        let mut ret = None;
        let obs = match &res {
            None => PANIC.to_string(),
            Some(Ok(p)) => {
                let steps = p.steps().iter().map(|s| {
                    let mut ins: Vec<(ShieldedPool, i64)> = s
                        .shielded_inputs()
                        .map(|si| si.notes().iter().map(|n| nid(n.internal_note_id())).collect())
                        .unwrap_or_default();
                    ins.sort();
                    let inval: u64 = s
                        .shielded_inputs()
                        .map(|si| si.notes().iter().map(|n| u64::from(n.note().value())).sum())
                        .unwrap_or(0)
                        + s.transparent_inputs().iter().map(|o| u64::from(o.value())).sum::<u64>();
                    let mut tids: Vec<i64> = s
                        .transparent_inputs()
                        .iter()
                        .map(|o| *xmap.get(&(o.outpoint().hash().to_vec(), o.outpoint().n())).unwrap_or(&-1))
                        .collect();
                    tids.sort();
                    let pay: u64 = s.transaction_request().total().unwrap().map(u64::from).unwrap_or(0);
                    format!(
                        "(Step {} {} {} {} {} {} {})",
                        list(ins.iter().map(pid_coq)),
                        inval,
                        list(tids.iter().map(|x| z(*x as i128))),
                        pay,
                        changes_coq(s.balance().proposed_change()),
                        u64::from(s.balance().fee_required()),
                        opt(s.anchor_height().map(|a| u32::from(a).to_string()))
                    )
                });
                ok(list(steps))
            }
            Some(Err(s)) => err(if s.starts_with("InsufficientFunds") {
                "EInsufficient"
            } else if s.starts_with("ScanRequired") {
                "ESyncRequired"
            } else if s.starts_with("Proposal(InputsLocked") {
                "ELocked"
            } else if s.starts_with("Proposal(BalanceError") {
                "EBalance"
            } else if s.starts_with("Proposal(") {
                "EProposal"
            } else if s.starts_with("Change(") {
                "EChange"
            } else {
                "EOther"
            }),
        };
        let cls = obs.split(|c: char| c == ' ' || c == ')').nth(1).unwrap_or("Panic").to_string();
        self.bump(&format!(
            "propose_{}",
            if obs.starts_with("(Ok") { "ok".to_string() } else { cls }
        ));
        let lockc = match lock {
            None => "None".to_string(),
            Some(l) => format!("(Some ({}, {}))", l.owner().as_bytes()[0], l.for_blocks()),
        };
        case(format!(
            "CPropose {} {} {} {} {} {} {} {} {} {} {} {} {} {} {} {}",
            d.coq_db(),
            list(ud.iter().map(|u| u.coq())),
            env,
            a,
            total,
            boolc(npay == 1),
            boolc(orchard_out),
            list(pools.iter().map(|p| pool_name(*p).to_string())),
            pol_coq(&pol),
            boolc(pol.allow_zero_conf_shielding()),
            lip_coq(&lip),
            tspc,
            lockc,
            canon,
            list(log.into_iter()),
            obs
        ));
        self.ncases += 1;
        if let Some(Ok(p)) = res {
            ret = Some((a, p));
        }
        let _ = strat;
        ret
    }

    fn q_lock(&mut self, d: &Dump) {
        if d.rows.is_empty() {
            return;
        }
        let n = 1 + self.rng.below(3) as usize;
        let mut picks: Vec<&Row> = vec![];
        let locked: Vec<&Row> = d.rows.iter().filter(|r| r.lock.is_some()).collect();
        for _ in 0..n {
            if !locked.is_empty() && self.rng.bool() {
                picks.push(locked[self.rng.below(locked.len() as u64) as usize]);
            } else {
                picks.push(&d.rows[self.rng.below(d.rows.len() as u64) as usize]);
            }
        }
        let mut refs: Vec<OutputRef> = picks.iter().map(|r| r.oref()).collect();
        let mut refc: Vec<String> = picks.iter().map(|r| pid_coq(&(r.pool, r.id))).collect();
        if self.rng.chance(1, 8) {
            // a reference to an output the wallet does not have
            refs.push(OutputRef::new(TxId::from_bytes([0xee; 32]), PoolType::SAPLING, 0));
            refc.push("(Sapling, 999999)".into());
        }
        let k = 1 + self.rng.below(3) as u8;
        let tip = d.tip.unwrap_or(0);
        let exp = match self.rng.below(5) {
            0 => tip,
            1 => tip + 1,
            2 => tip + 2,
            3 => tip + 1 + self.rng.below(6) as i64,
            _ => tip + 5 + self.rng.below(40) as i64,
        };
        let accts = self.acct_ids();
        let r = catch(|| self.st.wallet_mut().lock_outputs(&refs, owner(k), BlockHeight::from_u32(exp as u32)));
        let post = dump(&self.st, &accts);
        let obs = match r {
            None => PANIC.to_string(),
            Some(Ok(n)) => ok(format!("{}", n)),
            Some(Err(e)) => {
                let s = format!("{:?}", e);
                err(if s.starts_with("LockFailure") { "ELockFailure" } else { "EOther" })
            }
        };
        self.bump(if obs.starts_with("(Ok") { "lock_ok" } else { "lock_fail" });
        case(format!(
            "CLock {} {} {} {} {} {} {}",
            d.coq_db(),
            oz(d.tip),
            list(refc.into_iter()),
            k,
            exp,
            obs,
            post.coq_db()
        ));
        self.ncases += 1;
    }

    fn op_unlock(&mut self, d: &Dump) {
        let locked: Vec<&Row> = d.rows.iter().filter(|r| r.lock.is_some()).collect();
        if locked.is_empty() {
            return;
        }
        if self.rng.chance(1, 4) {
            let a = self.accts[self.rng.below(2) as usize].id;
            self.st.wallet_mut().clear_locked_outputs(a).unwrap();
            self.bump("op_clear_locks");
        } else {
            let r = locked[self.rng.below(locked.len() as u64) as usize];
            let k = if self.rng.chance(2, 3) { r.owner.unwrap_or(1) as u8 } else { 1 + self.rng.below(3) as u8 };
            self.st.wallet_mut().unlock_output(&r.oref(), owner(k)).unwrap();
            self.bump("op_unlock");
        }
    }

    /// Before a store: lock (owner 3, 30 blocks) rows of the OTHER received-output tables whose row id
    /// equals the id of an output about to be spent. Row ids are allocated per table.
    fn plant_cross_pool_locks(&mut self, spent: &[(Option<ShieldedPool>, i64)]) {
        let accts = self.acct_ids();
        let d = dump(&self.st, &accts);
        let ud = self.udump();
        let tip = d.tip.unwrap_or(0) as u32;
        let ids: BTreeSet<i64> = spent.iter().map(|x| x.1).collect();
        let mut refs: Vec<OutputRef> = vec![];
        for r in &d.rows {
            if ids.contains(&r.id) && !spent.contains(&(Some(r.pool), r.id)) && r.lock.is_none() && self.rng.chance(3, 4) {
                refs.push(r.oref());
            }
        }
        for u in &ud {
            if ids.contains(&u.id) && !spent.contains(&(None, u.id)) && u.lock.is_none() && self.rng.chance(3, 4) {
                let mut h = [0u8; 32];
                h.copy_from_slice(&u.txid);
                refs.push(OutputRef::new(TxId::from_bytes(h), PoolType::TRANSPARENT, u.oidx));
            }
        }
        for r in refs {
            let _ = catch(|| self.st.wallet_mut().lock_outputs(&[r], owner(3), BlockHeight::from_u32(tip + 30)));
            self.bump("cross_pool_lock_planted");
        }
    }

    fn emit_store(&mut self, pre: &Dump, upre: &[Urow], spent: &[(Option<ShieldedPool>, i64)]) {
        let accts = self.acct_ids();
        let post = dump(&self.st, &accts);
        let upost = self.udump();
        let refs: Vec<(ShieldedPool, i64)> = spent.iter().filter_map(|x| x.0.map(|p| (p, x.1))).collect();
        let tids: Vec<i64> = spent.iter().filter(|x| x.0.is_none()).map(|x| x.1).collect();
        case(format!(
            "CStore {} {} {} {} {} {} {}",
            pre.coq_db(),
            list(upre.iter().map(|u| u.coq())),
            pre.tip.map(|t| t + 1).unwrap_or(0),
            list(refs.iter().map(pid_coq)),
            list(tids.iter().map(|x| x.to_string())),
            post.coq_db(),
            list(upost.iter().map(|u| u.coq()))
        ));
        self.ncases += 1;
        self.bump("store_cases");
    }

    fn op_pending(&mut self, d: &Dump) {
        // a Sapling-only transfer created for real (mock provers) and stored as a pending transaction
        let lock = if self.rng.bool() { Some(LockRequest::new(owner(1 + self.rng.below(2) as u8), 1 + self.rng.below(5) as u32)) } else { None };
        if let Some((a, p)) = self.q_propose(d, true, lock) {
            let usk = self.accts[a].usk.clone();
            // one pending transaction in three never expires (expiry height 0)
            let never = self.rng.chance(1, 2);
            let net = self.st.network().clone();
            let spent: Vec<(Option<ShieldedPool>, i64)> = p
                .steps()
                .iter()
                .flat_map(|s| s.shielded_inputs().map(|si| si.notes().iter().map(|n| nid(n.internal_note_id())).collect::<Vec<_>>()).unwrap_or_default())
                .map(|(pl, id)| (Some(pl), id))
                .collect();
            self.plant_cross_pool_locks(&spent);
            let accts = self.acct_ids();
            let pre = dump(&self.st, &accts);
            let upre = self.udump();
            let r = catch(|| {
                zcash_client_backend::data_api::wallet::create_proposed_transactions::<_, _, Infallible, _, Infallible, _>(
                    self.st.wallet_mut(),
                    &net,
                    &sapling::prover::mock::MockSpendProver,
                    &sapling::prover::mock::MockOutputProver,
                    &zcash_client_backend::data_api::wallet::SpendingKeys::from_unified_spending_key(usk.clone()),
                    OvkPolicy::Sender,
                    &p,
                    if never { Some(BlockHeight::from_u32(0)) } else { None },
                )
            });
            if matches!(r, Some(Ok(_))) {
                self.emit_store(&pre, &upre, &spent);
            }
            match r {
                Some(Ok(txids)) => {
                    if never {
                        // kept unmined for the rest of the history
                        self.bump("op_pending_created_expiry0");
                    } else {
                        self.pending.push(txids[0]);
                        self.bump("op_pending_created");
                    }
                }
                _ => self.bump("op_pending_create_failed"),
            }
        }
    }

    /// Advance the tip so that the target height lands on (or next to) a boundary present in the
    /// wallet: the expiry height of a stored unmined transaction, or a lock expiry height.
    fn op_boundary(&mut self, d: &Dump) {
        let Some(tip) = d.tip else { return };
        let mut bs: Vec<i64> = vec![];
        for r in &d.rows {
            for s in &r.spenders {
                if s.0.is_none() {
                    if let Some(x) = s.1 {
                        bs.push(x);
                    }
                }
            }
            if let Some(x) = r.lock {
                bs.push(x);
            }
        }
        bs.retain(|x| *x >= tip + 1 && *x <= tip + 60);
        if bs.is_empty() {
            return;
        }
        let b = bs[self.rng.below(bs.len() as u64) as usize];
        // target = tip' + 1 in {b - 1, b, b + 1}
        let want_target = b - 1 + self.rng.below(3) as i64;
        let n = (want_target - 1 - tip).max(0) as usize;
        if n > 0 {
            self.op_empty(n, true);
            self.bump("op_advance_to_boundary");
        }
    }

    fn op_mine_pending(&mut self, scan_now: bool) {
        if self.pending.is_empty() {
            return;
        }
        let i = self.rng.below(self.pending.len() as u64) as usize;
        let txid = self.pending.remove(i);
        let r = catch(|| self.st.generate_next_block_including(txid));
        if let Some((h, _)) = r {
            self.after_block(h, scan_now);
            self.bump("op_mine_pending");
        }
    }

    fn queries(&mut self, nsel: usize, nprop: usize) {
        self.learn_ids();
        let accts = self.acct_ids();
        let d = dump(&self.st, &accts);
        for _ in 0..nsel {
            self.q_select(&d);
        }
        for _ in 0..nprop {
            let lock = if self.rng.chance(1, 4) {
                Some(LockRequest::new(owner(1 + self.rng.below(3) as u8), self.rng.below(12) as u32))
            } else {
                None
            };
            let d2 = dump(&self.st, &accts);
            self.q_propose(&d2, false, lock);
        }
    }

    fn history(&mut self, nops: usize, nsel: usize, nprop: usize) {
        if self.rng.chance(1, 3) {
            // nothing scanned yet: no anchor
            self.queries(1, 2);
            self.tqueries(1, 1);
        }
        // a first funded block so that most histories have something to select
        self.op_receive(true);
        if self.rng.chance(2, 3) {
            self.op_utxo();
            self.op_utxo();
        }
        let n0 = 1 + self.rng.below(3) as usize;
        self.op_empty(n0, true);
        for _ in 0..nops {
            let scan_now = !self.rng.chance(1, 4);
            let accts = self.acct_ids();
            match self.rng.below(37) {
                34 => self.op_shield_scenario(),
                35 | 36 => self.op_two_device(),
                32 | 33 => {
                    let d = dump(&self.st, &accts);
                    self.op_pending(&d)
                }
                25..=27 => {
                    self.op_utxo();
                    if self.rng.bool() {
                        self.op_utxo();
                    }
                }
                28 | 31 => {
                    self.plain_acct = Some(self.rng.below(2) as usize);
                    self.op_shield_store(true);
                    self.plain_acct = None;
                }
                29 => {
                    self.op_lock_utxo();
                    self.op_lock_utxo();
                }
                30 => {
                    if !self.pending_t.is_empty() {
                        let i = self.rng.below(self.pending_t.len() as u64) as usize;
                        let txid = self.pending_t.remove(i);
                        if let Some((h, _)) = catch(|| self.st.generate_next_block_including(txid)) {
                            self.after_block(h, true);
                            self.bump("op_mine_shielding");
                        }
                    }
                }
                22..=24 => {
                    let d = dump(&self.st, &accts);
                    self.op_boundary(&d)
                }
                20 | 21 => {
                    self.learn_ids();
                    let d = dump(&self.st, &accts);
                    self.q_lock(&d)
                }
                0..=5 => self.op_receive(scan_now),
                6..=8 => {
                    let n = match self.rng.below(7) {
                        _ if self.nu63 && self.rng.bool() => 3 + self.rng.below(GRID as u64 * 2) as usize,
                        0 => 10,
                        1 => 41,
                        6 => 55,
                        _ => 1 + self.rng.below(4) as usize,
                    };
                    self.op_empty(n, scan_now)
                }
                9 | 10 => self.op_spend_external(scan_now),
                11 | 12 => {
                    self.learn_ids();
                    let d = dump(&self.st, &accts);
                    self.q_lock(&d)
                }
                13 => {
                    let d = dump(&self.st, &accts);
                    self.op_unlock(&d)
                }
                14..=16 => {
                    let d = dump(&self.st, &accts);
                    self.op_pending(&d)
                }
                17 | 18 => self.op_mine_pending(scan_now),
                _ => self.scan_pending(),
            }
            if self.rng.chance(1, 3) {
                let n = 1 + self.rng.below(3) as usize;
                self.op_empty(n, true);
            }
            self.queries(nsel, nprop);
            self.tqueries(2, 1);
        }
    }
}

fn main() {
    let a = args();
    if std::env::var("C08_DEBUG").is_err() {
        quiet_panics();
    }
    let (nhist, nops, nsel, nprop) = if a.search {
        (60, 16, 8, 4)
    } else if a.thorough() {
        (120, 16, 8, 4)
    } else {
        (20, 12, 7, 3)
    };
    let mut stats: BTreeMap<String, u64> = BTreeMap::new();
    let mut total = 0usize;
    for i in 0..nhist {
        let mut h = H::new(a.seed, i as u64 + if a.search { 1000 } else { 0 }, i % 2 == 1);
        let r = catch(|| h.history(nops, nsel, nprop));
        if r.is_none() {
            *stats.entry("history_aborted_by_harness_panic".into()).or_insert(0) += 1;
        }
        total += h.ncases;
        for (k, v) in h.stats.iter() {
            *stats.entry(k.clone()).or_insert(0) += v;
        }
    }
    let body: Vec<String> = stats.iter().map(|(k, v)| format!("\"{}\": {}", k, v)).collect();
    stat(format!("{{\"histories\": {}, \"cases\": {}, {}}}", nhist, total, body.join(", ")));
}
