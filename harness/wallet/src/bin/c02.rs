//! C02 — wallet database writes are all-or-nothing and never observed half-applied.
//!
//! For every write operation of the public wallet API, on database states reached by a short
//! wallet history (`vhist::World`), this harness
//!  * runs the operation once on a fresh connection to a file copy of the state, counting the
//!    SQLite VM steps (progress-handler invocations) and recording the hook event trace;
//!  * re-runs it on fresh copies with a fault injected at step k (SQLITE_INTERRUPT from the
//!    progress handler) or at the commit (commit hook vetoes), records the trace, a canonical dump
//!    through the same connection, through a second connection, of a crash image (database file
//!    + journal / WAL copied at fault time and inside the commit hook, reopened), and then retries
//!    the operation without fault (other RNG seed) and dumps again;
//!  * re-runs it with a second connection taking live dumps at sampled steps, and with a second
//!    connection stepping a two-statement read (inside / outside one read transaction) with the
//!    writer interleaved.
//! One `C (CRun ...)` line per run; the Coq side decides discipline, atomicity, isolation, retry.
use std::collections::HashMap;
use std::path::{Path, PathBuf};
use std::sync::{Arc, Mutex};
use std::time::{Duration, SystemTime};

use rand_chacha::ChaChaRng;
use rand_core::{RngCore, SeedableRng};
use rusqlite::hooks::Action;
use rusqlite::Connection;
use secrecy::SecretVec;
use sha2::{Digest, Sha256};

use zcash_client_backend::data_api::chain::{scan_cached_blocks, ChainState, CommitmentTreeRoot};
use zcash_client_backend::data_api::wallet::{decrypt_and_store_transaction, ConfirmationsPolicy};
use zcash_client_backend::data_api::{
    AccountBirthday, AccountPurpose, OutputLockStore, SentTransaction, SentTransactionOutput,
    TransactionStatus, WalletCommitmentTrees, WalletRead, WalletWrite,
};
use zcash_client_backend::data_api::locking::LockOwner;
use zcash_client_backend::wallet::{OutputRef, Recipient, WalletTransparentOutput};
use zcash_client_sqlite::pool_migration::orchard_ironwood::PoolMigrations;
use zcash_client_sqlite::util::testing::FixedClock;
use zcash_client_sqlite::WalletDb;
use zcash_keys::keys::{UnifiedAddressRequest, UnifiedSpendingKey};
use zcash_pool_migration::denomination::DenominationPlan;
use zcash_pool_migration::engine::{
    MigrationLockOwner, MigrationState, MigrationStatus, MigrationTransaction, MigrationTransferId, MigrationTxKind,
    MigrationTxState, PoolMigrationRead, PoolMigrationWrite, ProvedTransaction,
};
use zcash_pool_migration::preparation::PreparationPlan;
use zcash_pool_migration::satisfiability::ReplanThreshold;
use zcash_pool_migration::scheduling::AnchorBucketInterval;
use zcash_primitives::block::BlockHash;
use zcash_primitives::transaction::{Transaction, TransactionData, TxVersion};
use zcash_protocol::consensus::{BlockHeight, BranchId};
use zcash_protocol::local_consensus::LocalNetwork;
use zcash_protocol::value::Zatoshis;
use zcash_protocol::{PoolType, ShieldedProtocol, TxId};
use zcash_transparent::address::TransparentAddress;
use zcash_transparent::bundle::{Authorized, OutPoint, TxIn, TxOut};

use vhist::{self as hist, MemSource, OutSpec, Pool, TxSpec, World, BASE};

type Wdb<'a> = WalletDb<&'a mut Connection, LocalNetwork, FixedClock, ChaChaRng>;

// ---------------------------------------------------------------------------------------------
// event trace
// ---------------------------------------------------------------------------------------------

#[derive(Clone, Copy, PartialEq, Eq, Debug)]
enum Ev {
    OpStart(u64),
    OpEnd(bool),
    Begin,
    Write(u64),
    Commit,
    Rollback,
    TxnEnd,
    StmtErr,
    RBegin,
    RRead,
    REnd,
}

impl Ev {
    fn coq(&self) -> String {
        match self {
            Ev::OpStart(o) => format!("OpStart {o}"),
            Ev::OpEnd(b) => format!("OpEnd {b}"),
            Ev::Begin => "Begin".into(),
            Ev::Write(w) => format!("Write {w}"),
            Ev::Commit => "Commit".into(),
            Ev::Rollback => "Rollback".into(),
            Ev::TxnEnd => "TxnEnd".into(),
            Ev::StmtErr => "StmtErr".into(),
            Ev::RBegin => "RBegin".into(),
            Ev::RRead => "RRead".into(),
            Ev::REnd => "REnd".into(),
        }
    }
}

/// Run-length encoded Coq list `[(ev, count); ...]`.
fn coq_trace(t: &[Ev]) -> String {
    let mut out: Vec<String> = vec![];
    let mut i = 0;
    while i < t.len() {
        let mut j = i;
        while j < t.len() && t[j] == t[i] {
            j += 1;
        }
        out.push(format!("({}, {})", t[i].coq(), j - i));
        i = j;
    }
    format!("[{}]", out.join("; "))
}

#[derive(Clone, Copy, PartialEq, Eq, Debug)]
enum ReaderKind {
    Bracketed,
    Unbracketed,
}

struct ReaderPlan {
    kind: ReaderKind,
    j1: u64,
    j2: u64,
    stage: u8, // 0 nothing done, 1 first half read, 2 finished
    first: Vec<u8>,
}

/// Number of statements that aborted with an error, as reported by SQLite's error log
/// (`SQLITE_CONFIG_LOG`, "statement aborts at ..."), not counting the harness's own dump
/// statements (`SELECT * FROM "t"`). The log is process-global; the only connections that run
/// anything else than dump statements are the writer connections, one at a time.
static STMT_ERRS: std::sync::atomic::AtomicU64 = std::sync::atomic::AtomicU64::new(0);

extern "C" fn log_cb(_p: *mut std::os::raw::c_void, _code: std::os::raw::c_int, msg: *const std::os::raw::c_char) {
    if msg.is_null() {
        return;
    }
    let m = unsafe { std::ffi::CStr::from_ptr(msg) }.to_string_lossy();
    if (m.starts_with("statement aborts") || m.starts_with("abort at")) && !m.contains("SELECT * FROM \"") && !m.contains("sqlite_master") {
        if std::env::var("C02LOG").is_ok() {
            eprintln!("SQLITE-LOG {m}");
        }
        STMT_ERRS.fetch_add(1, std::sync::atomic::Ordering::SeqCst);
    }
}

fn install_log() {
    unsafe {
        let cb: extern "C" fn(*mut std::os::raw::c_void, std::os::raw::c_int, *const std::os::raw::c_char) = log_cb;
        let rc = rusqlite::ffi::sqlite3_config(rusqlite::ffi::SQLITE_CONFIG_LOG, cb, std::ptr::null_mut::<std::os::raw::c_void>());
        assert_eq!(rc, 0, "sqlite3_config(SQLITE_CONFIG_LOG) must be called before SQLite is initialised");
    }
}

/// Tracer state shared with the SQLite hooks of the writer connection.
struct TS {
    active: bool,
    ev: Vec<Ev>,
    steps: u64,
    abort_at: u64,
    fired: bool,
    veto_commit: bool,
    txn_open: bool,
    handle: usize,
    table_code: HashMap<String, u64>,
    tables: Arc<Vec<String>>,
    path: PathBuf,
    /// (position in ev, kind, digest); digest 0 = not available (busy)
    obs: Vec<(usize, u8, u64)>,
    live_steps: Vec<u64>,
    second: Option<Connection>,
    reader: Option<ReaderPlan>,
    crash_copies: bool,
    commit_step: u64,
    crash_seq: u32,
    write_steps: Vec<u64>,
    errs_seen: u64,
}

fn autocommit(handle: usize) -> bool {
    unsafe { rusqlite::ffi::sqlite3_get_autocommit(handle as *mut rusqlite::ffi::sqlite3) != 0 }
}

/// True when some prepared *data* statement of the connection is in the middle of execution.
/// The progress handler is also invoked once more when a statement has already halted (after
/// its effect, e.g. after BEGIN or COMMIT took place); a fault delivered there would be reported
/// *after* the statement completed, which no real interrupt or I/O error does. Nor is a fault
/// delivered inside BEGIN / COMMIT / ROLLBACK themselves: a failing COMMIT is injected through
/// the commit hook, and an interrupted ROLLBACK (rusqlite's `Transaction::drop` ignores its
/// error and the connection stays inside the transaction) is outside the fault model. The
/// injected fault is deferred to the next invocation inside a running data statement.
fn stmt_running(handle: usize) -> bool {
    unsafe {
        let db = handle as *mut rusqlite::ffi::sqlite3;
        let mut st = rusqlite::ffi::sqlite3_next_stmt(db, std::ptr::null_mut());
        let mut running = false;
        while !st.is_null() {
            if rusqlite::ffi::sqlite3_stmt_busy(st) != 0 {
                let p = rusqlite::ffi::sqlite3_sql(st);
                if !p.is_null() {
                    let sql = std::ffi::CStr::from_ptr(p).to_string_lossy().trim_start().to_ascii_uppercase();
                    if sql.starts_with("BEGIN") || sql.starts_with("COMMIT") || sql.starts_with("ROLLBACK") || sql.starts_with("END") {
                        return false;
                    }
                }
                running = true;
            }
            st = rusqlite::ffi::sqlite3_next_stmt(db, st);
        }
        running
    }
}

impl TS {
    /// Derive Begin / TxnEnd from the autocommit flag of the writer connection.
    /// Statement aborts reported since the last look become StmtErr events.
    fn flush_errs(&mut self) {
        let n = STMT_ERRS.load(std::sync::atomic::Ordering::SeqCst);
        while self.errs_seen < n {
            self.errs_seen += 1;
            self.ev.push(Ev::StmtErr);
        }
    }

    fn sample(&mut self) {
        self.flush_errs();
        let ac = autocommit(self.handle);
        if !ac && !self.txn_open {
            self.txn_open = true;
            self.ev.push(Ev::Begin);
        } else if ac && self.txn_open {
            self.txn_open = false;
            self.ev.push(Ev::TxnEnd);
        }
    }

    fn crash_image(&mut self) {
        if !self.crash_copies {
            return;
        }
        self.crash_seq += 1;
        let dst = self.path.with_file_name(format!("crash{}.db", self.crash_seq));
        let d = crash_copy_and_dump(&self.path, &dst, &self.tables);
        self.obs.push((self.ev.len(), 3, d));
    }

    fn reader_step(&mut self, after_end: bool) {
        let steps = self.steps;
        let Some(mut r) = self.reader.take() else { return };
        let conn = self.second.as_ref().expect("reader connection");
        let half = self.tables.len() / 2;
        if r.stage == 0 && (steps >= r.j1 || after_end) {
            let mut ok = true;
            if r.kind == ReaderKind::Bracketed {
                ok = conn.execute_batch("BEGIN").is_ok();
                self.ev.push(Ev::RBegin);
            }
            match if ok { dump_tables(conn, &self.tables[..half]) } else { None } {
                Some(b) => {
                    r.first = b;
                    self.ev.push(Ev::RRead);
                    r.stage = 1;
                }
                None => {
                    // busy: abandon the read
                    if r.kind == ReaderKind::Bracketed {
                        let _ = conn.execute_batch("ROLLBACK");
                        self.ev.push(Ev::REnd);
                    }
                    r.stage = 2;
                }
            }
        }
        if r.stage == 1 && (steps >= r.j2 || after_end) {
            let second = dump_tables(conn, &self.tables[half..]);
            if second.is_some() {
                self.ev.push(Ev::RRead);
            }
            if r.kind == ReaderKind::Bracketed {
                let _ = conn.execute_batch("COMMIT");
                self.ev.push(Ev::REnd);
            }
            if let Some(s) = second {
                let mut all = r.first.clone();
                all.extend_from_slice(&s);
                let k = if r.kind == ReaderKind::Bracketed { 4 } else { 5 };
                self.obs.push((self.ev.len(), k, digest(&all)));
            }
            r.stage = 2;
        }
        self.reader = Some(r);
    }
}

fn install(conn: &Connection, ts: &Arc<Mutex<TS>>) {
    let h = unsafe { conn.handle() } as usize;
    ts.lock().unwrap().handle = h;
    let t = ts.clone();
    conn.progress_handler(
        1,
        Some(move || {
            let mut s = t.lock().unwrap();
            if !s.active {
                return false;
            }
            s.steps += 1;
            s.sample();
            let st = s.steps;
            if s.live_steps.contains(&st) {
                let d = match s.second.as_ref().and_then(|c| dump_tables(c, &s.tables)) {
                    Some(b) => digest(&b),
                    None => 0,
                };
                let pos = s.ev.len();
                s.obs.push((pos, 2, d));
            }
            if s.reader.is_some() {
                s.reader_step(false);
            }
            if s.abort_at != 0 && st >= s.abort_at && !s.fired && stmt_running(s.handle) {
                s.fired = true;
                if std::env::var("C02BT").is_ok() {
                    eprintln!("FIRE at step {st}:\n{}", std::backtrace::Backtrace::force_capture());
                }
                s.crash_image();
                return true;
            }
            false
        }),
    );
    let t = ts.clone();
    conn.update_hook(Some(move |a: Action, _db: &str, table: &str, _rowid: i64| {
        let mut s = t.lock().unwrap();
        if !s.active {
            return;
        }
        s.sample();
        let tc = *s.table_code.get(table).unwrap_or(&999);
        let ac = match a {
            Action::SQLITE_INSERT => 0,
            Action::SQLITE_UPDATE => 1,
            Action::SQLITE_DELETE => 2,
            _ => 3,
        };
        let st = s.steps;
        s.write_steps.push(st);
        s.ev.push(Ev::Write(tc * 4 + ac));
    }));
    let t = ts.clone();
    conn.commit_hook(Some(move || {
        let mut s = t.lock().unwrap();
        if !s.active {
            return false;
        }
        s.flush_errs();
        s.commit_step = s.steps;
        s.crash_image();
        if s.veto_commit && !s.fired {
            s.fired = true;
            return true; // the commit becomes a rollback; the rollback hook records it
        }
        s.txn_open = false;
        s.ev.push(Ev::Commit);
        false
    }));
    let t = ts.clone();
    conn.rollback_hook(Some(move || {
        let mut s = t.lock().unwrap();
        if !s.active {
            return;
        }
        s.flush_errs();
        s.txn_open = false;
        s.ev.push(Ev::Rollback);
    }));
}

// ---------------------------------------------------------------------------------------------
// canonical dump
// ---------------------------------------------------------------------------------------------

fn list_tables(conn: &Connection) -> Vec<String> {
    let mut st = conn
        .prepare("SELECT name FROM sqlite_master WHERE type = 'table' AND name NOT LIKE 'sqlite_stat%' ORDER BY name")
        .unwrap();
    let v: Vec<String> = st.query_map([], |r| r.get(0)).unwrap().map(|x| x.unwrap()).collect();
    v
}

/// Serialises the given tables: table name, then every row (all columns; blobs in hex), rows
/// sorted. Columns holding freshly drawn identifiers (`uuid`) are blanked; `transactions.raw` is
/// replaced by the txid and the length. `None` = database busy.
fn dump_tables(conn: &Connection, tables: &[String]) -> Option<Vec<u8>> {
    use rusqlite::types::ValueRef;
    let mut out = Vec::new();
    for t in tables {
        let mut st = match conn.prepare(&format!("SELECT * FROM \"{t}\"")) {
            Ok(s) => s,
            Err(_) => return None,
        };
        let cols: Vec<String> = st.column_names().iter().map(|s| s.to_string()).collect();
        let n = cols.len();
        let mut rows: Vec<String> = vec![];
        let mut q = match st.query([]) {
            Ok(q) => q,
            Err(_) => return None,
        };
        loop {
            match q.next() {
                Ok(Some(r)) => {
                    let mut s = String::new();
                    for i in 0..n {
                        if cols[i] == "uuid" || cols[i].ends_with("_uuid") {
                            s.push_str("U|");
                            continue;
                        }
                        if t == "transactions" && cols[i] == "raw" {
                            // the serialized transaction carries signatures drawn with fresh randomness
                            // (PCZT extraction); its identity is the txid, which covers everything else
                            if let ValueRef::Blob(x) = r.get_ref(i).unwrap() {
                                if let Ok(tx) = Transaction::read(x, BranchId::Nu5) {
                                    s.push_str(&format!("x{}:{}|", tx.txid(), x.len()));
                                    continue;
                                }
                            }
                        }
                        match r.get_ref(i).unwrap() {
                            ValueRef::Null => s.push_str("N|"),
                            ValueRef::Integer(x) => s.push_str(&format!("i{x}|")),
                            ValueRef::Real(x) => s.push_str(&format!("r{x}|")),
                            ValueRef::Text(x) => s.push_str(&format!("t{}|", String::from_utf8_lossy(x))),
                            ValueRef::Blob(x) => s.push_str(&format!("b{}|", vcommon::hex(x))),
                        }
                    }
                    rows.push(s);
                }
                Ok(None) => break,
                Err(_) => return None,
            }
        }
        rows.sort();
        out.extend_from_slice(format!("#{t}:{}\n", rows.len()).as_bytes());
        for r in rows {
            out.extend_from_slice(r.as_bytes());
            out.push(b'\n');
        }
    }
    Some(out)
}

fn digest(b: &[u8]) -> u64 {
    let h = Sha256::digest(b);
    let mut x = [0u8; 8];
    x.copy_from_slice(&h[..8]);
    (u64::from_le_bytes(x) >> 1) | 1 // never 0 (0 = unavailable)
}

fn full_digest(conn: &Connection, tables: &[String]) -> u64 {
    dump_tables(conn, tables).map(|b| digest(&b)).unwrap_or(0)
}

fn side_files(p: &Path) -> Vec<(PathBuf, &'static str)> {
    let s = p.to_string_lossy().to_string();
    vec![(PathBuf::from(format!("{s}-journal")), "-journal"), (PathBuf::from(format!("{s}-wal")), "-wal")]
}

fn remove_db(p: &Path) {
    let _ = std::fs::remove_file(p);
    for (f, _) in side_files(p) {
        let _ = std::fs::remove_file(f);
    }
    let _ = std::fs::remove_file(PathBuf::from(format!("{}-shm", p.to_string_lossy())));
}

/// The image a crash at this instant would leave: database file plus rollback journal / WAL,
/// copied, reopened by a fresh connection (which performs SQLite's recovery) and dumped.
fn crash_copy_and_dump(src: &Path, dst: &Path, tables: &[String]) -> u64 {
    remove_db(dst);
    if std::fs::copy(src, dst).is_err() {
        return 0;
    }
    for (f, suf) in side_files(src) {
        if f.exists() {
            let _ = std::fs::copy(&f, PathBuf::from(format!("{}{}", dst.to_string_lossy(), suf)));
        }
    }
    let d = match Connection::open(dst) {
        Ok(c) => full_digest(&c, tables),
        Err(_) => 0,
    };
    remove_db(dst);
    d
}

// ---------------------------------------------------------------------------------------------
// operations
// ---------------------------------------------------------------------------------------------

struct Ctx {
    world: World,
    /// a transparent-only transaction paying account 0's transparent address
    tx_in: Transaction,
    /// a transparent-only transaction paying a foreign address (sent by account 0)
    txs_out: Vec<Transaction>,
    taddr0: TransparentAddress,
    foreign_taddr: TransparentAddress,
    note_refs: Vec<OutputRef>,
    other_seed: Vec<u8>,
    genesis: ChainState,
    /// nullifier of account 0's Orchard note received at BASE and spent at BASE + 2
    orch_nf: [u8; 32],
}

type OpFn = Box<dyn Fn(&mut Connection, &Ctx, u64) -> Result<(), String>>;

struct OpDef {
    /// name of the API method in the regenerated shape table
    method: &'static str,
    label: &'static str,
    run: OpFn,
}

fn clock() -> FixedClock {
    FixedClock::new(SystemTime::UNIX_EPOCH + Duration::from_secs(1_740_441_600))
}

fn wdb<'a>(c: &'a mut Connection, ctx: &Ctx, rs: u64) -> Wdb<'a> {
    WalletDb::from_connection(c, ctx.world.net, clock(), ChaChaRng::seed_from_u64(rs))
}

fn e<T, E: std::fmt::Debug>(r: Result<T, E>) -> Result<(), String> {
    r.map(|_| ()).map_err(|x| format!("{x:?}"))
}

fn transparent_tx(net: &LocalNetwork, to: &TransparentAddress, value: u64, height: u32, salt: u8) -> Transaction {
    let h = BlockHeight::from_u32(height);
    TransactionData::from_parts(
        TxVersion::V5,
        BranchId::for_height(net, h),
        0,
        h + 100,
        Some(zcash_transparent::bundle::Bundle {
            vin: vec![TxIn::from_parts(OutPoint::new([salt; 32], 1), Default::default(), 0)],
            vout: vec![TxOut::new(Zatoshis::const_from_u64(value), to.script().into())],
            authorization: Authorized,
        }),
        None,
        None,
        None,
    )
    .freeze()
    .expect("freeze")
}

fn migration_state(status: MigrationStatus, n: u32, owner: Option<[u8; 32]>) -> MigrationState {
    let txs = (0..n)
        .map(|id| {
            MigrationTransaction::from_parts(
                MigrationTransferId::new(id),
                MigrationTxKind::Transfer { crossing: id as usize },
                vec![0xAB, id as u8],
                Vec::new(),
                BlockHeight::from_u32(0),
                BlockHeight::from_u32(0),
                None,
                TxId::from_bytes([id as u8 + 1; 32]),
                if id == 0 { MigrationTxState::Signed } else { MigrationTxState::AwaitingSignature },
                if id == 0 { owner.map(MigrationLockOwner::from_bytes) } else { None },
                None,
                vec![[id as u8 + 7; 32]],
                None,
            )
        })
        .collect();
    MigrationState::from_parts(
        status,
        DenominationPlan::from_stored_parts(Vec::new(), Zatoshis::ZERO, None, Zatoshis::ZERO, Zatoshis::ZERO, Zatoshis::ZERO)
            .expect("plan"),
        PreparationPlan::from_parts(Vec::new(), Vec::new()),
        txs,
        AnchorBucketInterval::ZIP_318,
        ReplanThreshold::DEFAULT,
    )
}

/// A COMPLETE migration whose transfers were mined at the given heights.
fn complete_migration(heights: &[u32]) -> MigrationState {
    let txs = heights
        .iter()
        .enumerate()
        .map(|(i, h)| {
            let txid = TxId::from_bytes([0xA0 + i as u8; 32]);
            MigrationTransaction::from_parts(
                MigrationTransferId::new(i as u32),
                MigrationTxKind::Transfer { crossing: i },
                vec![0xCD, i as u8],
                Vec::new(),
                BlockHeight::from_u32(0),
                BlockHeight::from_u32(0),
                None,
                txid,
                MigrationTxState::Mined { txid, height: BlockHeight::from_u32(*h) },
                None,
                None,
                vec![[i as u8 + 0x30; 32]],
                None,
            )
        })
        .collect();
    MigrationState::from_parts(
        MigrationStatus::Complete,
        DenominationPlan::from_stored_parts(Vec::new(), Zatoshis::ZERO, None, Zatoshis::ZERO, Zatoshis::ZERO, Zatoshis::ZERO)
            .expect("plan"),
        PreparationPlan::from_parts(Vec::new(), Vec::new()),
        txs,
        AnchorBucketInterval::ZIP_318,
        ReplanThreshold::DEFAULT,
    )
}

const OWNER: [u8; 32] = [0x5a; 32];

fn standalone_keys() -> Vec<secp256k1::PublicKey> {
    let secp = secp256k1::Secp256k1::new();
    (1u8..=3).map(|i| secp256k1::PublicKey::from_secret_key(&secp, &secp256k1::SecretKey::from_slice(&[i; 32]).unwrap())).collect()
}

fn ops() -> Vec<OpDef> {
    let mut v: Vec<OpDef> = vec![];
    let mut add = |method: &'static str, label: &'static str, run: OpFn| v.push(OpDef { method, label, run });
    add("WalletWrite::put_blocks", "scan2", Box::new(|c, x, rs| {
        let w = &x.world;
        let from = w.tip_height() - 1;
        let st = w.block(from - 1).unwrap().state_after.clone();
        let src = MemSource(&w.chain);
        let mut db = wdb(c, x, rs);
        e(scan_cached_blocks(&w.net, &src, &mut db, BlockHeight::from_u32(from), &st, 2))
    }));
    add("WalletWrite::update_chain_tip", "tip+7", Box::new(|c, x, rs| {
        let h = x.world.tip_height() + 7;
        e(wdb(c, x, rs).update_chain_tip(BlockHeight::from_u32(h)))
    }));
    add("WalletWrite::truncate_to_height", "trunc", Box::new(|c, x, rs| {
        e(wdb(c, x, rs).truncate_to_height(BlockHeight::from_u32(BASE + 1)))
    }));
    add("WalletWrite::create_account", "create", Box::new(|c, x, rs| {
        let seed = SecretVec::new(x.other_seed.clone());
        let b = AccountBirthday::from_parts(x.genesis.clone(), None);
        e(wdb(c, x, rs).create_account("fresh", &seed, &b, None))
    }));
    add("WalletWrite::import_account_ufvk", "import", Box::new(|c, x, rs| {
        let usk = UnifiedSpendingKey::from_seed(&x.world.net, &x.other_seed, zip32::AccountId::try_from(3).unwrap()).unwrap();
        let b = AccountBirthday::from_parts(x.genesis.clone(), None);
        e(wdb(c, x, rs).import_account_ufvk("imp", &usk.to_unified_full_viewing_key(), &b, AccountPurpose::ViewOnly, None))
    }));
    add("WalletWrite::delete_account", "delete", Box::new(|c, x, rs| e(wdb(c, x, rs).delete_account(x.world.accts[1].id))));
    add("WalletWrite::get_next_available_address", "nextaddr", Box::new(|c, x, rs| {
        e(wdb(c, x, rs).get_next_available_address(x.world.accts[0].id, UnifiedAddressRequest::AllAvailableKeys))
    }));
    add("WalletWrite::store_decrypted_tx", "decrypt_store", Box::new(|c, x, rs| {
        let mut db = wdb(c, x, rs);
        e(decrypt_and_store_transaction(&x.world.net, &mut db, &x.tx_in, Some(BlockHeight::from_u32(BASE + 2))))
    }));
    // batches of 1, 2 and 3 cheap transparent-only transactions (multi-step proposals produce
    // batches); `bad` = index of a transaction whose funding account the wallet does not know, so
    // that the uninterrupted call fails after the earlier transactions of the batch were written
    fn store_batch(c: &mut Connection, x: &Ctx, rs: u64, n: usize, bad: Option<usize>) -> Result<(), String> {
        let outs = vec![SentTransactionOutput::from_parts(
            0,
            Recipient::External {
                recipient_address: zcash_keys::address::Address::from(x.foreign_taddr).to_zcash_address(&x.world.net),
                output_pool: PoolType::TRANSPARENT,
            },
            Zatoshis::const_from_u64(30_000),
            None,
        )];
        let created = time::OffsetDateTime::from_unix_timestamp(1_740_441_600).unwrap();
        let unknown = zcash_client_sqlite::AccountUuid::from_uuid(uuid::Uuid::from_bytes([7u8; 16]));
        let sent: Vec<_> = (0..n)
            .map(|i| {
                SentTransaction::new(
                    &x.txs_out[i],
                    created,
                    BlockHeight::from_u32(x.world.tip_height() + 1).into(),
                    if bad == Some(i) { unknown } else { x.world.accts[0].id },
                    &outs,
                    Zatoshis::const_from_u64(10_000),
                    &[],
                )
            })
            .collect();
        e(wdb(c, x, rs).store_transactions_to_be_sent(&sent))
    }
    add("WalletWrite::store_transactions_to_be_sent", "store_sent", Box::new(|c, x, rs| store_batch(c, x, rs, 1, None)));
    add("WalletWrite::store_transactions_to_be_sent", "store_sent2", Box::new(|c, x, rs| store_batch(c, x, rs, 2, None)));
    add("WalletWrite::store_transactions_to_be_sent", "store_sent3", Box::new(|c, x, rs| store_batch(c, x, rs, 3, None)));
    add("WalletWrite::store_transactions_to_be_sent", "store_sent_bad2", Box::new(|c, x, rs| store_batch(c, x, rs, 2, Some(1))));
    add("WalletWrite::store_transactions_to_be_sent", "store_sent_bad3", Box::new(|c, x, rs| store_batch(c, x, rs, 3, Some(2))));
    add("WalletWrite::set_transaction_status", "txstatus", Box::new(|c, x, rs| {
        let txid = x.world.chain[0].cb.vtx[0].txid();
        e(wdb(c, x, rs).set_transaction_status(txid, TransactionStatus::Mined(BlockHeight::from_u32(BASE))))
    }));
    add("OutputLockStore::lock_outputs", "lock", Box::new(|c, x, rs| {
        e(wdb(c, x, rs).lock_outputs(&x.note_refs, LockOwner::new(OWNER), BlockHeight::from_u32(BASE + 500)))
    }));
    add("OutputLockStore::unlock_output", "unlock", Box::new(|c, x, rs| e(wdb(c, x, rs).unlock_output(&x.note_refs[0], LockOwner::new(OWNER)))));
    add("OutputLockStore::clear_locked_outputs", "clearlocks", Box::new(|c, x, rs| e(wdb(c, x, rs).clear_locked_outputs(x.world.accts[0].id))));
    add("WalletCommitmentTrees::put_sapling_subtree_roots", "sroots", Box::new(|c, x, rs| {
        let node = |b: u8| sapling::Node::from_bytes([b; 32]).unwrap();
        let roots = vec![
            CommitmentTreeRoot::from_parts(BlockHeight::from_u32(BASE + 1), node(1)),
            CommitmentTreeRoot::from_parts(BlockHeight::from_u32(BASE + 2), node(2)),
        ];
        e(wdb(c, x, rs).put_sapling_subtree_roots(0, &roots))
    }));
    add("WalletCommitmentTrees::put_sapling_subtree_roots", "sroots_gap", Box::new(|c, x, rs| {
        // not adjacent to the stored shards: the uninterrupted call refuses (SubtreeDiscontinuity)
        let node = |b: u8| sapling::Node::from_bytes([b; 32]).unwrap();
        let roots = vec![CommitmentTreeRoot::from_parts(BlockHeight::from_u32(BASE + 1), node(3))];
        e(wdb(c, x, rs).put_sapling_subtree_roots(7, &roots))
    }));
    add("WalletCommitmentTrees::put_orchard_subtree_roots", "oroots", Box::new(|c, x, rs| {
        let node = |b: u8| orchard::tree::MerkleHashOrchard::from_bytes(&[b; 32]).unwrap();
        let roots = vec![CommitmentTreeRoot::from_parts(BlockHeight::from_u32(BASE + 1), node(1))];
        e(wdb(c, x, rs).put_orchard_subtree_roots(0, &roots))
    }));
    add("WalletWrite::put_received_transparent_utxo", "utxo", Box::new(|c, x, rs| {
        let out = WalletTransparentOutput::from_parts(
            OutPoint::new([9u8; 32], 0),
            TxOut::new(Zatoshis::const_from_u64(77_000), x.taddr0.script().into()),
            Some(BlockHeight::from_u32(BASE + 1)),
            None,
            None,
            None,
        )
        .unwrap();
        e(wdb(c, x, rs).put_received_transparent_utxo(&out))
    }));
    add("WalletWrite::reserve_next_n_ephemeral_addresses", "ephemeral", Box::new(|c, x, rs| {
        e(wdb(c, x, rs).reserve_next_n_ephemeral_addresses(x.world.accts[0].id, 3))
    }));
    add("WalletWrite::truncate_to_chain_state", "trunc_cs", Box::new(|c, x, rs| {
        let st = x.world.block(BASE + 2).unwrap().state_after.clone();
        e(wdb(c, x, rs).truncate_to_chain_state(st))
    }));
    add("WalletWrite::rewind_to_chain_state", "rewind", Box::new(|c, x, rs| {
        let st = x.world.block(BASE + 2).unwrap().state_after.clone();
        e(wdb(c, x, rs).rewind_to_chain_state(st, Default::default()))
    }));
    add("PoolMigrations::replace_migration", "mig_replace", Box::new(|c, x, _rs| {
        let mut pm = PoolMigrations::for_account(x.world.net, clock(), c, x.world.accts[0].id).map_err(|e| format!("{e:?}"))?;
        e(pm.replace_migration(&migration_state(MigrationStatus::InProgress, 3, Some(OWNER))))
    }));
    // a live migration whose never-broadcast transaction holds a note reservation (state S1: the
    // Orchard notes of account 0 are locked under OWNER) becomes terminal and is persisted
    for (label, status) in [("mig_supersede", MigrationStatus::Superseded), ("mig_fail", MigrationStatus::Failed), ("mig_cancelled", MigrationStatus::Cancelled)] {
        add("PoolMigrations::replace_migration", label, Box::new(move |c, x, _rs| {
            let mut pm = PoolMigrations::for_account(x.world.net, clock(), c, x.world.accts[0].id).map_err(|e| format!("{e:?}"))?;
            e(pm.replace_migration(&migration_state(status, 3, Some(OWNER))))
        }));
    }
    // a batch of three standalone transparent keys; in state S1 the third one is already imported
    // into account 1, so the uninterrupted call is refused after the first two were written
    add("WalletWrite::import_standalone_transparent_pubkeys", "import_pubkeys3", Box::new(|c, x, rs| {
        e(wdb(c, x, rs).import_standalone_transparent_pubkeys(x.world.accts[0].id, &standalone_keys()))
    }));
    // releases the retained checkpoints of every pool's tree (state S1 retains one per pool)
    add("WalletCommitmentTrees::remove_retained_checkpoints_below", "remove_retained", Box::new(|c, x, rs| {
        e(wdb(c, x, rs).remove_retained_checkpoints_below(BlockHeight::from_u32(x.world.tip_height() + 100)))
    }));
    add("PoolMigrations::update_transaction", "mig_update", Box::new(|c, x, _rs| {
        let mut pm = PoolMigrations::for_account(x.world.net, clock(), c, x.world.accts[0].id).map_err(|e| format!("{e:?}"))?;
        e(pm.update_transaction(MigrationTransferId::new(1), MigrationTxState::Signed))
    }));
    add("PoolMigrations::cancel_migration", "mig_cancel", Box::new(|c, x, _rs| {
        let mut pm = PoolMigrations::for_account(x.world.net, clock(), c, x.world.accts[0].id).map_err(|e| format!("{e:?}"))?;
        e(pm.cancel_migration())
    }));
    v
}

// ---------------------------------------------------------------------------------------------
// a really proved pool-migration transaction (port of the set-up of
// zcash_client_sqlite/tests/pool_migration_prove_chain_sim.rs): a wallet funded with one Orchard
// note plans and commits a migration over the WalletMigration adapter; its first preparation
// transaction is proved with the real Orchard prover. Gives the inputs of
// `store_proved_transaction` and `take_transaction_for_broadcast`.
// ---------------------------------------------------------------------------------------------
mod proved {
    use std::convert::Infallible;

    use rand_chacha::ChaCha8Rng;
    use rand_core::SeedableRng;
    use zcash_client_backend::data_api::testing::{orchard::OrchardPoolTester, pool::ShieldedPoolTester, AddressType, TestBuilder, TestState};
    use zcash_client_backend::data_api::{Account as _, WalletRead};
    use zcash_client_sqlite::pool_migration::orchard_ironwood::PoolMigrations;
    use zcash_client_sqlite::testing::db::{TestDb, TestDbFactory};
    use zcash_client_sqlite::testing::{highest_rooted_orchard_checkpoint, BlockCache};
    use zcash_client_sqlite::util::SystemClock;
    use zcash_client_sqlite::AccountUuid;
    use zcash_pool_migration::engine::{self, MigrationState, MigrationTransferId, MigrationTxKind, MigrationTxState, PoolMigrationRead, PoolMigrationWrite};
    use zcash_pool_migration::satisfiability::{self, AdvanceConfig, DuenessTargets, ReorgSettleDepth, ReplanThreshold};
    use zcash_pool_migration::state::AdvanceStep;
    use zcash_pool_migration::wallet::{WalletMigration, WalletMigrationProver};
    use zcash_primitives::block::BlockHash;
    use zcash_protocol::consensus::BlockHeight;
    use zcash_protocol::local_consensus::LocalNetwork;
    use zcash_protocol::value::Zatoshis;
    use zcash_protocol::TxId;

    const ADVANCE: AdvanceConfig = AdvanceConfig::new(ReorgSettleDepth::new(10));

    #[derive(Default)]
    struct MemStore {
        state: Option<MigrationState>,
    }
    impl PoolMigrationRead for MemStore {
        type Error = Infallible;
        fn get_migration(&self) -> Result<Option<MigrationState>, Self::Error> {
            Ok(self.state.clone())
        }
        fn check_step_satisfiability(&self, _tx: &engine::MigrationTransaction, _settle: ReorgSettleDepth) -> Result<satisfiability::StepSatisfiability, Self::Error> {
            Ok(satisfiability::StepSatisfiability::Satisfiable { as_of_height: BlockHeight::from_u32(0) })
        }
        fn mined_height(&self, _txid: TxId) -> Result<Option<BlockHeight>, Self::Error> {
            Ok(None)
        }
    }
    impl PoolMigrationWrite for MemStore {
        fn replace_migration(&mut self, state: &MigrationState) -> Result<(), Self::Error> {
            self.state = Some(state.clone());
            Ok(())
        }
        fn update_transaction(&mut self, _id: MigrationTransferId, _state: MigrationTxState) -> Result<(), Self::Error> {
            Ok(())
        }
        fn store_proved_transaction(&mut self, state: &mut MigrationState, proven: engine::ProvedTransaction) -> Result<(), Self::Error> {
            proven.apply(state);
            self.replace_migration(state)
        }
    }

    pub struct Proved {
        pub st: TestState<BlockCache, TestDb, LocalNetwork>,
        pub net: LocalNetwork,
        pub account: AccountUuid,
        /// the committed migration as persisted before the proof is stored
        pub state: MigrationState,
        pub id: MigrationTransferId,
        pub pczt: Vec<u8>,
        pub proven: Option<engine::ProvedTransaction>,
    }

    pub fn build() -> Result<Proved, String> {
        let h = BlockHeight::from_u32(100_000);
        let net = LocalNetwork { nu6: Some(h), nu6_1: Some(h), nu6_2: Some(h), nu6_3: Some(h), ..TestBuilder::<(), ()>::DEFAULT_NETWORK };
        let mut st = TestBuilder::new()
            .with_network(net)
            .with_data_store_factory(TestDbFactory::default())
            .with_block_cache(BlockCache::new())
            .with_account_from_sapling_activation(BlockHash([0; 32]))
            .build();
        let account = st.test_account().cloned().ok_or("no test account")?;
        let account_id = account.id();
        let usk = account.usk().clone();
        let fvk = OrchardPoolTester::test_account_fvk(&st);
        let (bh, _, _) = st.generate_next_block(&fvk, AddressType::DefaultExternal, Zatoshis::const_from_u64(1_520_000));
        st.scan_cached_blocks(bh, 1);
        for _ in 0..5 {
            let (bh, _) = st.generate_empty_block();
            st.scan_cached_blocks(bh, 1);
        }
        let tip = st.wallet().chain_height().map_err(|e| format!("{e:?}"))?.ok_or("no tip")?;
        let mut rng = ChaCha8Rng::seed_from_u64(0);
        let mut state = {
            let adapter = WalletMigration::new(st.wallet(), account_id, usk.to_unified_full_viewing_key(), MemStore::default());
            let plan = engine::plan_migration(&net, &adapter, &mut rng).map_err(|e| format!("plan: {e:?}"))?;
            let mut adapter = adapter;
            let (state, _) = engine::commit_preparation_with_funding(&net, tip, &mut adapter, usk.orchard(), &plan, &mut rng, ReplanThreshold::DEFAULT)
                .map_err(|e| format!("commit: {e:?}"))?;
            state
        };
        PoolMigrations::for_account(net, SystemClock, st.wallet_mut().conn_mut(), account_id)
            .map_err(|e| format!("{e:?}"))?
            .replace_migration(&state)
            .map_err(|e| format!("persist: {e:?}"))?;
        // drive until a preparation is named for proving
        let mut waited = 0;
        let (id, kind) = loop {
            let target = st.wallet().chain_height().unwrap().unwrap() + 1;
            let step = {
                let mut store = PoolMigrations::for_account(net, SystemClock, st.wallet_mut().conn_mut(), account_id).map_err(|e| format!("{e:?}"))?;
                let mut r = ChaCha8Rng::seed_from_u64(0x318);
                satisfiability::advance_migration(&mut store, &mut state, DuenessTargets::at(target), &ADVANCE, &mut r)
                    .map_err(|e| format!("advance: {e:?}"))?
                    .step()
                    .clone()
            };
            match step {
                AdvanceStep::Prove { transactions } => break (transactions[0].id(), transactions[0].kind()),
                AdvanceStep::Waiting => {
                    waited += 1;
                    if waited > 5000 {
                        return Err("nothing came due".into());
                    }
                    let (bh, _) = st.generate_empty_block();
                    st.scan_cached_blocks(bh, 1);
                }
                other => return Err(format!("unexpected step {other:?}")),
            }
        };
        if !matches!(kind, MigrationTxKind::Preparation { .. }) {
            return Err("first provable transaction is not a preparation".into());
        }
        // the store holds what advance_migration may have changed
        PoolMigrations::for_account(net, SystemClock, st.wallet_mut().conn_mut(), account_id)
            .map_err(|e| format!("{e:?}"))?
            .replace_migration(&state)
            .map_err(|e| format!("persist: {e:?}"))?;
        let tipnow = st.wallet().chain_height().unwrap().unwrap();
        let anchor = highest_rooted_orchard_checkpoint(st.wallet_mut(), tipnow).ok_or("no rooted checkpoint")?;
        let mut proving_state = state.clone();
        let outcome = {
            let mut prover = WalletMigrationProver::new(st.wallet_mut(), account_id, fvk.clone());
            engine::prove_preparation(&mut prover, &mut proving_state, id, anchor).map_err(|e| format!("prove: {e:?}"))?
        };
        let engine::ProveOutcome::Proved(proven) = outcome else {
            return Err(format!("not proved: {outcome:?}"));
        };
        let pczt = proven.pczt().to_vec();
        Ok(Proved { st, net, account: account_id, state: proving_state, id, pczt, proven: Some(proven) })
    }
}

// ---------------------------------------------------------------------------------------------
// runs
// ---------------------------------------------------------------------------------------------

#[derive(Clone, Copy, PartialEq, Eq, Debug)]
enum Mode {
    Delete,
    Wal,
    Spill,
}

#[derive(Default)]
struct Plan {
    abort_at: u64,
    veto_commit: bool,
    live_steps: Vec<u64>,
    reader: Option<(ReaderKind, u64, u64)>,
    crash_copies: bool,
}

struct RunOut {
    ev: Vec<Ev>,
    steps: u64,
    commit_step: u64,
    ok: bool,
    err: String,
    obs: Vec<(usize, u8, u64)>,
    /// digest through the writer connection after the call
    same: u64,
    fired: bool,
    write_steps: Vec<u64>,
}

fn open_db(p: &Path, mode: Mode) -> Connection {
    let c = Connection::open(p).expect("open");
    rusqlite::vtab::array::load_module(&c).expect("array module");
    if mode == Mode::Spill {
        c.execute_batch("PRAGMA cache_size = 1; PRAGMA cache_spill = 1;").unwrap();
    }
    // load the schema now, so that every counted VM step belongs to a statement of the call
    let _: i64 = c.query_row("SELECT count(*) FROM sqlite_master", [], |r| r.get(0)).unwrap();
    c
}

fn run_op(conn: &mut Connection, path: &Path, tables: &Arc<Vec<String>>, tcode: &HashMap<String, u64>, op: &OpDef, opi: u64, ctx: &Ctx, rs: u64, plan: &Plan, mode: Mode) -> RunOut {
    let need_second = !plan.live_steps.is_empty() || plan.reader.is_some();
    let second = if need_second { Some(open_db(path, Mode::Delete)) } else { None };
    let ts = Arc::new(Mutex::new(TS {
        active: false,
        ev: vec![],
        steps: 0,
        abort_at: plan.abort_at,
        fired: false,
        veto_commit: plan.veto_commit,
        txn_open: false,
        handle: 0,
        table_code: tcode.clone(),
        tables: tables.clone(),
        path: path.to_path_buf(),
        obs: vec![],
        live_steps: plan.live_steps.clone(),
        second,
        reader: plan.reader.map(|(kind, j1, j2)| ReaderPlan { kind, j1, j2, stage: 0, first: vec![] }),
        crash_copies: plan.crash_copies,
        commit_step: 0,
        crash_seq: 0,
        write_steps: vec![],
        errs_seen: STMT_ERRS.load(std::sync::atomic::Ordering::SeqCst),
    }));
    install(conn, &ts);
    {
        let mut s = ts.lock().unwrap();
        s.active = true;
        s.ev.push(Ev::OpStart(opi));
    }
    let r = vcommon::catch(|| (op.run)(conn, ctx, rs));
    let (ok, err) = match r {
        Some(Ok(())) => (true, String::new()),
        Some(Err(s)) => (false, s),
        None => (false, "PANIC".into()),
    };
    let mut s = ts.lock().unwrap();
    s.sample();
    // statements of the second connection that were scheduled after the last step of the call
    // run now; the OpEnd mark (which has no effect in the semantics) closes the trace
    if s.reader.is_some() {
        s.reader_step(true);
    }
    s.ev.push(Ev::OpEnd(ok));
    s.active = false;
    let _ = mode;
    let out = RunOut { ev: s.ev.clone(), steps: s.steps, commit_step: s.commit_step, ok, err, obs: s.obs.clone(), same: 0, fired: s.fired, write_steps: s.write_steps.clone() };
    s.second = None;
    drop(s);
    conn.progress_handler(0, None::<fn() -> bool>);
    conn.update_hook(None::<fn(Action, &str, &str, i64)>);
    conn.commit_hook(None::<fn() -> bool>);
    conn.rollback_hook(None::<fn()>);
    let same = full_digest(conn, tables);
    RunOut { same, ..out }
}

fn fresh_copy(pre: &Path, work: &Path, mode: Mode) {
    remove_db(work);
    std::fs::copy(pre, work).expect("copy");
    if mode == Mode::Wal {
        let c = Connection::open(work).unwrap();
        let _: String = c.query_row("PRAGMA journal_mode = WAL", [], |r| r.get(0)).unwrap();
    }
}

fn writes_of(t: &[Ev]) -> Vec<Ev> {
    t.iter().filter(|e| matches!(e, Ev::Write(_))).cloned().collect()
}

struct Stats {
    runs: u64,
    by_kind: HashMap<&'static str, u64>,
    ops: HashMap<&'static str, (u64, u64)>,
    busy: u64,
    skipped: Vec<String>,
    torn: u64,
    swallowed: Vec<String>,
}

#[allow(clippy::too_many_arguments)]
fn emit(op: &OpDef, kind: u64, k: u64, mode: Mode, r: &RunOut, refw: &[Ev], pre: u64, post: u64, second: u64, retry: Option<(&RunOut, u64)>) {
    let mut obs: Vec<String> = r.obs.iter().map(|(p, k, d)| format!("({p}, {k}, {d})")).collect();
    obs.push(format!("({}, 0, {})", r.ev.len(), r.same));
    obs.push(format!("({}, 1, {})", r.ev.len(), second));
    let (rt, rd) = match retry {
        Some((rr, d)) => (coq_trace(&rr.ev), d),
        None => ("[]".to_string(), 0),
    };
    let m = match mode {
        Mode::Delete => 0,
        Mode::Wal => 1,
        Mode::Spill => 2,
    };
    vcommon::case(format!(
        "CRun \"{}\"%string {} {} {} {} {} {} {} [{}] {} {}",
        op.method,
        kind,
        k,
        m,
        coq_trace(&r.ev),
        coq_trace(refw),
        pre,
        post,
        obs.join("; "),
        rt,
        rd
    ));
}

struct Env {
    rng: vcommon::Rng,
    stats: Stats,
    n_fault: usize,
    n_live: usize,
    n_reader: usize,
    thorough: bool,
    debug: bool,
    work: PathBuf,
}

/// Everything that is done with one operation on one database state (file `pre`).
#[allow(clippy::too_many_arguments)]
fn drive(env: &mut Env, pre: &Path, tables: &Arc<Vec<String>>, tcode: &HashMap<String, u64>, pre_d: u64, op: &OpDef, opi: u64, ctx: &Ctx, variant: u64, state: u64) {
    let work_buf = env.work.clone();
    let work: &Path = &work_buf;
    // ---- reference run (no fault), delete-journal mode
    fresh_copy(pre, work, Mode::Delete);
    let mut c = open_db(work, Mode::Delete);
    let rs = 1000 + variant;
    let refr = run_op(&mut c, work, tables, tcode, op, opi, ctx, rs, &Plan { crash_copies: true, ..Default::default() }, Mode::Delete);
    drop(c);
    let post_d = full_digest(&Connection::open(work).unwrap(), tables);
    if env.debug {
        eprintln!("[{variant}/{state}] {:<14} ok={} steps={} commit_step={} writes={} pre==post:{} err={} trace={}", op.label, refr.ok, refr.steps, refr.commit_step, writes_of(&refr.ev).len(), pre_d == post_d, &refr.err[..refr.err.len().min(100)], &coq_trace(&refr.ev)[..coq_trace(&refr.ev).len().min(300)]);
    }
    let refw = writes_of(&refr.ev);
    if !refr.ok {
        // the operation is refused in this state (e.g. no such row): an error-path case
        env.stats.skipped.push(format!("{}@{state}:{}", op.label, &refr.err[..refr.err.len().min(80)]));
        emit(op, 6, 0, Mode::Delete, &refr, &refw, pre_d, pre_d, post_d, None);
        env.stats.runs += 1;
        *env.stats.by_kind.entry("refused").or_insert(0) += 1;
        // faults inside a refused call must leave the database untouched as well
        let n = refr.steps.max(1);
        let mut ks: Vec<u64> = (0..env.n_fault).map(|_| env.rng.range(1, n)).collect();
        for w in refr.write_steps.iter() {
            ks.push(*w);
            ks.push(*w + 1);
        }
        ks.retain(|k| *k >= 1 && *k <= n);
        ks.sort();
        ks.dedup();
        for (i, k) in ks.iter().enumerate() {
            let mode = if i % 2 == 0 { Mode::Delete } else { Mode::Wal };
            fresh_copy(pre, work, mode);
            let mut c = open_db(work, mode);
            let fr = run_op(&mut c, work, tables, tcode, op, opi, ctx, rs, &Plan { abort_at: *k, crash_copies: true, ..Default::default() }, mode);
            drop(c);
            let second = full_digest(&Connection::open(work).unwrap(), tables);
            emit(op, 7, if fr.fired { *k } else { 0 }, mode, &fr, &refw, pre_d, pre_d, second, None);
            env.stats.runs += 1;
            *env.stats.by_kind.entry("refused_fault").or_insert(0) += 1;
            if fr.fired && fr.ok {
                env.stats.swallowed.push(format!("{}@{k}", op.label));
            }
        }
        return;
    }
    let n = refr.steps.max(1);
    let e0 = env.stats.ops.entry(op.label).or_insert((0, 0));
    e0.0 = e0.0.max(n);
    e0.1 = e0.1.max(refw.len() as u64);
    emit(op, 0, 0, Mode::Delete, &refr, &refw, pre_d, post_d, post_d, None);
    env.stats.runs += 1;
    *env.stats.by_kind.entry("ref").or_insert(0) += 1;
    // determinism of the reference run itself (other RNG seed, uuid columns blanked)
    {
        fresh_copy(pre, work, Mode::Wal);
        let mut c = open_db(work, Mode::Wal);
        let r2 = run_op(&mut c, work, tables, tcode, op, opi, ctx, rs + 500, &Plan { crash_copies: true, ..Default::default() }, Mode::Wal);
        drop(c);
        let d2 = full_digest(&Connection::open(work).unwrap(), tables);
        emit(op, 0, 0, Mode::Wal, &r2, &refw, pre_d, post_d, d2, None);
        env.stats.runs += 1;
        *env.stats.by_kind.entry("ref").or_insert(0) += 1;
    }

    // ---- fault positions
    let mut ks: Vec<u64> = vec![1, 2, 3, n / 4, n / 2, (3 * n) / 4, n.saturating_sub(2), n.saturating_sub(1), n];
    if refr.commit_step > 0 {
        ks.extend_from_slice(&[refr.commit_step.saturating_sub(1), refr.commit_step, refr.commit_step + 1]);
    }
    // statement boundaries: the step of (a sample of) the row changes and the step before
    {
        let mut ws = refr.write_steps.clone();
        ws.dedup();
        let stride = if (2..10).contains(&state) || env.thorough || op.label.starts_with("store_sent") { 1 } else { (ws.len() / 6).max(1) };
        for w in ws.iter().step_by(stride) {
            ks.push(*w);
            ks.push(w.saturating_sub(1));
            ks.push(*w + 1);
        }
    }
    while ks.len() < env.n_fault + 9 {
        ks.push(env.rng.range(1, n));
    }
    // a fault is injected inside the operation, i.e. before its commit point
    let kmax = if refr.commit_step > 0 { refr.commit_step } else { n };
    ks.retain(|k| *k >= 1 && *k <= kmax);
    ks.sort();
    ks.dedup();
    // an expensive call (PCZT finalisation re-verifies the proofs): evenly thinned positions
    let heavy = op.label == "pv_take";
    if heavy {
        let cap = if env.thorough { 80 } else { 6 };
        if ks.len() > cap {
            let step = ks.len() as f64 / cap as f64;
            ks = (0..cap).map(|i| ks[(i as f64 * step) as usize]).collect();
        }
    }
    let (n_live_op, n_reader_op) = if heavy { (1, 2) } else { (env.n_live, env.n_reader) };
    for (i, k) in ks.iter().enumerate() {
        let mode = match i % 3 {
            0 => Mode::Delete,
            1 => Mode::Wal,
            _ => Mode::Spill,
        };
        fresh_copy(pre, work, mode);
        let mut c = open_db(work, mode);
        let fr = run_op(&mut c, work, tables, tcode, op, opi, ctx, rs, &Plan { abort_at: *k, crash_copies: true, ..Default::default() }, mode);
        let second = full_digest(&open_db(work, Mode::Delete), tables);
        // retry on the same connection, other RNG seed
        let rr = run_op(&mut c, work, tables, tcode, op, opi, ctx, rs + 9000, &Plan::default(), mode);
        drop(c);
        let rd = full_digest(&Connection::open(work).unwrap(), tables);
        emit(op, 1, if fr.fired { *k } else { 0 }, mode, &fr, &refw, pre_d, post_d, second, Some((&rr, rd)));
        env.stats.runs += 1;
        *env.stats.by_kind.entry("fault").or_insert(0) += 1;
        if fr.fired && fr.ok {
            env.stats.swallowed.push(format!("{}@{k}", op.label));
        }
        if env.debug && (fr.same != pre_d || rd != post_d) {
            eprintln!("   k={k} mode={mode:?} ok={} same==pre:{} same==post:{} retry_ok={} retry==post:{} err={} RETRYERR={} TR={}", fr.ok, fr.same == pre_d, fr.same == post_d, rr.ok, rd == post_d, &fr.err[..fr.err.len().min(100)], &rr.err[..rr.err.len().min(200)], coq_trace(&fr.ev));
        }
    }
    // ---- commit vetoed
    for mode in [Mode::Delete, Mode::Wal] {
        fresh_copy(pre, work, mode);
        let mut c = open_db(work, mode);
        let fr = run_op(&mut c, work, tables, tcode, op, opi, ctx, rs, &Plan { veto_commit: true, crash_copies: true, ..Default::default() }, mode);
        let second = full_digest(&open_db(work, Mode::Delete), tables);
        let rr = run_op(&mut c, work, tables, tcode, op, opi, ctx, rs + 9000, &Plan::default(), mode);
        drop(c);
        let rd = full_digest(&Connection::open(work).unwrap(), tables);
        emit(op, 2, if fr.fired { 1 } else { 0 }, mode, &fr, &refw, pre_d, post_d, second, Some((&rr, rd)));
        env.stats.runs += 1;
        *env.stats.by_kind.entry("veto").or_insert(0) += 1;
    }
    // ---- live snapshots through a second connection while the call runs
    for i in 0..n_live_op {
        let mode = if i % 2 == 0 { Mode::Delete } else { Mode::Wal };
        let mut ls: Vec<u64> = (0..4).map(|_| env.rng.range(1, n)).collect();
        if refr.commit_step > 0 {
            ls.push(refr.commit_step);
            ls.push((refr.commit_step + 1).min(n));
        }
        fresh_copy(pre, work, mode);
        let mut c = open_db(work, mode);
        let lr = run_op(&mut c, work, tables, tcode, op, opi, ctx, rs, &Plan { live_steps: ls, ..Default::default() }, mode);
        drop(c);
        let second = full_digest(&Connection::open(work).unwrap(), tables);
        env.stats.busy += lr.obs.iter().filter(|o| o.2 == 0).count() as u64;
        emit(op, 3, 0, mode, &lr, &refw, pre_d, post_d, second, None);
        env.stats.runs += 1;
        *env.stats.by_kind.entry("live").or_insert(0) += 1;
    }
    // ---- a two-statement read on a second connection, writer interleaved
    for i in 0..n_reader_op {
        let kind = if i % 4 == 3 { ReaderKind::Unbracketed } else { ReaderKind::Bracketed };
        let mode = if i % 2 == 0 { Mode::Wal } else { Mode::Delete };
        let cs = if refr.commit_step > 0 { refr.commit_step } else { n };
        // rollback-journal mode: a read transaction held across the writer's commit makes
        // the commit fail with SQLITE_BUSY (an error return, covered by the fault runs);
        // here the bracket closes before the commit. WAL: any position, also after the call.
        let (j1, j2) = if mode == Mode::Delete && kind == ReaderKind::Bracketed {
            let j1 = env.rng.range(1, cs.saturating_sub(2).max(1));
            (j1, env.rng.range(j1, cs.saturating_sub(1).max(j1)))
        } else {
            let j1 = env.rng.range(1, cs);
            (j1, if env.rng.bool() { n + 10 } else { env.rng.range(j1, n) })
        };
        fresh_copy(pre, work, mode);
        let mut c = open_db(work, mode);
        let lr = run_op(&mut c, work, tables, tcode, op, opi, ctx, rs, &Plan { reader: Some((kind, j1, j2)), ..Default::default() }, mode);
        drop(c);
        let second = full_digest(&Connection::open(work).unwrap(), tables);
        if lr.obs.iter().any(|o| o.1 == 5 && o.2 != pre_d && o.2 != post_d) {
            env.stats.torn += 1;
        }
        emit(op, if kind == ReaderKind::Bracketed { 4 } else { 5 }, j1, mode, &lr, &refw, pre_d, post_d, second, None);
        env.stats.runs += 1;
        *env.stats.by_kind.entry("reader").or_insert(0) += 1;
    }
}

// ---------------------------------------------------------------------------------------------
// real snapshot reads on a reader connection, a complete writer call interleaved
// ---------------------------------------------------------------------------------------------

/// Reader-side tracer: the reader connection's progress handler sees every statement of the
/// API call start (`RRead`), derives the read-transaction bracket from the autocommit flag
/// (`RBegin` / `REnd`), and at statement boundary `fire_at` runs a complete writer call on
/// another connection, whose trace is spliced in.
struct RS {
    active: bool,
    ev: Vec<Ev>,
    handle: usize,
    in_txn: bool,
    last_stmt: usize,
    boundaries: u64,
    fire_at: u64,
    fired: bool,
}

struct FirePtr(*mut dyn FnMut() -> Vec<Ev>);
unsafe impl Send for FirePtr {}
static FIRE: Mutex<Option<FirePtr>> = Mutex::new(None);

/// The data statement currently executing on the connection (0 = none).
fn busy_data_stmt(handle: usize) -> usize {
    unsafe {
        let db = handle as *mut rusqlite::ffi::sqlite3;
        let mut st = rusqlite::ffi::sqlite3_next_stmt(db, std::ptr::null_mut());
        while !st.is_null() {
            if rusqlite::ffi::sqlite3_stmt_busy(st) != 0 {
                let p = rusqlite::ffi::sqlite3_sql(st);
                let ctl = if p.is_null() {
                    false
                } else {
                    let sql = std::ffi::CStr::from_ptr(p).to_string_lossy().trim_start().to_ascii_uppercase();
                    sql.starts_with("BEGIN") || sql.starts_with("COMMIT") || sql.starts_with("ROLLBACK") || sql.starts_with("END")
                };
                if !ctl {
                    return st as usize;
                }
            }
            st = rusqlite::ffi::sqlite3_next_stmt(db, st);
        }
        0
    }
}

impl RS {
    fn bracket(&mut self) {
        let ac = autocommit(self.handle);
        if !ac && !self.in_txn {
            self.in_txn = true;
            self.ev.push(Ev::RBegin);
        } else if ac && self.in_txn {
            self.in_txn = false;
            self.ev.push(Ev::REnd);
        }
    }
}

fn install_reader(conn: &Connection, rs: &Arc<Mutex<RS>>) {
    rs.lock().unwrap().handle = unsafe { conn.handle() } as usize;
    let t = rs.clone();
    conn.progress_handler(
        1,
        Some(move || {
            let mut s = t.lock().unwrap();
            if !s.active {
                return false;
            }
            s.bracket();
            let cur = busy_data_stmt(s.handle);
            if cur != 0 && cur != s.last_stmt {
                s.boundaries += 1;
                s.ev.push(Ev::RRead);
                if s.boundaries == s.fire_at && !s.fired {
                    s.fired = true;
                    let f = FIRE.lock().unwrap().take();
                    if let Some(FirePtr(p)) = f {
                        let wev = unsafe { (*p)() };
                        s.ev.extend(wev);
                    }
                }
            }
            s.last_stmt = cur;
            false
        }),
    );
}

struct ReadApi {
    name: &'static str,
    /// runs the API on the reader connection and returns a canonical rendering of its result
    /// `start()` is called right before the API call proper (after constructing the store)
    run: Box<dyn Fn(&Connection, &Ctx, &dyn Fn()) -> Result<String, String>>,
}

fn read_apis() -> Vec<ReadApi> {
    vec![
        ReadApi {
            name: "WalletRead::get_wallet_summary",
            run: Box::new(|c, x, start| {
                let db = WalletDb::from_connection(c, x.world.net, clock(), ChaChaRng::seed_from_u64(1));
                start();
                let s = db.get_wallet_summary(ConfirmationsPolicy::MIN).map_err(|e| format!("{e:?}"))?;
                Ok(match s {
                    None => "none".to_string(),
                    Some(s) => {
                        let mut b: Vec<String> = s.account_balances().iter().map(|(k, v)| format!("{:?}={:?}", k.expose_uuid(), v)).collect();
                        b.sort();
                        format!(
                            "tip={:?} fs={:?} prog={:?} ns={} no={} ni={} bal={:?}",
                            s.chain_tip_height(),
                            s.fully_scanned_height(),
                            s.progress(),
                            s.next_sapling_subtree_index(),
                            s.next_orchard_subtree_index(),
                            s.next_ironwood_subtree_index(),
                            b
                        )
                    }
                })
            }),
        },
        ReadApi {
            name: "store::mined_height",
            run: Box::new(|c, x, start| {
                let pm = PoolMigrations::for_account(x.world.net, clock(), c, x.world.accts[0].id).map_err(|e| format!("{e:?}"))?;
                // a wallet transaction mined (and scanned) at BASE + 2, above the height `trunc` goes to
                let h = BASE + 2;
                let txid = x.world.block(h).unwrap().cb.vtx[0].txid();
                start();
                Ok(format!("{:?}", pm.mined_height(txid).map_err(|e| format!("{e:?}"))?))
            }),
        },
        ReadApi {
            name: "store::check_step_satisfiability",
            run: Box::new(|c, x, start| {
                let pm = PoolMigrations::for_account(x.world.net, clock(), c, x.world.accts[0].id).map_err(|e| format!("{e:?}"))?;
                // a signed transfer spending account 0's Orchard note, whose spend the wallet saw
                // mined at BASE + 2 (above the height `trunc` goes to)
                let tx = MigrationTransaction::from_parts(
                    MigrationTransferId::new(0),
                    MigrationTxKind::Transfer { crossing: 0 },
                    vec![0xAB],
                    Vec::new(),
                    BlockHeight::from_u32(0),
                    BlockHeight::from_u32(0),
                    None,
                    TxId::from_bytes([0x77; 32]),
                    MigrationTxState::Signed,
                    None,
                    None,
                    vec![x.orch_nf],
                    None,
                );
                start();
                Ok(format!("{:?}", pm.check_step_satisfiability(&tx, zcash_pool_migration::satisfiability::ReorgSettleDepth::new(10)).map_err(|e| format!("{e:?}"))?))
            }),
        },
    ]
}

fn render_digest(s: &str) -> u64 {
    digest(s.as_bytes())
}

/// One snapshot read API against one writer operation on the state `pre`: reference values
/// before / after the writer call, then the read with the writer call fired at every statement
/// boundary k of the read.
#[allow(clippy::too_many_arguments)]
fn drive_reader(env: &mut Env, pre: &Path, tables: &Arc<Vec<String>>, tcode: &HashMap<String, u64>, api: &ReadApi, wop: &OpDef, wopi: u64, ctx: &Ctx) {
    let work_buf = env.work.clone();
    let work: &Path = &work_buf;
    // reference: API value on the state before and on the state after the uninterrupted writer call
    fresh_copy(pre, work, Mode::Delete);
    let pre_s = match (api.run)(&open_db(work, Mode::Delete), ctx, &|| ()) {
        Ok(s) => s,
        Err(er) => {
            env.stats.skipped.push(format!("read:{}:{}", api.name, &er[..er.len().min(80)]));
            return;
        }
    };
    {
        let mut c = open_db(work, Mode::Delete);
        if (wop.run)(&mut c, ctx, 1000).is_err() {
            return;
        }
    }
    let post_s = (api.run)(&open_db(work, Mode::Delete), ctx, &|| ()).unwrap_or_default();
    let (pre_d, post_d) = (render_digest(&pre_s), render_digest(&post_s));
    if env.debug {
        eprintln!("[read] {} vs {}: pre={} post={}", api.name, wop.label, &pre_s[..pre_s.len().min(90)], &post_s[..post_s.len().min(90)]);
    }
    let mut nstmts = 0u64;
    // k = 0: the writer call completes right before the first statement of the read
    let mut k = 0u64;
    loop {
        for mode in [Mode::Wal, Mode::Delete] {
            if mode == Mode::Delete && !(env.thorough || k % 4 == 1) {
                continue;
            }
            fresh_copy(pre, work, mode);
            let rconn = open_db(work, mode);
            let mut wconn = open_db(work, mode);
            // the reader (same thread) cannot release its lock while the writer waits
            wconn.busy_timeout(Duration::from_millis(0)).unwrap();
            let rs = Arc::new(Mutex::new(RS { active: false, ev: vec![], handle: 0, in_txn: false, last_stmt: 0, boundaries: 0, fire_at: k, fired: false }));
            install_reader(&rconn, &rs);
            let mut fire = || -> Vec<Ev> {
                let r = run_op(&mut wconn, work, tables, tcode, wop, wopi, ctx, 1000, &Plan::default(), mode);
                r.ev
            };
            let fp: &mut dyn FnMut() -> Vec<Ev> = &mut fire;
            // the closure outlives the API call below and is taken (at most once) inside it
            *FIRE.lock().unwrap() = Some(FirePtr(unsafe { std::mem::transmute::<&mut dyn FnMut() -> Vec<Ev>, *mut (dyn FnMut() -> Vec<Ev> + 'static)>(fp) }));
            let rs2 = rs.clone();
            let res = vcommon::catch(|| {
                (api.run)(&rconn, ctx, &|| {
                    let mut s = rs2.lock().unwrap();
                    s.active = true;
                    if s.fire_at == 0 {
                        s.fired = true;
                        if let Some(FirePtr(p)) = FIRE.lock().unwrap().take() {
                            let wev = unsafe { (*p)() };
                            s.ev.extend(wev);
                        }
                    }
                })
            });
            {
                let mut s = rs.lock().unwrap();
                s.bracket();
                s.active = false;
            }
            *FIRE.lock().unwrap() = None;
            rconn.progress_handler(0, None::<fn() -> bool>);
            let s = rs.lock().unwrap();
            nstmts = nstmts.max(s.boundaries);
            let res_d = match res {
                Some(Ok(v)) => render_digest(&v),
                _ => 0,
            };
            let m = match mode {
                Mode::Delete => 0,
                Mode::Wal => 1,
                Mode::Spill => 2,
            };
            vcommon::case(format!("CRead \"{}\"%string {} {} {} {} {} {}", api.name, k, m, coq_trace(&s.ev), pre_d, post_d, res_d));
            env.stats.runs += 1;
            *env.stats.by_kind.entry("snapshot_read").or_insert(0) += 1;
            if res_d != pre_d && res_d != post_d {
                env.stats.swallowed.push(format!("TORN-READ {}@{k} vs {}", api.name, wop.label));
            }
        }
        k += 1;
        if k > nstmts + 1 {
            break;
        }
    }
    let e0 = env.stats.ops.entry(api.name).or_insert((0, 0));
    e0.0 = e0.0.max(nstmts);
}

fn build_ctx(seed: u64, variant: u64) -> Ctx {
    let mut w = World::new(hist::rng_from(seed, 100 + variant), 2);
    let mut r = vcommon::Rng::new(seed, 200 + variant);
    let o = |owner, pool, value| OutSpec { owner, pool, value, internal: false };
    let v = |r: &mut vcommon::Rng| 10_000 + r.below(90_000);
    w.push_block(&[TxSpec {
        spends: vec![],
        outs: vec![
            o(Some(0), Pool::Sapling, v(&mut r)),
            o(Some(1), Pool::Orchard, v(&mut r)),
            o(Some(0), Pool::Ironwood, v(&mut r)),
            o(Some(0), Pool::Orchard, v(&mut r)),
            o(None, Pool::Sapling, 999),
        ],
        foreign_spends: 1,
    }]);
    w.push_block(&[]);
    let n0 = w.chain[0].txs[0].outs[0].nf;
    // account 0's Orchard note is spent here too (the migration oracle judges it)
    let n3 = w.chain[0].txs[0].outs[3].nf;
    let orch_nf = w.notes[&n3].bytes;
    w.push_block(&[TxSpec { spends: vec![n0, n3], outs: vec![o(Some(0), Pool::Sapling, 5_000), o(Some(1), Pool::Sapling, 4_000)], foreign_spends: 0 }]);
    let extra = 1 + r.below(3);
    for _ in 0..extra {
        w.push_block(&[]);
    }
    // the two last blocks stay unscanned: one with traffic, one empty
    let n1 = w.chain[0].txs[0].outs[1].nf;
    w.push_block(&[TxSpec { spends: vec![n1], outs: vec![o(Some(0), Pool::Orchard, v(&mut r)), o(Some(1), Pool::Ironwood, 3_000)], foreign_spends: 2 }]);
    w.push_block(&[TxSpec { spends: vec![], outs: vec![o(Some(1), Pool::Sapling, v(&mut r))], foreign_spends: 0 }]);
    let tip = w.tip_height();
    let _ = w.update_tip(tip);
    let _ = w.scan(BASE, (tip - BASE - 1) as usize);

    let net = w.net;
    let taddr_of = |usk: &UnifiedSpendingKey| {
        let ufvk = usk.to_unified_full_viewing_key();
        let (ua, _) = ufvk.default_address(UnifiedAddressRequest::AllAvailableKeys).expect("ua");
        *ua.transparent().expect("transparent receiver")
    };
    let taddr0 = taddr_of(&w.accts[0].usk);
    let other_seed = r.bytes(32);
    let fusk = UnifiedSpendingKey::from_seed(&net, &other_seed, zip32::AccountId::try_from(9).unwrap()).unwrap();
    let foreign_taddr = taddr_of(&fusk);
    let tx_in = transparent_tx(&net, &taddr0, 55_000, BASE + 2, 3);
    let txs_out: Vec<Transaction> = (0..3u8).map(|i| transparent_tx(&net, &foreign_taddr, 30_000 + i as u64, BASE + 3, 4 + i)).collect();

    // received notes of account 0, as OutputRefs (setup query; not an observation)
    let mut note_refs = vec![];
    {
        let conn = w.wallet.db.conn();
        for (tbl, proto) in [("sapling_received_notes", ShieldedProtocol::Sapling), ("orchard_received_notes", ShieldedProtocol::Orchard)] {
            let idx_col = if proto == ShieldedProtocol::Sapling { "output_index" } else { "action_index" };
            let mut st = conn
                .prepare(&format!(
                    "SELECT t.txid, n.{idx_col} FROM {tbl} n JOIN transactions t ON t.id_tx = n.transaction_id \
                     JOIN accounts a ON a.id = n.account_id WHERE a.uuid = ?1 ORDER BY n.id"
                ))
                .expect("note query");
            let rows: Vec<(Vec<u8>, u32)> = st
                .query_map([w.accts[0].id.expose_uuid()], |r| Ok((r.get(0)?, r.get(1)?)))
                .unwrap()
                .map(|x| x.unwrap())
                .collect();
            for (txid, idx) in rows {
                let mut b = [0u8; 32];
                b.copy_from_slice(&txid);
                note_refs.push(OutputRef::new(TxId::from_bytes(b), PoolType::Shielded(proto), idx));
            }
        }
    }
    let genesis = ChainState::empty(BlockHeight::from_u32(BASE - 1), BlockHash([0; 32]));
    Ctx { world: w, tx_in, txs_out, taddr0, foreign_taddr, note_refs, other_seed, genesis, orch_nf }
}

fn main() {
    install_log();
    let a = vcommon::args();
    vcommon::quiet_panics();
    let debug = a.rest.iter().any(|x| x == "--debug");
    let no_prove = a.rest.iter().any(|x| x == "--no-prove");
    let only: Option<String> = a.rest.iter().position(|x| x == "--op").map(|i| a.rest[i + 1].clone());
    let dir = if Path::new("/dev/shm").is_dir() { tempfile::tempdir_in("/dev/shm") } else { tempfile::tempdir() }.expect("tempdir");
    let n_fault = a.budget(4, 120);
    let n_live = a.budget(2, 12);
    let n_reader = a.budget(4, 16);
    let variants = a.budget(1, 3) as u64;
    let stats = Stats { runs: 0, by_kind: HashMap::new(), ops: HashMap::new(), busy: 0, skipped: vec![], torn: 0, swallowed: vec![] };
    let opdefs = ops();
    let mut env = Env { rng: vcommon::Rng::new(a.seed, 1), stats, n_fault, n_live, n_reader, thorough: a.thorough(), debug, work: dir.path().join("work.db") };

    for variant in 0..variants {
        let ctx = build_ctx(a.seed, variant);
        // two states: S0 = history only; S1 = S0 + locks, stored transactions, a pending migration
        // states: S0 = history only; S1 = S0 + locks, stored transactions, a pending migration;
        // S2 = S0 + a COMPLETE pool migration of account 0 with transfers mined above the heights
        // the truncations go to (the roll-back walk of pool_migration::store::truncate_to_height
        // rewrites it); S3 = S2 + a successor migration of the same account (demoting the completed
        // one then violates the one-pending-migration-per-account index: the truncation is refused)
        for state in 0..4u64 {
            let pre = dir.path().join(format!("pre_{variant}_{state}.db"));
            remove_db(&pre);
            if state == 0 {
                ctx.world.wallet.db.conn().execute(&format!("VACUUM INTO '{}'", pre.to_string_lossy()), []).expect("vacuum into");
            } else if state == 1 {
                let s0 = dir.path().join(format!("pre_{variant}_0.db"));
                std::fs::copy(&s0, &pre).unwrap();
                let mut c = open_db(&pre, Mode::Delete);
                for l in ["lock", "store_sent", "decrypt_store", "mig_replace", "utxo", "sroots"] {
                    let op = opdefs.iter().find(|o| o.label == l).unwrap();
                    if let Err(er) = (op.run)(&mut c, &ctx, 77) {
                        env.stats.skipped.push(format!("setup:{l}:{}", &er[..er.len().min(120)]));
                    }
                }
                {
                    let mut db = wdb(&mut c, &ctx, 77);
                    if let Err(er) = db.import_standalone_transparent_pubkey(ctx.world.accts[1].id, standalone_keys()[2]) {
                        env.stats.skipped.push(format!("setup:import_pubkey:{er:?}"));
                    }
                    let h = BlockHeight::from_u32(BASE + 1);
                    type TE = shardtree::error::ShardTreeError<zcash_client_sqlite::wallet::commitment_tree::Error>;
                    let r1 = db.with_sapling_tree_mut::<_, _, TE>(|t| t.ensure_retained(h).map(|_| ()));
                    let r2 = db.with_orchard_tree_mut::<_, _, TE>(|t| t.ensure_retained(h).map(|_| ()));
                    if r1.is_err() || r2.is_err() {
                        env.stats.skipped.push(format!("setup:ensure_retained:{r1:?}/{r2:?}"));
                    }
                }
            } else {
                let s0 = dir.path().join(format!("pre_{variant}_0.db"));
                std::fs::copy(&s0, &pre).unwrap();
                let mut c = open_db(&pre, Mode::Delete);
                let tip = ctx.world.tip_height();
                let mut pm = PoolMigrations::for_account(ctx.world.net, clock(), &mut c, ctx.world.accts[0].id).expect("store");
                pm.replace_migration(&complete_migration(&[BASE + 1, BASE + 3, tip - 2, tip - 2])).expect("complete migration");
                if state == 3 {
                    pm.replace_migration(&migration_state(MigrationStatus::InProgress, 2, None)).expect("successor migration");
                }
            }
            let tables: Arc<Vec<String>> = Arc::new(list_tables(&Connection::open(&pre).unwrap()));
            let tcode: HashMap<String, u64> = tables.iter().enumerate().map(|(i, t)| (t.clone(), i as u64)).collect();
            let pre_d = full_digest(&Connection::open(&pre).unwrap(), &tables);

            for (opi, op) in opdefs.iter().enumerate() {
                if let Some(o) = &only {
                    if o != op.label {
                        continue;
                    }
                }
                if state >= 2 && !["trunc", "trunc_cs", "rewind", "delete", "mig_replace", "mig_cancel", "mig_update", "tip+7"].contains(&op.label) {
                    continue;
                }
                drive(&mut env, &pre, &tables, &tcode, pre_d, op, opi as u64, &ctx, variant, state);
            }
            // ---- the real snapshot reads with a writer call interleaved at every statement boundary
            if state <= 1 && only.as_ref().map_or(true, |o| o == "reads") {
                for api in read_apis().iter() {
                    for wl in ["trunc", "scan2", "tip+7"] {
                        let (wi, wop) = opdefs.iter().enumerate().find(|(_, o)| o.label == wl).unwrap();
                        drive_reader(&mut env, &pre, &tables, &tcode, api, wop, wi as u64, &ctx);
                    }
                }
            }
        }
        // ---- states around a really proved migration transaction (one proof per harness run)
        if variant == 0 && !no_prove && only.as_ref().map_or(true, |o| o.starts_with("pv_")) {
            let t0 = std::time::Instant::now();
            match proved::build() {
                Err(er) => env.stats.skipped.push(format!("proved-setup:{}", &er[..er.len().min(200)])),
                Ok(mut pv) => {
                    let setup_s = t0.elapsed().as_secs();
                    let net = pv.net;
                    let account = pv.account;
                    let id = pv.id;
                    let state_a = pv.state.clone();
                    let pczt = pv.pczt.clone();
                    // A: the committed migration, the proof not yet stored
                    let pa = dir.path().join("pre_pv_a.db");
                    remove_db(&pa);
                    pv.st.wallet().conn().execute(&format!("VACUUM INTO '{}'", pa.to_string_lossy()), []).expect("vacuum into");
                    // B: the proof stored through the real store
                    let mut state_b = state_a.clone();
                    PoolMigrations::for_account(net, clock(), pv.st.wallet_mut().conn_mut(), account)
                        .expect("store")
                        .store_proved_transaction(&mut state_b, pv.proven.take().unwrap())
                        .expect("store_proved_transaction");
                    let pb = dir.path().join("pre_pv_b.db");
                    remove_db(&pb);
                    pv.st.wallet().conn().execute(&format!("VACUUM INTO '{}'", pb.to_string_lossy()), []).expect("vacuum into");
                    // C: the transaction taken for broadcast once
                    let pc = dir.path().join("pre_pv_c.db");
                    std::fs::copy(&pb, &pc).unwrap();
                    {
                        let mut c = open_db(&pc, Mode::Delete);
                        let r = PoolMigrations::for_account(net, clock(), &mut c, account).expect("store").take_transaction_for_broadcast(&state_b, id);
                        if let Err(er) = r {
                            env.stats.skipped.push(format!("proved-setup-take:{er:?}"));
                        }
                    }
                    let sa = state_a.clone();
                    let sb = state_b.clone();
                    let sb2 = state_b.clone();
                    let pv_ops: Vec<(OpDef, Vec<&PathBuf>)> = vec![
                        (
                            OpDef {
                                method: "PoolMigrations::store_proved_transaction",
                                label: "pv_store",
                                run: Box::new(move |c, _x, _rs| {
                                    let mut pm = PoolMigrations::for_account(net, clock(), c, account).map_err(|e| format!("{e:?}"))?;
                                    let mut st = sa.clone();
                                    e(pm.store_proved_transaction(&mut st, ProvedTransaction::from_parts(id, pczt.clone())))
                                }),
                            },
                            vec![&pa],
                        ),
                        (
                            OpDef {
                                method: "PoolMigrations::take_transaction_for_broadcast",
                                label: "pv_take",
                                run: Box::new(move |c, _x, _rs| {
                                    let mut pm = PoolMigrations::for_account(net, clock(), c, account).map_err(|e| format!("{e:?}"))?;
                                    e(pm.take_transaction_for_broadcast(&sb, id))
                                }),
                            },
                            if a.thorough() { vec![&pb, &pc] } else { vec![&pb] },
                        ),
                        (
                            OpDef {
                                method: "PoolMigrations::cancel_migration",
                                label: "pv_cancel",
                                run: Box::new(move |c, _x, _rs| {
                                    let mut pm = PoolMigrations::for_account(net, clock(), c, account).map_err(|e| format!("{e:?}"))?;
                                    e(pm.cancel_migration())
                                }),
                            },
                            vec![&pa, &pb, &pc],
                        ),
                        (
                            OpDef {
                                method: "PoolMigrations::replace_migration",
                                label: "pv_replace",
                                run: Box::new(move |c, _x, _rs| {
                                    let mut pm = PoolMigrations::for_account(net, clock(), c, account).map_err(|e| format!("{e:?}"))?;
                                    let mut st = sb2.clone();
                                    st.mark_broadcast(id);
                                    e(pm.replace_migration(&st))
                                }),
                            },
                            vec![&pc],
                        ),
                    ];
                    for (k, (op, pres)) in pv_ops.iter().enumerate() {
                        if let Some(o) = &only {
                            if o != op.label && o != "pv_" {
                                continue;
                            }
                        }
                        for (si, pre) in pres.iter().enumerate() {
                            let tables: Arc<Vec<String>> = Arc::new(list_tables(&Connection::open(pre).unwrap()));
                            let tcode: HashMap<String, u64> = tables.iter().enumerate().map(|(i, t)| (t.clone(), i as u64)).collect();
                            let pre_d = full_digest(&Connection::open(pre).unwrap(), &tables);
                            drive(&mut env, pre, &tables, &tcode, pre_d, op, 100 + k as u64, &ctx, variant, 10 + si as u64);
                        }
                    }
                    env.stats.skipped.push(format!("proved-setup-seconds:{setup_s}"));
                }
            }
        }
    }
    let opsj: Vec<String> = {
        let mut v: Vec<_> = env.stats.ops.iter().collect();
        v.sort();
        v.iter().map(|(k, (s, w))| format!("\"{k}\":[{s},{w}]")).collect()
    };
    let kj: Vec<String> = {
        let mut v: Vec<_> = env.stats.by_kind.iter().collect();
        v.sort();
        v.iter().map(|(k, n)| format!("\"{k}\":{n}")).collect()
    };
    vcommon::stat(format!(
        "{{\"runs\":{},\"kinds\":{{{}}},\"ops_steps_writes\":{{{}}},\"second_conn_busy\":{},\"unbracketed_torn_reads\":{},\"not_applicable\":{:?},\"fault_fired_but_ok\":{:?}}}",
        env.stats.runs,
        kj.join(","),
        opsj.join(","),
        env.stats.busy,
        env.stats.torn,
        env.stats.skipped,
        env.stats.swallowed
    ));
}
