//! C01 — wallet balance is exactly the ledger of its unspent notes, in any scan order.
//! Generates chains and histories, executes them on the real SQLite wallet backend and prints
//! one `Hist` case (coq/C01/Corr.v) per history.
use vcommon::*;
use vhist::*;

thread_local! {
    /// case lines produced by the history running on this thread
    static OUT: std::cell::RefCell<Vec<String>> = std::cell::RefCell::new(Vec::new());
}

struct Rec {
    steps: Vec<String>,
    n_scan: usize,
    n_tip: usize,
    n_trunc: usize,
    n_err: usize,
    n_panic: usize,
    n_nosummary: usize,
    errs: Vec<String>,
}

impl Rec {
    fn new() -> Self {
        Rec { steps: vec![], n_scan: 0, n_tip: 0, n_trunc: 0, n_err: 0, n_panic: 0, n_nosummary: 0, errs: vec![] }
    }
    fn note(&mut self, r: &OpResult, d: &Dump) {
        match r {
            OpResult::Err(_, s) => {
                self.n_err += 1;
                if self.errs.len() < 6 {
                    self.errs.push(s.chars().take(400).collect());
                }
            }
            OpResult::Panic => self.n_panic += 1,
            _ => {}
        }
        if d.balances.is_none() {
            self.n_nosummary += 1;
        }
    }
}

fn do_scan(w: &mut World, rec: &mut Rec, from: u32, limit: usize) -> OpResult {
    let blocks: Vec<String> = w
        .chain
        .iter()
        .filter(|b| b.height >= from)
        .take(limit)
        .map(coq_block)
        .collect();
    let r = w.scan(from, limit);
    let d = w.dump();
    if std::env::var("C01_TRACE").is_ok() { eprintln!("scan {from} {limit} -> {:?} blocks={:?}", r, d.blocks.iter().map(|b| b.0).collect::<Vec<_>>()); }
    rec.note(&r, &d);
    rec.n_scan += 1;
    rec.steps.push(format!("SScan [{}] {} {}", blocks.join(";"), coq_res(&r), coq_dump(&d)));
    r
}

fn do_tip(w: &mut World, rec: &mut Rec, h: u32) {
    let r = w.update_tip(h);
    let d = w.dump();
    rec.note(&r, &d);
    rec.n_tip += 1;
    rec.steps.push(format!("STip {} {} {}", h, coq_res(&r), coq_dump(&d)));
}

fn do_trunc(w: &mut World, rec: &mut Rec, h: u32) -> OpResult {
    let r = w.truncate(h);
    let d = w.dump();
    if std::env::var("C01_TRACE").is_ok() { eprintln!("truncate {h} -> {:?} chain_tip={}", r, w.tip_height()); }
    rec.note(&r, &d);
    rec.n_trunc += 1;
    rec.steps.push(format!("STrunc {} {} {}", h, coq_res(&r), coq_dump(&d)));
    r
}

/// Random partition of [lo, hi] into batches (from, len).
fn partition(r: &mut Rng, lo: u32, hi: u32, max_len: u32) -> Vec<(u32, usize)> {
    let mut v = vec![];
    let mut h = lo;
    while h <= hi {
        let len = r.range(1, max_len as u64).min((hi - h + 1) as u64) as u32;
        v.push((h, len as usize));
        h += len;
    }
    v
}

fn shuffle<T>(r: &mut Rng, v: &mut Vec<T>) {
    for i in (1..v.len()).rev() {
        let j = r.below(i as u64 + 1) as usize;
        v.swap(i, j);
    }
}

/// Scans every height of the best chain the wallet has not scanned yet, in ascending runs.
fn complete(w: &mut World, rec: &mut Rec, r: &mut Rng, budget: &mut usize) -> bool {
    loop {
        let d = w.dump();
        let have: std::collections::HashSet<u32> = d.blocks.iter().map(|b| b.0).collect();
        let tip = w.tip_height();
        let mut h = BASE;
        while h <= tip && have.contains(&h) {
            h += 1;
        }
        if h > tip {
            return true;
        }
        let mut e = h;
        while e + 1 <= tip && !have.contains(&(e + 1)) {
            e += 1;
        }
        if *budget == 0 {
            return false;
        }
        *budget -= 1;
        let len = if r.chance(1, 3) { r.range(1, (e - h + 1) as u64) as usize } else { (e - h + 1) as usize };
        if !matches!(do_scan(w, rec, h, len), OpResult::Ok) {
            return false;
        }
    }
}

/// A fork: drop the best chain above `h`, re-mine some orphaned transactions, add new ones.
fn fork(w: &mut World, r: &mut Rng, h: u32, extend: usize, p: &ChainParams) {
    let first_orphan = w.orphaned.len();
    if std::env::var("C01_TRACE").is_ok() { eprintln!("fork at {h} extend {extend}"); }
    w.fork_at(h);
    let orphans: Vec<BlockRec> = w.orphaned[first_orphan..].to_vec();
    let mut made = 0usize;
    for ob in orphans.iter() {
        if made >= extend {
            break;
        }
        // notes that exist / nullifiers already revealed on the new best chain so far
        let alive: std::collections::HashSet<u32> =
            w.chain.iter().flat_map(|b| b.txs.iter().flat_map(|t| t.outs.iter().map(|o| o.nf))).collect();
        let mut spent: std::collections::HashSet<u32> =
            w.chain.iter().flat_map(|b| b.txs.iter().flat_map(|t| t.spends.iter().map(|s| s.1))).collect();
        // re-mine the transactions whose inputs exist (and are unspent) on the new chain and were
        // created strictly below the new block
        let mut idx = vec![];
        for (i, t) in ob.txs.iter().enumerate() {
            let inputs_ok = t.spends.iter().all(|(_, k)| {
                let is_note = w.notes.contains_key(k);
                !spent.contains(k) && (!is_note || alive.contains(k))
            });
            if inputs_ok && r.chance(2, 3) {
                idx.push(i);
                for (_, k) in &t.spends {
                    spent.insert(*k);
                }
            }
        }
        if idx.is_empty() {
            if r.chance(1, 2) {
                w.gen_blocks(r, 1, p);
                made += 1;
            }
            continue;
        }
        if r.chance(1, 3) {
            // delay: an unrelated block first, so the transaction is re-mined at another height and,
            // with the foreign Sapling output, at another position of the Sapling tree (its notes
            // come back under other nullifiers)
            if r.chance(2, 3) {
                w.push_block(&[TxSpec { spends: vec![], outs: vec![OutSpec { owner: None, pool: Pool::Sapling, value: 777, internal: false }], foreign_spends: 0 }]);
            } else {
                w.push_block(&[]);
            }
            made += 1;
        }
        w.remine(ob, &idx);
        made += 1;
    }
    while made < extend {
        w.gen_blocks(r, 1, p);
        made += 1;
    }
}

/// Boundary lattice around the nullifier-tracking floor (batch of 101/102/103.. blocks extending
/// the fully-scanned frontier), the pruning depth and the orphan expiry: linear big batches,
/// a deep or shallow rewind, one big re-scan batch (floor over orphaned transactions), a
/// continuation long enough for orphans to expire.
fn lattice(seed: u64, idx: u64, variant: u64, stats: &mut Vec<(String, usize)>) {
    if let Ok(v) = std::env::var("C01_ONLY") {
        if v.parse::<u64>().ok() != Some(idx) {
            return;
        }
    }
    let mut r = Rng::new(seed, 1000 + idx);
    let mut w = World::new(rng_from(seed, 5000 + idx), 2);
    let mut rec = Rec::new();
    let p = ChainParams { busy_pct: r.range(12, 22), max_txs: 2, foreign_pct: 20, spend_pct: 70 };
    let len = r.range(215, 245) as usize;
    w.gen_blocks(&mut r, len, &p);
    let tip = w.tip_height();
    if variant % 2 == 0 {
        do_tip(&mut w, &mut rec, tip);
    }
    // first a short prefix (or nothing: no fully-scanned height, hence no floor)
    let gap = if variant % 3 == 2 { r.range(8, 30) as u32 } else { 0 };
    let a = if gap > 0 { [1u32, 2, 7, 12][(variant % 4) as usize] } else { [0u32, 1, 2, 7][(variant % 4) as usize] };
    if a > 0 {
        do_scan(&mut w, &mut rec, BASE, a as usize);
    }
    // the batch extending the frontier: floor = last - 100 > from  <=>  length >= 102;
    // with a gap it is a long out-of-order batch (every block must be tracked), and the gap
    // (receipts whose spends lie in the long batch) is scanned afterwards
    let n = if gap > 0 { [150usize, 180][((variant / 4) % 2) as usize] } else { [101usize, 102, 103, 140, 180][((variant / 4) % 5) as usize] };
    do_scan(&mut w, &mut rec, BASE + a + gap, n);
    if gap > 0 {
        do_scan(&mut w, &mut rec, BASE + a, gap as usize);
    }
    // the rest in two batches (pruning below fully_scanned - 100 happens here)
    let mut h = BASE + a + gap + n as u32;
    while h <= tip {
        let l = r.range(20, 70).min((tip - h + 1) as u64) as usize;
        do_scan(&mut w, &mut rec, h, l);
        h += l as u32;
    }
    // rewind: shallow, around the pruning depth, or deep; then a big re-scan batch
    let depth = *r.pick(&[1u32, 2, 5, 39, 40, 41, 99, 100, 101, 130, 150]);
    let req = tip.saturating_sub(depth).max(BASE);
    if let OpResult::OkHeight(got) = do_trunc(&mut w, &mut rec, req) {
        if depth <= 5 || r.chance(2, 3) {
            let ext = (tip - got) as usize + r.range(if depth <= 5 { 47 } else { 0 }, 55) as usize;
            fork(&mut w, &mut r, got, ext.max(1), &p);
        }
        let ntip = w.tip_height();
        if depth <= 5 && ntip >= got + 47 {
            // walk the tip block by block across the heights at which the orphaned transactions
            // (first observed at got+1 .. got+depth) expire: min_observed + 40 = tip + 1
            do_scan(&mut w, &mut rec, got + 1, 36);
            for h in got + 37..=got + 46 {
                do_scan(&mut w, &mut rec, h, 1);
            }
        } else if got < ntip {
            let l = if r.chance(1, 2) { (ntip - got) as usize } else { r.range(1, (ntip - got) as u64) as usize };
            do_scan(&mut w, &mut rec, got + 1, l);
        }
    }
    finish(w, rec, r, stats);
}

/// Back-fill lattice: a short scanned prefix, then a chain-tip range scanned FIRST that spends
/// notes received in the gap (their nullifiers are parked in the nullifier map), then the gap
/// back-filled in ONE batch of length `l` starting at the fully-scanned frontier: for `l` >= 102 the
/// tracking floor is active while every received note still has to be looked up in the map.
/// Every gap block receives a note (pools and accounts rotating), so receipts sit at every
/// distance from the batch end; all of them are spent in the tip range.
fn backfill(seed: u64, idx: u64, l: usize, variant: u64, stats: &mut Vec<(String, usize)>) {
    if let Ok(v) = std::env::var("C01_ONLY") {
        if v.parse::<u64>().ok() != Some(idx) {
            return;
        }
    }
    let mut r = Rng::new(seed, 1000 + idx);
    let mut w = World::new(rng_from(seed, 5000 + idx), 2);
    let mut rec = Rec::new();
    let a = [1usize, 2, 3][(variant % 3) as usize];
    let p = ChainParams { busy_pct: 50, max_txs: 2, foreign_pct: 20, spend_pct: 40 };
    w.gen_blocks(&mut r, a, &p);
    let mut gap_notes: Vec<u32> = vec![];
    for j in 0..l {
        let pool = Pool::ALL[(j + variant as usize) % 3];
        let mut outs = vec![OutSpec { owner: Some(j % 2), pool, value: 10_000 + j as u64, internal: j % 5 == 0 }];
        if j % 7 == 3 {
            outs.push(OutSpec { owner: None, pool: Pool::Sapling, value: 5, internal: false });
        }
        let h = w.push_block(&[TxSpec { spends: vec![], outs, foreign_spends: (j % 4 == 1) as usize }]);
        gap_notes.push(w.block(h).unwrap().txs[0].outs[0].nf);
    }
    // the tip range: 8 blocks x 2 transactions spending all gap notes
    let k = 8usize;
    let per_tx = (l + 2 * k - 1) / (2 * k);
    let mut it = gap_notes.chunks(per_tx);
    for _ in 0..k {
        let mut txs = vec![];
        for _ in 0..2 {
            if let Some(ch) = it.next() {
                txs.push(TxSpec {
                    spends: ch.to_vec(),
                    outs: vec![OutSpec { owner: Some(0), pool: *r.pick(&Pool::ALL), value: 30_000, internal: true }],
                    foreign_spends: 0,
                });
            }
        }
        w.push_block(&txs);
    }
    let tip = w.tip_height();
    let gap_from = BASE + a as u32;
    let tip_from = gap_from + l as u32;
    if variant % 2 == 0 {
        do_tip(&mut w, &mut rec, tip);
    }
    do_scan(&mut w, &mut rec, BASE, a);
    // the tip range first (in one or two batches), then the gap in one batch
    if variant % 4 < 2 {
        do_scan(&mut w, &mut rec, tip_from, k);
    } else {
        do_scan(&mut w, &mut rec, tip_from + 3, k - 3);
        do_scan(&mut w, &mut rec, tip_from, 3);
    }
    do_scan(&mut w, &mut rec, gap_from, l);
    finish(w, rec, r, stats);
}

struct Plan {
    len: usize,
    max_batch: u32,
    rewinds: usize,
    long_tail: bool,
    ops_budget: usize,
}

fn history(seed: u64, idx: u64, plan: &Plan, stats: &mut Vec<(String, usize)>) {
    if let Ok(v) = std::env::var("C01_ONLY") {
        if v.parse::<u64>().ok() != Some(idx) {
            return;
        }
    }
    if std::env::var("C01_TRACE").is_ok() { eprintln!("== history {idx} len {}", plan.len); }
    let mut r = Rng::new(seed, 1000 + idx);
    let mut w = World::new(rng_from(seed, 5000 + idx), 2);
    let mut rec = Rec::new();
    let p = ChainParams {
        busy_pct: if plan.len > 100 { r.range(8, 20) } else { r.range(30, 70) },
        max_txs: 3,
        foreign_pct: r.range(10, 40),
        spend_pct: r.range(30, 80),
    };
    w.gen_blocks(&mut r, plan.len, &p);
    let mut budget = plan.ops_budget;
    let mut rewinds = plan.rewinds;

    // phase 1: random partition, permuted, with repeats, tip updates and overlapping batches
    let tip = w.tip_height();
    let mut batches = partition(&mut r, BASE, tip, plan.max_batch);
    match r.below(4) {
        0 => {}
        1 => batches.reverse(),
        _ => shuffle(&mut r, &mut batches),
    }
    let n = batches.len();
    for k in 0..n {
        if r.chance(1, 6) {
            let j = r.below(n as u64) as usize;
            batches.push(batches[j]);
        }
        if r.chance(1, 8) {
            let from = r.range(BASE as u64, tip as u64) as u32;
            batches.push((from, r.range(1, plan.max_batch as u64) as usize));
        }
        let _ = k;
    }
    if r.chance(1, 2) {
        do_tip(&mut w, &mut rec, tip);
    }
    let mut bi = 0;
    while bi < batches.len() && budget > 6 {
        let (from, len) = batches[bi];
        bi += 1;
        budget -= 1;
        if from > w.tip_height() {
            continue;
        }
        do_scan(&mut w, &mut rec, from, len);
        if r.chance(1, 7) {
            let t = match r.below(6) {
                0 => BASE - 1,
                1 => r.range(BASE as u64, w.tip_height() as u64) as u32,
                _ => w.tip_height(),
            };
            do_tip(&mut w, &mut rec, t);
        }
        if rewinds > 0 && r.chance(1, 5) {
            rewinds -= 1;
            rewind(&mut w, &mut rec, &mut r, plan, &p);
        }
    }
    while rewinds > 0 {
        rewinds -= 1;
        rewind(&mut w, &mut rec, &mut r, plan, &p);
    }
    finish(w, rec, r, stats);
}

fn finish(mut w: World, mut rec: Rec, mut r: Rng, stats: &mut Vec<(String, usize)>) {
    // phase 2: finish the scan, set the tip, compare with a linear scan by a fresh wallet.
    // If the wallet still holds blocks of an abandoned branch (a rewind was rejected, or the
    // branch was scanned without rewinding), first rewind below the lowest stale block, as a
    // caller handling the reorg would.
    let mut fin = 12usize;
    for _ in 0..3 {
        let d = w.dump();
        let stale = d.blocks.iter().find(|(h, x)| w.block(*h).map(|b| b.hash) != Some(*x)).map(|b| b.0);
        match stale {
            None => break,
            Some(m) => {
                let below: Vec<u32> = d.blocks.iter().map(|b| b.0).filter(|h| *h < m).collect();
                match below.last() {
                    Some(h) => {
                        do_trunc(&mut w, &mut rec, *h);
                    }
                    None => break,
                }
            }
        }
    }
    let done = complete(&mut w, &mut rec, &mut r, &mut fin);
    let top = w.tip_height();
    do_tip(&mut w, &mut rec, top);
    // "every block up to the tip has been scanned": the wallet holds exactly the blocks of the
    // best chain (same hashes) and its tip is the chain tip
    let d = w.dump();
    let on_chain = d.blocks.len() == w.chain.len()
        && d.blocks.iter().all(|(h, x)| w.block(*h).map(|b| b.hash) == Some(*x))
        && d.tip == Some(top);
    let lin = if done && on_chain {
        let mut fresh = w.fresh_wallet();
        let res = w.scan_into(&mut fresh, BASE, w.chain.len());
        if matches!(res, OpResult::Ok) {
            format!("(Some {})", coq_dump(&w.dump_of(&fresh)))
        } else {
            "None".into()
        }
    } else {
        "None".into()
    };
    OUT.with(|o| o.borrow_mut().push(format!("Hist 2 [{}] {}", rec.steps.join("; "), lin)));
    let mut add = |k: &str, v: usize| {
        if let Some(e) = stats.iter_mut().find(|e| e.0 == k) {
            e.1 += v;
        } else {
            stats.push((k.to_string(), v));
        }
    };
    add("histories", 1);
    add("scans", rec.n_scan);
    add("tip_updates", rec.n_tip);
    add("truncates", rec.n_trunc);
    add("op_errors", rec.n_err);
    add("op_panics", rec.n_panic);
    add("dumps_without_summary", rec.n_nosummary);
    add("blocks", w.chain.len() + w.orphaned.len());
    add("orphaned_blocks", w.orphaned.len());
    add("notes_generated", w.notes.len());
    add("sapling_outputs_remined_under_new_nullifier", w.renullified);
    add("with_linear_compare", if lin != "None" { 1 } else { 0 });
    for e in rec.errs {
        eprintln!("  err: {e}");
    }
}

/// A rewind followed by a re-scan of the same chain or by a different continuation; sometimes
/// preceded by the malformed sequence "continuation scanned without rewinding".
fn rewind(w: &mut World, rec: &mut Rec, r: &mut Rng, plan: &Plan, p: &ChainParams) {
    let d = w.dump();
    if d.blocks.is_empty() {
        return;
    }
    let top = d.blocks.last().unwrap().0;
    let lo = d.blocks.first().unwrap().0;
    let req = match r.below(5) {
        0 => top,
        1 => top + 3,
        2 => lo.saturating_sub(1),
        _ => r.range(lo as u64, top as u64) as u32,
    };
    let forked = r.chance(3, 5);
    if forked && r.chance(1, 4) && req >= BASE && req < w.tip_height() {
        // malformed: the chain reorganises and the wallet scans the new branch without rewinding
        let ext = r.range(1, 4) as usize;
        fork(w, r, req, ext, p);
        let from = (req + 1).min(w.tip_height());
        do_scan(w, rec, from, ext);
    }
    match do_trunc(w, rec, req) {
        OpResult::OkHeight(got) => {
            if forked || got < w.tip_height() && w.block(got + 1).is_none() {
                let ext = if plan.long_tail && r.chance(1, 2) { r.range(38, 48) as usize } else { r.range(1, 12) as usize };
                if got < w.tip_height() || r.chance(1, 2) {
                    fork(w, r, got, ext, p);
                }
            }
            // re-scan (part of) what is above, in one or several batches, maybe out of order
            let tip = w.tip_height();
            if got < tip {
                let mut bs = partition(r, got + 1, tip, plan.max_batch);
                if r.chance(1, 3) {
                    bs.reverse();
                }
                let k = r.range(0, bs.len() as u64) as usize;
                for (from, len) in bs.into_iter().take(k) {
                    do_scan(w, rec, from, len);
                }
            }
        }
        _ => {}
    }
}

enum Job {
    Hist(u64, Plan),
    Lat(u64, u64),
    Back(u64, usize, u64),
}

fn main() {
    let a = args();
    quiet_panics();
    let (n_short, n_long) = if a.search { (60, 16) } else if a.thorough() { (220, 60) } else { (18, 3) };
    let mut rr = Rng::new(a.seed, 7);
    let mut idx = 0u64;
    let mut jobs: Vec<Job> = vec![];
    for _ in 0..n_short {
        let plan = Plan {
            len: rr.range(6, 60) as usize,
            max_batch: rr.range(2, 12) as u32,
            rewinds: rr.below(3) as usize,
            long_tail: rr.chance(1, 3),
            ops_budget: 34,
        };
        jobs.push(Job::Hist(idx, plan));
        idx += 1;
    }
    for _ in 0..n_long {
        let plan = Plan {
            len: rr.range(125, 250) as usize,
            max_batch: rr.range(40, 160) as u32,
            rewinds: rr.below(2) as usize,
            long_tail: true,
            ops_budget: 20,
        };
        jobs.push(Job::Hist(idx, plan));
        idx += 1;
    }
    let n_lat = if a.search { 24 } else if a.thorough() { 60 } else { 12 };
    for v in 0..n_lat {
        jobs.push(Job::Lat(idx, v + a.seed % 20));
        idx += 1;
    }
    let n_back = if a.search { 10 } else if a.thorough() { 25 } else { 5 };
    for v in 0..n_back {
        let l = [100usize, 101, 102, 113, 150][(v % 5) as usize];
        jobs.push(Job::Back(idx, l, v / 5 + v + a.seed % 12));
        idx += 1;
    }
    // histories are independent (own wallet, own PRNG streams derived from the seed and the
    // history index): run them on a few threads, print in index order
    let seed = a.seed;
    let next = std::sync::atomic::AtomicUsize::new(0);
    let results: std::sync::Mutex<Vec<Option<(Vec<String>, Vec<(String, usize)>)>>> =
        std::sync::Mutex::new((0..jobs.len()).map(|_| None).collect());
    std::thread::scope(|sc| {
        for _ in 0..8 {
            sc.spawn(|| loop {
                let i = next.fetch_add(1, std::sync::atomic::Ordering::SeqCst);
                if i >= jobs.len() {
                    break;
                }
                let mut st: Vec<(String, usize)> = vec![];
                match &jobs[i] {
                    Job::Hist(idx, plan) => history(seed, *idx, plan, &mut st),
                    Job::Lat(idx, v) => lattice(seed, *idx, *v, &mut st),
                    Job::Back(idx, l, v) => backfill(seed, *idx, *l, *v, &mut st),
                }
                let lines = OUT.with(|o| std::mem::take(&mut *o.borrow_mut()));
                results.lock().unwrap()[i] = Some((lines, st));
            });
        }
    });
    let mut stats: Vec<(String, usize)> = vec![];
    for r in results.into_inner().unwrap().into_iter().flatten() {
        for l in r.0 {
            case(l);
        }
        for (k, v) in r.1 {
            if let Some(e) = stats.iter_mut().find(|e| e.0 == k) {
                e.1 += v;
            } else {
                stats.push((k, v));
            }
        }
    }
    let body: Vec<String> = stats.iter().map(|(k, v)| format!("\"{k}\": {v}")).collect();
    stat(format!("{{{}}}", body.join(", ")));
}
