//! C03 harness: transaction and block-header wire codecs.
//!
//! Prints one Coq `case` per executed `Transaction::read` / `BlockHeader::read` /
//! `CompactSize::{read,write}` call: the input bytes, the table of opaque 32-byte blobs that the
//! *primitive* decoders (jubjub / bls12_381 / pasta_curves / redjubjub — never the transaction
//! parser) reject, and the observed outcome (accept / reject / panic, consumed length,
//! re-serialisation, re-parse equality, SHA-256d identifier check through the `sha2` crate).
use std::collections::BTreeMap;
use std::io::Cursor;

use ff::PrimeField;
use group::{cofactor::CofactorGroup, Group, GroupEncoding};
use proptest::strategy::{Strategy, ValueTree};
use proptest::test_runner::{Config, RngAlgorithm, TestRng, TestRunner};
use sha2::{Digest, Sha256};
use vcommon::*;

// Case lines are buffered and written at the end in an order that spreads the expensive (long)
// ones evenly over the blocks of SHARD consecutive lines that the driver evaluates in parallel.
static CASES: std::sync::Mutex<Vec<String>> = std::sync::Mutex::new(Vec::new());
const SHARD: usize = 250; // = shard_size in vlib/props/c03.py
fn case(s: String) {
    CASES.lock().unwrap().push(s);
}
fn flush_cases() {
    let mut v = std::mem::take(&mut *CASES.lock().unwrap());
    let n = v.len();
    let shards = (n + SHARD - 1) / SHARD.max(1);
    if shards <= 1 {
        v.iter().for_each(|s| println!("C {}", s));
        return;
    }
    // longest first, dealt round-robin (alternating direction); every block except the last has
    // exactly SHARD lines so that the blocks are the driver's shards
    v.sort_by(|a, b| b.len().cmp(&a.len()).then(a.cmp(b)));
    let cap = |i: usize| if i + 1 < shards { SHARD } else { n - SHARD * (shards - 1) };
    let mut blocks: Vec<(usize, Vec<String>)> = (0..shards).map(|_| (0, vec![])).collect();
    let mut order: Vec<usize> = (0..shards).chain((0..shards).rev()).collect();
    order.dedup();
    let mut k = 0usize;
    for s in v {
        loop {
            let i = order[k % order.len()];
            k += 1;
            if blocks[i].1.len() < cap(i) {
                blocks[i].0 += s.len();
                blocks[i].1.push(s);
                break;
            }
        }
    }
    for (_, b) in blocks {
        b.iter().for_each(|s| println!("C {}", s));
    }
}
use zcash_primitives::block::BlockHeader;
use zcash_primitives::transaction::components::orchard as orch_ser;
use zcash_primitives::transaction::components::sprout;
use zcash_primitives::transaction::{Authorized, Transaction, TransactionData, TxVersion};
use zcash_protocol::consensus::{BlockHeight, BranchId};
use zcash_protocol::value::{ZatBalance, Zatoshis, MAX_MONEY};
use zcash_transparent::address::Script;
use zcash_transparent::bundle::{self as tb, OutPoint, TxIn, TxOut};

const BRANCHES: [BranchId; 11] = [
    BranchId::Sprout,
    BranchId::Overwinter,
    BranchId::Sapling,
    BranchId::Blossom,
    BranchId::Heartwood,
    BranchId::Canopy,
    BranchId::Nu5,
    BranchId::Nu6,
    BranchId::Nu6_1,
    BranchId::Nu6_2,
    BranchId::Nu6_3,
];

// ---- origin of a case (first argument of Tx / Hdr) --------------------------------------------
const S_GEN: u64 = 0; // crate strategy / own composition
const S_EDGE: u64 = 1; // forced edge shape
const S_TRUNC: u64 = 2;
const S_EXT: u64 = 3;
const S_FLIP: u64 = 4;
const S_COUNT: u64 = 5;
const S_NONCANON: u64 = 6;
const S_AMOUNT: u64 = 7;
const S_RANDOM: u64 = 8;
const S_HDRFIELD: u64 = 9;
const S_BLOB: u64 = 10;
const S_V4_VB: u64 = 12; // v4 without Sapling spends/outputs but a non-zero valueBalanceSapling (C03-F1)
const S_AMOUNT_OK: u64 = 11; // an amount field overwritten with another in-range value

/// Bytes as `(wb len [w; ..]%uint63)`: 7 bytes per primitive integer, big-endian, last word
/// right-aligned; split into chunks joined by `++` (Coq reads very long list literals badly).
fn hn(b: &[u8]) -> String {
    if b.is_empty() {
        return "[]".into();
    }
    let parts: Vec<String> = b
        .chunks(9800)
        .map(|c| {
            let ws: Vec<String> = c.chunks(7).map(|w| w.iter().fold(0u64, |a, x| (a << 8) | *x as u64).to_string()).collect();
            format!("wb {} [{}]%uint63", c.len(), ws.join(";"))
        })
        .collect();
    format!("({})", parts.join(" ++ "))
}

fn hex_to_vec(h: &str) -> Vec<u8> {
    (0..h.len() / 2).map(|i| u8::from_str_radix(&h[2 * i..2 * i + 2], 16).unwrap()).collect()
}

fn sha256d(b: &[u8]) -> [u8; 32] {
    let mut o = [0u8; 32];
    o.copy_from_slice(&Sha256::digest(Sha256::digest(b)));
    o
}

// ---- primitive validity of opaque blobs (independent of the transaction parser) ---------------
fn blob_valid(kind: u8, b: &[u8; 32]) -> bool {
    match kind {
        // Sapling value commitment: canonical Jubjub point, not of small order
        1 => {
            let p = jubjub::ExtendedPoint::from_bytes(b);
            bool::from(p.is_some()) && !bool::from(p.unwrap().is_small_order())
        }
        // Jubjub base field element (anchor) / extracted note commitment
        2 | 4 => bool::from(jubjub::Fq::from_repr(*b).is_some()),
        // RedJubjub spend verification key
        3 => redjubjub::VerificationKey::<redjubjub::SpendAuth>::try_from(*b).is_ok(),
        // Orchard value commitment: canonical Pallas point
        5 => bool::from(pasta_curves::pallas::Point::from_bytes(b).is_some()),
        // Pallas base field elements: nullifier, cmx, anchor
        6 | 8 | 10 => bool::from(pasta_curves::pallas::Base::from_repr(*b).is_some()),
        // RedPallas rk and ephemeral key: canonical non-identity Pallas points
        7 | 9 => {
            let p = pasta_curves::pallas::Point::from_bytes(b);
            bool::from(p.is_some()) && !bool::from(p.unwrap().is_identity())
        }
        _ => true,
    }
}

// ---- loose structural walker ------------------------------------------------------------------
// Follows the wire layout without validating anything; it only proposes (a) which 32-byte
// windows to submit to the primitive decoders and (b) where mutations are interesting. The
// model never trusts it: a blob it misses is simply treated as valid by the model, which then
// disagrees with the implementation if that mattered.
#[derive(Clone, Copy, PartialEq, Debug)]
enum MK {
    Field,
    Count,
    AmtU,
    AmtS,
    Blob(u8),
    Flags,
    Hdr,
    Branch,
}

struct Walk<'a> {
    b: &'a [u8],
    p: usize,
    marks: Vec<(usize, MK)>,
    ok: bool,
}

impl<'a> Walk<'a> {
    fn new(b: &'a [u8]) -> Self {
        Walk { b, p: 0, marks: vec![], ok: true }
    }
    fn skip(&mut self, n: usize) -> bool {
        if !self.ok {
            return false;
        }
        if self.p + n <= self.b.len() {
            self.p += n;
            true
        } else {
            self.ok = false;
            false
        }
    }
    fn field(&mut self, k: MK, n: usize) -> bool {
        if self.ok {
            self.marks.push((self.p, k));
        }
        self.skip(n)
    }
    fn u32(&mut self, k: MK) -> Option<u32> {
        let p = self.p;
        if self.field(k, 4) {
            Some(u32::from_le_bytes(self.b[p..p + 4].try_into().unwrap()))
        } else {
            None
        }
    }
    fn cs(&mut self) -> Option<u64> {
        let p = self.p;
        if !self.field(MK::Count, 1) {
            return None;
        }
        let f = self.b[p];
        let n = match f {
            0..=252 => f as u64,
            253 => {
                if !self.skip(2) {
                    return None;
                }
                u16::from_le_bytes(self.b[p + 1..p + 3].try_into().unwrap()) as u64
            }
            254 => {
                if !self.skip(4) {
                    return None;
                }
                u32::from_le_bytes(self.b[p + 1..p + 5].try_into().unwrap()) as u64
            }
            _ => {
                if !self.skip(8) {
                    return None;
                }
                u64::from_le_bytes(self.b[p + 1..p + 9].try_into().unwrap())
            }
        };
        if n > (self.b.len() - self.p) as u64 {
            // cannot be followed by that many elements
            self.ok = false;
            return None;
        }
        Some(n)
    }
    fn bytevec(&mut self) {
        if let Some(n) = self.cs() {
            self.field(MK::Field, n as usize);
        }
    }
    fn transparent(&mut self) {
        if let Some(n) = self.cs() {
            for _ in 0..n {
                self.field(MK::Field, 32);
                self.field(MK::Field, 4);
                self.bytevec();
                self.field(MK::Field, 4);
                if !self.ok {
                    return;
                }
            }
        }
        if let Some(n) = self.cs() {
            for _ in 0..n {
                self.field(MK::AmtU, 8);
                self.bytevec();
                if !self.ok {
                    return;
                }
            }
        }
    }
    fn sapling5(&mut self) {
        let ns = match self.cs() {
            Some(n) => n,
            None => return,
        };
        for _ in 0..ns {
            self.field(MK::Blob(1), 32);
            self.field(MK::Field, 32);
            self.field(MK::Blob(3), 32);
            if !self.ok {
                return;
            }
        }
        let no = match self.cs() {
            Some(n) => n,
            None => return,
        };
        for _ in 0..no {
            self.field(MK::Blob(1), 32);
            self.field(MK::Blob(4), 32);
            self.field(MK::Field, 32);
            self.field(MK::Field, 580);
            self.field(MK::Field, 80);
            if !self.ok {
                return;
            }
        }
        if ns > 0 || no > 0 {
            self.field(MK::AmtS, 8);
        }
        if ns > 0 {
            self.field(MK::Blob(2), 32);
        }
        for _ in 0..ns {
            self.field(MK::Field, 192);
        }
        for _ in 0..ns {
            self.field(MK::Field, 64);
        }
        for _ in 0..no {
            self.field(MK::Field, 192);
        }
        if ns > 0 || no > 0 {
            self.field(MK::Field, 64);
        }
    }
    fn orchard(&mut self) {
        let n = match self.cs() {
            Some(n) => n,
            None => return,
        };
        for _ in 0..n {
            self.field(MK::Blob(5), 32);
            self.field(MK::Blob(6), 32);
            self.field(MK::Blob(7), 32);
            self.field(MK::Blob(8), 32);
            self.field(MK::Blob(9), 32);
            self.field(MK::Field, 580);
            self.field(MK::Field, 80);
            if !self.ok {
                return;
            }
        }
        if n > 0 {
            self.field(MK::Flags, 1);
            self.field(MK::AmtS, 8);
            self.field(MK::Blob(10), 32);
            self.bytevec();
            for _ in 0..n {
                self.field(MK::Field, 64);
            }
            self.field(MK::Field, 64);
        }
    }
    fn legacy(&mut self, overwinter: bool, sapling: bool, sprout: bool) {
        self.transparent();
        self.field(MK::Field, 4);
        if overwinter {
            self.field(MK::Field, 4);
        }
        let (mut ns, mut no) = (0, 0);
        if sapling {
            self.field(MK::AmtS, 8);
            ns = match self.cs() {
                Some(n) => n,
                None => return,
            };
            for _ in 0..ns {
                self.field(MK::Blob(1), 32);
                self.field(MK::Blob(2), 32);
                self.field(MK::Field, 32);
                self.field(MK::Blob(3), 32);
                self.field(MK::Field, 192);
                self.field(MK::Field, 64);
                if !self.ok {
                    return;
                }
            }
            no = match self.cs() {
                Some(n) => n,
                None => return,
            };
            for _ in 0..no {
                self.field(MK::Blob(1), 32);
                self.field(MK::Blob(4), 32);
                self.field(MK::Field, 32);
                self.field(MK::Field, 580);
                self.field(MK::Field, 80);
                self.field(MK::Field, 192);
                if !self.ok {
                    return;
                }
            }
        }
        if sprout {
            let nj = match self.cs() {
                Some(n) => n,
                None => return,
            };
            for _ in 0..nj {
                self.field(MK::AmtU, 8);
                self.field(MK::AmtU, 8);
                for _ in 0..9 {
                    self.field(MK::Field, 32);
                }
                self.field(MK::Field, if sapling { 192 } else { 296 });
                self.field(MK::Field, 601);
                self.field(MK::Field, 601);
                if !self.ok {
                    return;
                }
            }
            if nj > 0 {
                self.field(MK::Field, 32);
                self.field(MK::Field, 64);
            }
        }
        if sapling && (ns > 0 || no > 0) {
            self.field(MK::Field, 64);
        }
    }
    fn tx(&mut self) {
        let h = match self.u32(MK::Hdr) {
            Some(h) => h,
            None => return,
        };
        let v = h & 0x7fff_ffff;
        if h >> 31 == 1 {
            if self.u32(MK::Hdr).is_none() {
                return;
            }
            match v {
                3 => self.legacy(true, false, true),
                4 => self.legacy(true, true, true),
                5 | 6 => {
                    self.u32(MK::Branch);
                    self.field(MK::Field, 4);
                    self.field(MK::Field, 4);
                    self.transparent();
                    self.sapling5();
                    self.orchard();
                    if v == 6 {
                        self.orchard();
                    }
                }
                _ => {}
            }
        } else {
            self.legacy(false, false, v >= 2);
        }
    }
}

fn bad_blobs(b: &[u8]) -> Vec<(u8, [u8; 32])> {
    let mut w = Walk::new(b);
    w.tx();
    let mut out: Vec<(u8, [u8; 32])> = vec![];
    for (p, k) in &w.marks {
        if let MK::Blob(kind) = k {
            if p + 32 <= b.len() {
                let blob: [u8; 32] = b[*p..p + 32].try_into().unwrap();
                if !blob_valid(*kind, &blob) && !out.contains(&(*kind, blob)) {
                    out.push((*kind, blob));
                }
            }
        }
    }
    out
}

// ---- observation ------------------------------------------------------------------------------
/// Field-by-field rendering of a transaction through its accessors and the primitive
/// `to_bytes`/`to_repr` encoders (never through `Transaction::write`), its txid and its
/// authorising-data commitment.
fn fingerprint(tx: &Transaction) -> (String, [u8; 32], Vec<u8>) {
    use std::fmt::Write as _;
    let auth = catch(|| tx.auth_commitment().as_bytes().to_vec()).unwrap_or_else(|| vec![0xee]);
    let mut s = String::new();
    write!(s, "v={:?} br={:?} lock={} exp={:?};", tx.version(), tx.consensus_branch_id(), tx.lock_time(), tx.expiry_height()).unwrap();
    write!(s, "T={:?};J={:?};", tx.transparent_bundle(), tx.sprout_bundle()).unwrap();
    match tx.sapling_bundle() {
        None => s.push_str("S=None;"),
        Some(b) => {
            write!(s, "S=vb{} bs{};", i64::from(*b.value_balance()), hex(&<[u8; 64]>::from(b.authorization().binding_sig))).unwrap();
            for sp in b.shielded_spends() {
                write!(
                    s,
                    "sp({},{},{},{},{},{})",
                    hex(&sp.cv().to_bytes()),
                    hex(sp.anchor().to_repr().as_ref()),
                    hex(&sp.nullifier().0),
                    hex(&<[u8; 32]>::from(*sp.rk())),
                    hex(sp.zkproof()),
                    hex(&<[u8; 64]>::from(*sp.spend_auth_sig()))
                )
                .unwrap();
            }
            for o in b.shielded_outputs() {
                write!(
                    s,
                    "out({},{},{},{},{},{})",
                    hex(&o.cv().to_bytes()),
                    hex(o.cmu().to_bytes().as_ref()),
                    hex(o.ephemeral_key().as_ref()),
                    hex(o.enc_ciphertext()),
                    hex(o.out_ciphertext()),
                    hex(o.zkproof())
                )
                .unwrap();
            }
        }
    }
    for (name, ob) in [("O", tx.orchard_bundle()), ("I", tx.ironwood_bundle())] {
        match ob {
            None => write!(s, "{}=None;", name).unwrap(),
            Some(b) => {
                write!(
                    s,
                    "{}=ver{:?} fl{:?} vb{} an{} pr{} bs{};",
                    name,
                    b.bundle_version(),
                    b.flags(),
                    i64::from(*b.value_balance()),
                    hex(&b.anchor().to_bytes()),
                    hex(b.authorization().proof().as_ref()),
                    hex(&<[u8; 64]>::from(b.authorization().binding_signature()))
                )
                .unwrap();
                for a in b.actions().iter() {
                    write!(
                        s,
                        "act({},{},{},{},{},{},{},{})",
                        hex(&a.cv_net().to_bytes()),
                        hex(&a.nullifier().to_bytes()),
                        hex(&<[u8; 32]>::from(a.rk())),
                        hex(&a.cmx().to_bytes()),
                        hex(&a.encrypted_note().epk_bytes),
                        hex(&a.encrypted_note().enc_ciphertext),
                        hex(&a.encrypted_note().out_ciphertext),
                        hex(&<[u8; 64]>::from(a.authorization()))
                    )
                    .unwrap();
                }
            }
        }
    }
    (s, *tx.txid().as_ref(), auth)
}

struct TxObs {
    consumed: usize,
    rw: Option<Vec<u8>>,
    written: Vec<u8>,
    same: bool,
    version: TxVersion,
}

/// `Read` implementations other than a slice: at most `k` bytes per call (over `a` then `b`,
/// so that a chain of two slices is the case k = usize::MAX), counting what was handed out.
struct Pieces<'a> {
    a: &'a [u8],
    b: &'a [u8],
    k: usize,
    given: usize,
}
impl<'a> std::io::Read for Pieces<'a> {
    fn read(&mut self, buf: &mut [u8]) -> std::io::Result<usize> {
        // like `Read::chain`: serve the first slice until it is exhausted, then the second
        let src: &mut &'a [u8] = if !self.a.is_empty() { &mut self.a } else { &mut self.b };
        let n = buf.len().min(self.k).min(src.len());
        buf[..n].copy_from_slice(&src[..n]);
        *src = &src[n..];
        self.given += n;
        Ok(n)
    }
}

fn observe_tx(b: &[u8], branch: BranchId) -> Option<Result<(TxObs, Transaction), ()>> {
    catch(|| {
        let mut cur = Cursor::new(b);
        match Transaction::read(&mut cur, branch) {
            Err(_) => Err(()),
            Ok(tx) => {
                let consumed = cur.position() as usize;
                let mut w = vec![];
                let wr = tx.write(&mut w).is_ok();
                let rw = if wr && w[..] == b[..consumed] { None } else { Some(if wr { w.clone() } else { vec![] }) };
                let same = wr
                    && match Transaction::read(&w[..], branch) {
                        Ok(tx2) => {
                            let mut w2 = vec![];
                            fingerprint(&tx2) == fingerprint(&tx) && tx2.write(&mut w2).is_ok() && w2 == w
                        }
                        Err(_) => false,
                    };
                let version = tx.version();
                Ok((TxObs { consumed, rw, written: w, same, version }, tx))
            }
        }
    })
}

/// Which other readers to try: (kind, parameter). 1 = at most k bytes per call, 2 = chain of two
/// slices split at p, 3 = at most k bytes per call with trailing garbage appended.
fn alt_plan(rng: &mut Rng, len: usize, marks: &[usize], accepted: bool) -> Vec<(u64, usize)> {
    if !accepted {
        return vec![(1, 1), (1, 7), (2, len / 2)];
    }
    let mut v: Vec<(u64, usize)> = [1usize, 2, 3, 7, 31, 64].iter().map(|k| (1u64, *k)).collect();
    v.push((3, 3));
    let mut splits: Vec<usize> = vec![];
    if marks.len() <= 25 {
        for m in marks {
            splits.extend([m.wrapping_sub(1), *m, m + 1]);
        }
    } else {
        for _ in 0..6 {
            let m = marks[rng.below(marks.len() as u64) as usize];
            splits.extend([m, m + 1 + rng.below(3) as usize]);
        }
    }
    splits.retain(|p| *p > 0 && *p < len);
    splits.sort();
    splits.dedup();
    v.extend(splits.into_iter().map(|p| (2u64, p)));
    v
}

fn run_alt<T>(kind: u64, param: usize, b: &[u8], consumed: usize, garbage: &[u8], parse: impl Fn(&mut Pieces) -> Result<T, ()>, cmp: impl Fn(&T) -> (bool, Option<Vec<u8>>)) -> String {
    let mut g = b[..consumed.min(b.len())].to_vec();
    g.extend_from_slice(garbage);
    let r = catch(|| {
        let mut rd = match kind {
            1 => Pieces { a: b, b: &[], k: param, given: 0 },
            2 => Pieces { a: &b[..param], b: &b[param..], k: usize::MAX, given: 0 },
            _ => Pieces { a: &g, b: &[], k: param, given: 0 },
        };
        parse(&mut rd).map(|t| (rd.given, t))
    });
    let res = match r {
        None => "AltPanic".to_string(),
        Some(Err(())) => "AltErr".to_string(),
        Some(Ok((given, t))) => {
            let (ser_same, id) = cmp(&t);
            format!("(AltOk {} {} {})", given, boolc(ser_same), opt(id.map(|x| hn(&x))))
        }
    };
    format!("({}, {}, {})", kind, param, res)
}

struct Stats {
    by_src: BTreeMap<u64, u64>,
    by_outcome: BTreeMap<String, u64>,
    by_version: BTreeMap<String, u64>,
    size_hist: BTreeMap<u64, u64>,
    bad_tables: u64,
    rust_only: u64,
    alt_reads: u64,
    max_case_bytes: usize,
}

fn vname(v: TxVersion) -> String {
    match v {
        TxVersion::Sprout(n) => format!("sprout{}", if n > 2 { 3 } else { n }),
        TxVersion::V3 => "v3".into(),
        TxVersion::V4 => "v4".into(),
        TxVersion::V5 => "v5".into(),
        TxVersion::V6 => "v6".into(),
    }
}

fn emit_tx(st: &mut Stats, rng: &mut Rng, src: u64, b: &[u8], branch: BranchId, gen: Option<&(String, [u8; 32], Vec<u8>)>) {
    let o = observe_tx(b, branch);
    let bad = bad_blobs(b);
    if !bad.is_empty() {
        st.bad_tables += 1;
    }
    let marks: Vec<usize> = {
        let mut w = Walk::new(b);
        w.tx();
        w.marks.iter().map(|(p, _)| *p).collect()
    };
    let garbage = rng.bytes(5);
    let parse = |rd: &mut Pieces| Transaction::read(rd, branch).map_err(|_| ());
    let (out, alts) = match &o {
        None => {
            *st.by_outcome.entry("panic".into()).or_default() += 1;
            (PANIC.to_string(), vec![])
        }
        Some(Err(())) => {
            *st.by_outcome.entry("reject".into()).or_default() += 1;
            let alts: Vec<String> = alt_plan(rng, b.len(), &marks, false)
                .into_iter()
                .filter(|(k, p)| *k != 2 || (*p > 0 && *p < b.len()))
                .map(|(k, p)| run_alt(k, p, b, b.len(), &garbage, &parse, |_t: &Transaction| (false, None)))
                .collect();
            (err("tt"), alts)
        }
        Some(Ok((ob, tx))) => {
            *st.by_outcome.entry("accept".into()).or_default() += 1;
            *st.by_version.entry(vname(ob.version)).or_default() += 1;
            let main_fp = fingerprint(tx);
            let gen_same = match gen {
                None => true,
                Some(g) => {
                    let f = &main_fp;
                    if g != f && std::env::var("C03_DEBUG").is_ok() {
                        let i = g.0.bytes().zip(f.0.bytes()).position(|(a, b)| a != b).unwrap_or(0);
                        eprintln!("gen!=parsed dbg_eq={} txid_eq={} auth_eq={} at {}:\n  gen: {}\n  got: {}", g.0 == f.0, g.1 == f.1, g.2 == f.2, i,
                            &g.0[i.saturating_sub(80)..(i + 80).min(g.0.len())], &f.0[i.saturating_sub(80)..(i + 80).min(f.0.len())]);
                    }
                    g == f
                }
            };
            let cmp = |t: &Transaction| {
                let f = fingerprint(t);
                let mut w = vec![];
                let ser_same = t.write(&mut w).is_ok() && w == ob.written && f.0 == main_fp.0 && f.2 == main_fp.2;
                (ser_same, if f.1 == main_fp.1 { None } else { Some(f.1.to_vec()) })
            };
            let alts: Vec<String> = alt_plan(rng, b.len(), &marks, true).into_iter().map(|(k, p)| run_alt(k, p, b, ob.consumed, &garbage, &parse, &cmp)).collect();
            (
                ok(format!(
                    "(TxOk {} {} {} {} {} {})",
                    ob.consumed,
                    opt(ob.rw.as_ref().map(|w| hn(w))),
                    hn(tx.txid().as_ref()),
                    u32::from(tx.consensus_branch_id()),
                    boolc(ob.same),
                    boolc(gen_same)
                )),
                alts,
            )
        }
    };
    st.alt_reads += alts.len() as u64;
    st.max_case_bytes = st.max_case_bytes.max(b.len());
    *st.by_src.entry(src).or_default() += 1;
    *st.size_hist.entry((b.len() as u64 + 1).next_power_of_two()).or_default() += 1;
    case(format!(
        "Tx {} {} {} {} {} {}",
        src,
        u32::from(branch),
        hn(b),
        list(bad.iter().map(|(k, x)| pair(format!("{}", k), hn(x)))),
        out,
        list(alts)
    ));
}

fn emit_hdr(st: &mut Stats, rng: &mut Rng, src: u64, b: &[u8]) {
    let o = catch(|| {
        let mut cur = Cursor::new(b);
        match BlockHeader::read(&mut cur) {
            Err(_) => Err(()),
            Ok(h) => {
                let consumed = cur.position() as usize;
                let mut w = vec![];
                let wr = h.write(&mut w).is_ok();
                let rw = if wr && w[..] == b[..consumed] { None } else { Some(if wr { w.clone() } else { vec![] }) };
                let same = wr
                    && match BlockHeader::read(&w[..]) {
                        Ok(h2) => format!("{:?}", h2) == format!("{:?}", h) && h2.hash() == h.hash(),
                        Err(_) => false,
                    };
                Ok((consumed, rw, same, h, w))
            }
        }
    });
    let garbage = rng.bytes(5);
    let marks: Vec<usize> = [4usize, 36, 68, 100, 104, 108, 140, 141, 143].iter().cloned().filter(|p| *p < b.len()).collect();
    let parse = |rd: &mut Pieces| BlockHeader::read(rd).map_err(|_| ());
    let (out, alts) = match &o {
        None => {
            *st.by_outcome.entry("hdr-panic".into()).or_default() += 1;
            (PANIC.to_string(), vec![])
        }
        Some(Err(())) => {
            *st.by_outcome.entry("hdr-reject".into()).or_default() += 1;
            let alts: Vec<String> = alt_plan(rng, b.len(), &marks, false)
                .into_iter()
                .filter(|(k, p)| *k != 2 || (*p > 0 && *p < b.len()))
                .map(|(k, p)| run_alt(k, p, b, b.len(), &garbage, &parse, |_h: &BlockHeader| (false, None)))
                .collect();
            (err("tt"), alts)
        }
        Some(Ok((c, rw, same, h, written))) => {
            *st.by_outcome.entry("hdr-accept".into()).or_default() += 1;
            let cmp = |t: &BlockHeader| {
                let mut w = vec![];
                let ser_same = t.write(&mut w).is_ok() && w == *written && format!("{:?}", t) == format!("{:?}", h);
                (ser_same, if t.hash() == h.hash() { None } else { Some(t.hash().0.to_vec()) })
            };
            let alts: Vec<String> = alt_plan(rng, b.len(), &marks, true).into_iter().map(|(k, p)| run_alt(k, p, b, *c, &garbage, &parse, &cmp)).collect();
            (ok(format!("(HdrOk {} {} {} {})", c, opt(rw.as_ref().map(|w| hn(w))), hn(&h.hash().0), boolc(*same))), alts)
        }
    };
    st.alt_reads += alts.len() as u64;
    *st.by_src.entry(100 + src).or_default() += 1;
    case(format!("Hdr {} {} {} {}", src, hn(b), out, list(alts)));
}

// ---- CompactSize of the in-tree crate (0.5.0), bounded and unbounded ---------------------------
fn emit_cs(b: &[u8]) {
    for which in 0..2u64 {
        let o = catch(|| {
            let mut cur = Cursor::new(b);
            let r = if which == 0 {
                zcash_encoding::CompactSize::read(&mut cur)
            } else {
                zcash_encoding::CompactSize::read_unbounded(&mut cur)
            };
            r.map(|v| (v, cur.position())).map_err(|_| ())
        });
        let out = match o {
            None => PANIC.to_string(),
            Some(Err(())) => err("tt"),
            Some(Ok((v, c))) => ok(pair(format!("{}", v), format!("{}", c))),
        };
        case(format!("CsRead {} {} {}", which, hn(b), out));
    }
}
fn emit_csw(n: u64) {
    for which in 0..2u64 {
        let o = catch(|| {
            let mut w = vec![];
            let r = if which == 0 {
                zcash_encoding::CompactSize::write(&mut w, n as usize)
            } else {
                zcash_encoding::CompactSize::write_unbounded(&mut w, n)
            };
            r.map(|_| w).map_err(|_| ())
        });
        let out = match o {
            None => PANIC.to_string(),
            Some(Err(())) => err("tt"),
            Some(Ok(w)) => ok(hn(&w)),
        };
        case(format!("CsWrite {} {} {}", which, n, out));
    }
}

fn emit_vec_opt(b: &[u8]) {
    use std::io::Read;
    let o = catch(|| {
        let mut cur = Cursor::new(b);
        zcash_encoding::Vector::read(&mut cur, |r| {
            let mut x = [0u8; 1];
            r.read_exact(&mut x).map(|_| x[0])
        })
        .map(|v: Vec<u8>| (v, cur.position()))
        .map_err(|_| ())
    });
    let out = match o {
        None => PANIC.to_string(),
        Some(Err(())) => err("tt"),
        Some(Ok((v, c))) => ok(pair(hn(&v), format!("{}", c))),
    };
    case(format!("VecU8 {} {}", hn(b), out));
    let o = catch(|| {
        let mut cur = Cursor::new(b);
        zcash_encoding::Optional::read(&mut cur, |r| {
            let mut x = [0u8; 4];
            r.read_exact(&mut x).map(|_| u32::from_le_bytes(x))
        })
        .map(|v| (v, cur.position()))
        .map_err(|_| ())
    });
    let out = match o {
        None => PANIC.to_string(),
        Some(Err(())) => err("tt"),
        Some(Ok((v, c))) => ok(pair(opt(v.map(|x| format!("{}", x))), format!("{}", c))),
    };
    case(format!("OptU32 {} {}", hn(b), out));
}

/// `CompactSize::read_t::<T>` of the in-tree crate for every integer width.
fn emit_read_t(b: &[u8]) {
    fn one<T: TryFrom<u64> + Into<u128>>(b: &[u8]) -> Option<Result<(u128, u64), ()>> {
        catch(|| {
            let mut cur = Cursor::new(b);
            zcash_encoding::CompactSize::read_t::<_, T>(&mut cur).map(|v| (v.into(), cur.position())).map_err(|_| ())
        })
    }
    let usz = catch(|| {
        let mut cur = Cursor::new(b);
        zcash_encoding::CompactSize::read_t::<_, usize>(&mut cur).map(|v| (v as u128, cur.position())).map_err(|_| ())
    });
    for (w, o) in [(8u64, one::<u8>(b)), (16, one::<u16>(b)), (32, one::<u32>(b)), (64, one::<u64>(b)), (0, usz)] {
        let out = match o {
            None => PANIC.to_string(),
            Some(Err(())) => err("tt"),
            Some(Ok((v, c))) => ok(pair(format!("{}", v), format!("{}", c))),
        };
        case(format!("ReadT {} {} {}", w, hn(b), out));
    }
}

/// A reader delivering `data` and then `fill` zero bytes, counting what it handed out.
struct Filled<'a> {
    data: &'a [u8],
    fill: u64,
    given: u64,
}
impl<'a> std::io::Read for Filled<'a> {
    fn read(&mut self, buf: &mut [u8]) -> std::io::Result<usize> {
        let n = if !self.data.is_empty() {
            let n = buf.len().min(self.data.len());
            buf[..n].copy_from_slice(&self.data[..n]);
            self.data = &self.data[n..];
            n
        } else {
            let n = (buf.len() as u64).min(self.fill) as usize;
            buf[..n].iter_mut().for_each(|x| *x = 0);
            self.fill -= n as u64;
            n
        };
        self.given += n as u64;
        Ok(n)
    }
}

/// The counted-vector readers of the in-tree crate over `data ++ 0^fill`: number of elements on
/// success, bytes taken from the reader in both outcomes.
fn emit_vec_fill(data: &[u8], fill: u64) {
    use std::io::Read;
    fn el(r: &mut &mut Filled) -> std::io::Result<u8> {
        let mut x = [0u8; 1];
        r.read_exact(&mut x).map(|_| x[0])
    }
    for api in 0..3u64 {
        let mut given = 0u64;
        let o = catch(|| {
            let mut rd = Filled { data, fill, given: 0 };
            let r: std::io::Result<Vec<u8>> = match api {
                0 => zcash_encoding::Vector::read(&mut rd, el),
                1 => zcash_encoding::Vector::read_collected(&mut rd, el),
                _ => zcash_encoding::Vector::read_collected_mut(&mut rd, el),
            };
            (r.map(|v| v.len()).map_err(|_| ()), rd.given)
        });
        let out = match o {
            None => PANIC.to_string(),
            Some((Err(()), g)) => format!("(Err {})", g),
            Some((Ok(n), g)) => {
                given = g;
                ok(pair(format!("{}", n), format!("{}", g)))
            }
        };
        let _ = given;
        case(format!("VecFill {} {} {} {}", api, hn(data), fill, out));
    }
}
fn emit_arr_fill(count: u64, data: &[u8], fill: u64) {
    use std::io::Read;
    let o = catch(|| {
        let mut rd = Filled { data, fill, given: 0 };
        let r: std::io::Result<Vec<u8>> = zcash_encoding::Array::read(&mut rd, count as usize, |r| {
            let mut x = [0u8; 1];
            r.read_exact(&mut x).map(|_| x[0])
        });
        (r.map(|v| v.len()).map_err(|_| ()), rd.given)
    });
    let out = match o {
        None => PANIC.to_string(),
        Some((Err(()), g)) => format!("(Err {})", g),
        Some((Ok(n), g)) => ok(pair(format!("{}", n), format!("{}", g))),
    };
    case(format!("ArrFill {} {} {} {}", count, hn(data), fill, out));
}

// ---- generation -------------------------------------------------------------------------------
fn runner(rng: &mut Rng) -> TestRunner {
    let seed: [u8; 32] = rng.bytes(32).try_into().unwrap();
    TestRunner::new_with_rng(Config::default(), TestRng::from_seed(RngAlgorithm::ChaCha, &seed))
}
fn sample<S: Strategy>(r: &mut TestRunner, s: S) -> S::Value {
    s.new_tree(r).unwrap().current()
}

fn versions_for(branch: BranchId, rng: &mut Rng) -> Vec<TxVersion> {
    let mut all = vec![
        TxVersion::Sprout(1),
        TxVersion::Sprout(2),
        TxVersion::Sprout(*rng.pick(&[3u32, 4, 0x7fff_ffff, 77])),
        TxVersion::V3,
        TxVersion::V4,
        TxVersion::V5,
        TxVersion::V6,
    ];
    all.retain(|v| v.valid_in_branch(branch));
    all
}

type SapBundle = sapling::Bundle<sapling::bundle::Authorized, ZatBalance>;
type OrchBundle = orchard::Bundle<orchard::bundle::Authorized, ZatBalance>;

/// A Sapling bundle with at most `ks` spends and `ko` outputs; in the v5 layout all spends share
/// the first anchor (the wire format carries a single anchor).
fn small_sapling(r: &mut TestRunner, ks: usize, ko: usize, shared_anchor: bool) -> Option<SapBundle> {
    for _ in 0..40 {
        let b = sample(r, zcash_primitives::transaction::components::sapling::testing::arb_bundle());
        if let Some(b) = b {
            if b.shielded_spends().len() < ks || b.shielded_outputs().len() < ko {
                continue;
            }
            let mut spends: Vec<_> = b.shielded_spends()[..ks].to_vec();
            if shared_anchor && !spends.is_empty() {
                let a = *spends[0].anchor();
                spends = spends
                    .iter()
                    .map(|s| {
                        sapling::bundle::SpendDescription::from_parts(
                            s.cv().clone(),
                            a,
                            *s.nullifier(),
                            *s.rk(),
                            *s.zkproof(),
                            *s.spend_auth_sig(),
                        )
                    })
                    .collect();
            }
            let outs: Vec<_> = b.shielded_outputs()[..ko].to_vec();
            return sapling::Bundle::from_parts(spends, outs, *b.value_balance(), b.authorization().clone());
        }
    }
    None
}

fn small_orchard(r: &mut TestRunner, rng: &mut Rng, n: usize, bv: orchard::bundle::BundleVersion, flag_byte: u8, short_proof: bool) -> Option<OrchBundle> {
    let b = sample(r, orch_ser::testing::arb_bundle(n));
    let flags = orchard::bundle::Flags::from_byte(flag_byte, bv)?;
    let auth = if short_proof {
        let len = *rng.pick(&[0usize, 1, 7, 252, 253, 300]);
        orchard::bundle::Authorized::from_parts(orchard::Proof::new(rng.bytes(len)), b.authorization().binding_signature().clone())
    } else {
        b.authorization().clone()
    };
    orchard::Bundle::try_from_parts(b.actions().clone(), flags, *b.value_balance(), *b.anchor(), auth, bv).ok()
}

fn random_script(rng: &mut Rng, len: usize) -> Script {
    Script(zcash_script::script::Code(rng.bytes(len)))
}

fn small_transparent(rng: &mut Rng, nin: usize, nout: usize, script_len: &[usize]) -> Option<tb::Bundle<tb::Authorized>> {
    if nin == 0 && nout == 0 {
        return None;
    }
    let vin = (0..nin)
        .map(|_| {
            let h: [u8; 32] = rng.bytes(32).try_into().unwrap();
            let l = *rng.pick(script_len);
            TxIn::from_parts(OutPoint::new(h, rng.u64() as u32), random_script(rng, l), rng.u64() as u32)
        })
        .collect();
    let vout = (0..nout)
        .map(|_| {
            let v = *rng.pick(&[0u64, 1, MAX_MONEY, MAX_MONEY - 1, 50_000]);
            let v = if rng.chance(1, 2) { v } else { rng.below(MAX_MONEY + 1) };
            let l = *rng.pick(script_len);
            TxOut::new(Zatoshis::from_u64(v).unwrap(), random_script(rng, l))
        })
        .collect();
    Some(tb::Bundle { vin, vout, authorization: tb::Authorized })
}

fn random_sprout(rng: &mut Rng, n: usize, groth: bool) -> Option<sprout::Bundle> {
    if n == 0 {
        return None;
    }
    let jss = (0..n)
        .map(|_| {
            let len = 8 + 8 + 32 * 9 + if groth { 192 } else { 296 } + 1202;
            let mut b = rng.bytes(len);
            let a = *rng.pick(&[0u64, 1, MAX_MONEY, 12345]);
            let c = *rng.pick(&[0u64, 7, MAX_MONEY]);
            b[..8].copy_from_slice(&a.to_le_bytes());
            b[8..16].copy_from_slice(&c.to_le_bytes());
            sprout::JsDescription::read(&b[..], groth).unwrap()
        })
        .collect();
    Some(sprout::Bundle {
        joinsplits: jss,
        joinsplit_pubkey: rng.bytes(32).try_into().unwrap(),
        joinsplit_sig: rng.bytes(64).try_into().unwrap(),
    })
}

struct Shape {
    nin: usize,
    nout: usize,
    ks: usize,
    ko: usize,
    sap: bool,
    njs: usize,
    norch: usize,
    niron: usize,
    short_proof: bool,
}

fn build_tx(rng: &mut Rng, r: &mut TestRunner, branch: BranchId, v: TxVersion, sh: &Shape, script_len: &[usize]) -> Option<Transaction> {
    let lock = *rng.pick(&[0u32, 1, 499_999_999, 500_000_000, u32::MAX]);
    let lock = if rng.chance(1, 2) { lock } else { rng.u64() as u32 };
    let expiry: u32 = if v.has_overwinter() { *rng.pick(&[0u32, 1, 499_999_999, u32::MAX, 2_000_000]) } else { 0 };
    let transparent = small_transparent(rng, sh.nin, sh.nout, script_len);
    let sapling = if v.has_sapling() && sh.sap {
        small_sapling(r, sh.ks, sh.ko, matches!(v, TxVersion::V5 | TxVersion::V6))
    } else {
        None
    };
    let sprout_b = if v.has_sprout() { random_sprout(rng, sh.njs, v.has_sapling()) } else { None };
    let orch = |rng: &mut Rng, r: &mut TestRunner, n: usize, pool: orchard::ValuePool| -> Option<OrchBundle> {
        if n == 0 {
            return None;
        }
        let bv = orch_ser::bundle_version_for_branch(branch, pool)?;
        let insecure = bv == orchard::bundle::BundleVersion::orchard_insecure_v1();
        let fb = if pool == orchard::ValuePool::Ironwood { *rng.pick(&[0u8, 1, 2, 3, 4, 5, 6, 7]) } else { *rng.pick(&[0u8, 1, 2, 3]) };
        small_orchard(r, rng, n, bv, fb, insecure && sh.short_proof)
    };
    let data: TransactionData<Authorized> = match v {
        TxVersion::V6 => {
            let o = orch(rng, r, sh.norch, orchard::ValuePool::Orchard);
            let i = orch(rng, r, sh.niron, orchard::ValuePool::Ironwood);
            TransactionData::from_parts_v6(branch, lock, BlockHeight::from_u32(expiry), transparent, sapling, o, i)
        }
        TxVersion::V5 => {
            let o = orch(rng, r, sh.norch, orchard::ValuePool::Orchard);
            TransactionData::from_parts(v, branch, lock, BlockHeight::from_u32(expiry), transparent, None, sapling, o)
        }
        _ => TransactionData::from_parts(v, branch, lock, BlockHeight::from_u32(expiry), transparent, sprout_b, sapling, None),
    };
    data.freeze().ok()
}

fn ser(tx: &Transaction) -> Vec<u8> {
    let mut w = vec![];
    tx.write(&mut w).expect("generated transaction serialises");
    w
}

fn cs_bytes(n: u64) -> Vec<u8> {
    let mut w = vec![];
    zcash_encoding::CompactSize::write_unbounded(&mut w, n).unwrap();
    w
}
fn noncanon(n: u64, form: u8) -> Vec<u8> {
    match form {
        0 => {
            let mut v = vec![253];
            v.extend_from_slice(&(n as u16).to_le_bytes());
            v
        }
        1 => {
            let mut v = vec![254];
            v.extend_from_slice(&(n as u32).to_le_bytes());
            v
        }
        _ => {
            let mut v = vec![255];
            v.extend_from_slice(&n.to_le_bytes());
            v
        }
    }
}

/// All mutants of one valid encoding.
fn mutate(st: &mut Stats, rng: &mut Rng, b: &[u8], branch: BranchId, budget: usize, is_hdr: bool) {
    let marks = if is_hdr {
        let mut m = vec![(0, MK::Hdr), (4, MK::Field), (36, MK::Field), (68, MK::Field), (100, MK::Field), (104, MK::Field), (108, MK::Field)];
        if b.len() > 140 {
            m.push((140, MK::Count));
        }
        m
    } else {
        let mut w = Walk::new(b);
        w.tx();
        w.marks
    };
    let emit = |st: &mut Stats, rng: &mut Rng, src: u64, x: &[u8]| {
        if is_hdr {
            emit_hdr(st, rng, src, x)
        } else {
            emit_tx(st, rng, src, x, branch, None)
        }
    };
    let splice = |p: usize, n: usize, with: &[u8]| -> Vec<u8> {
        let mut v = b[..p].to_vec();
        v.extend_from_slice(with);
        v.extend_from_slice(&b[(p + n).min(b.len())..]);
        v
    };
    for _ in 0..budget {
        match rng.below(20) {
            0..=4 => {
                // truncation: at a field boundary (or next to one), or anywhere
                let p = if !marks.is_empty() && rng.chance(3, 4) {
                    let m = marks[rng.below(marks.len() as u64) as usize].0;
                    (m + rng.below(3) as usize).saturating_sub(1)
                } else {
                    rng.below(b.len() as u64) as usize
                };
                let p = if rng.chance(1, 6) { b.len() - 1 - rng.below(3.min(b.len() as u64 - 1)) as usize } else { p };
                emit(st, rng, S_TRUNC, &b[..p.min(b.len() - 1)]);
            }
            5 | 6 => {
                let mut v = b.to_vec();
                let extra = rng.range(1, 9) as usize;
                v.extend(rng.bytes(extra));
                emit(st, rng, S_EXT, &v);
            }
            7..=10 => {
                // single-byte mutation, biased to the first byte of a field
                let p = if !marks.is_empty() && rng.chance(2, 3) {
                    let (m, k) = marks[rng.below(marks.len() as u64) as usize];
                    match k {
                        MK::Blob(_) => m + rng.below(32) as usize,
                        _ => m + rng.below(2) as usize,
                    }
                } else {
                    rng.below(b.len() as u64) as usize
                }
                .min(b.len() - 1);
                let mut v = b.to_vec();
                v[p] = if rng.bool() { v[p] ^ (1 << rng.below(8)) } else { rng.u64() as u8 };
                if v[p] == b[p] {
                    v[p] ^= 0x80;
                }
                emit(st, rng, S_FLIP, &v);
            }
            11 | 12 => {
                // blob corruption: high bits / all-ones / zero / small-order encodings
                let blobs: Vec<usize> = marks.iter().filter(|(_, k)| matches!(k, MK::Blob(_))).map(|(p, _)| *p).collect();
                if blobs.is_empty() || is_hdr {
                    continue;
                }
                let p = blobs[rng.below(blobs.len() as u64) as usize];
                let with: Vec<u8> = match rng.below(5) {
                    0 => vec![0xff; 32],
                    1 => vec![0; 32],
                    2 => {
                        let mut x = vec![0; 32];
                        x[0] = 1;
                        x
                    }
                    3 => {
                        let mut x = b[p..p + 32].to_vec();
                        x[31] |= 0x80;
                        x
                    }
                    _ => rng.bytes(32),
                };
                emit(st, rng, S_BLOB, &splice(p, 32, &with));
            }
            13 | 14 => {
                let counts: Vec<usize> = marks.iter().filter(|(_, k)| *k == MK::Count).map(|(p, _)| *p).collect();
                if counts.is_empty() {
                    continue;
                }
                let p = counts[rng.below(counts.len() as u64) as usize];
                let (cur, w) = match b[p] {
                    253 => (u16::from_le_bytes(b[p + 1..p + 3].try_into().unwrap()) as u64, 3),
                    254 => (u32::from_le_bytes(b[p + 1..p + 5].try_into().unwrap()) as u64, 5),
                    255 => (u64::from_le_bytes(b[p + 1..p + 9].try_into().unwrap()), 9),
                    x => (x as u64, 1),
                };
                let n = *rng.pick(&[cur + 1, cur.saturating_sub(1), 0, 1, 252, 253, 65535, 65536, 0x0200_0000, 0x0200_0001, u32::MAX as u64, 1 << 32, u64::MAX]);
                if n == cur {
                    continue;
                }
                emit(st, rng, S_COUNT, &splice(p, w, &cs_bytes(n)));
            }
            15 | 16 => {
                let counts: Vec<usize> = marks.iter().filter(|(_, k)| *k == MK::Count).map(|(p, _)| *p).collect();
                if counts.is_empty() {
                    continue;
                }
                let p = counts[rng.below(counts.len() as u64) as usize];
                let (cur, w) = match b[p] {
                    253 => (u16::from_le_bytes(b[p + 1..p + 3].try_into().unwrap()) as u64, 3),
                    254 => (u32::from_le_bytes(b[p + 1..p + 5].try_into().unwrap()) as u64, 5),
                    255 => (u64::from_le_bytes(b[p + 1..p + 9].try_into().unwrap()), 9),
                    x => (x as u64, 1),
                };
                // same value, longer form
                let min_form = match w {
                    1 => 0,
                    3 => 1,
                    5 => 2,
                    _ => continue,
                };
                let form = rng.range(min_form, 2) as u8;
                emit(st, rng, S_NONCANON, &splice(p, w, &noncanon(cur, form)));
            }
            17 | 18 => {
                let amts: Vec<(usize, MK)> = marks.iter().filter(|(_, k)| matches!(k, MK::AmtU | MK::AmtS)).cloned().collect();
                if amts.is_empty() {
                    continue;
                }
                let (p, k) = amts[rng.below(amts.len() as u64) as usize];
                let m = MAX_MONEY as i64;
                let v: i64 = *rng.pick(&[m + 1, -m - 1, i64::MIN, i64::MAX, -1, -m, m, 0, 1 << 62, m + 2, -m + 1]);
                let in_range = if k == MK::AmtU { (0..=m).contains(&v) } else { (-m..=m).contains(&v) };
                emit(st, rng, if in_range { S_AMOUNT_OK } else { S_AMOUNT }, &splice(p, 8, &v.to_le_bytes()));
            }
            _ => {
                let hs: Vec<(usize, MK)> = marks.iter().filter(|(_, k)| matches!(k, MK::Hdr | MK::Branch | MK::Flags)).cloned().collect();
                if hs.is_empty() {
                    continue;
                }
                let (p, k) = hs[rng.below(hs.len() as u64) as usize];
                let with: Vec<u8> = match k {
                    MK::Flags => vec![*rng.pick(&[0u8, 1, 2, 3, 4, 5, 6, 7, 8, 16, 0x80, 0xff])],
                    MK::Branch => {
                        let ids: Vec<u32> = BRANCHES.iter().map(|x| u32::from(*x)).chain([1u32, 0xffff_ffff, 0x37a5_165c]).collect();
                        rng.pick(&ids).to_le_bytes().to_vec()
                    }
                    _ => rng
                        .pick(&[
                            0u32, 1, 2, 3, 0x7fff_ffff, 0x8000_0000, 0x8000_0001, 0x8000_0003, 0x8000_0004, 0x8000_0005, 0x8000_0006, 0x8000_0007,
                            0x03C4_8270, 0x892F_2085, 0x26A7_270A, 0xD884_B698, 0xffff_ffff,
                        ])
                        .to_le_bytes()
                        .to_vec(),
                };
                let n = with.len();
                emit(st, rng, S_HDRFIELD, &splice(p, n, &with));
            }
        }
    }
}

fn header_bytes(rng: &mut Rng, sol_len: usize) -> Vec<u8> {
    let mut b = vec![];
    b.extend_from_slice(&(*rng.pick(&[4i32, 1, -1, i32::MIN, i32::MAX, 0])).to_le_bytes());
    b.extend(rng.bytes(32 * 3));
    b.extend_from_slice(&(rng.u64() as u32).to_le_bytes());
    b.extend_from_slice(&(rng.u64() as u32).to_le_bytes());
    b.extend(rng.bytes(32));
    b.extend(cs_bytes(sol_len as u64));
    b.extend(rng.bytes(sol_len));
    b
}

fn main() {
    quiet_panics();
    let a = args();
    let mut rng = Rng::new(a.seed, 3);
    let mut r = runner(&mut rng);
    let mut st = Stats { by_src: BTreeMap::new(), by_outcome: BTreeMap::new(), by_version: BTreeMap::new(), size_hist: BTreeMap::new(), bad_tables: 0, rust_only: 0, alt_reads: 0, max_case_bytes: 0 };
    let per_branch = a.budget(4, 12);
    let mut_budget = a.budget(22, 36);
    let std_scripts = [0usize, 1, 25, 35, 107];

    // (1) own compositions for every branch x admissible version
    // the crate's own strategy arb_tx (up to 30 spends / 30 outputs / 100 actions per bundle) is
    // sampled n_arb times per branch and interleaved with the small compositions
    let n_arb = a.budget(2, 4);
    let arb_cap = a.budget(400_000, 2_000_000);
    for &branch in BRANCHES.iter() {
        for _ in 0..n_arb {
            let tx = sample(&mut r, zcash_primitives::transaction::testing::arb_tx(branch));
            // arb_tx gives v5 spends individual anchors although the format carries one; such a
            // value is not a well-formed v5 transaction, so it is not compared with its parse
            let b = ser(&tx);
            if b.len() <= arb_cap {
                emit_tx(&mut st, &mut rng, S_GEN, &b, branch, None);
            } else {
                st.rust_only += 1;
            }
        }
        for v in versions_for(branch, &mut rng) {
            for i in 0..per_branch {
                let sh = Shape {
                    nin: rng.below(3) as usize,
                    nout: rng.below(3) as usize,
                    ks: rng.below(3) as usize,
                    ko: rng.below(2) as usize,
                    sap: i % 2 == 0,
                    njs: if i % 3 == 1 { rng.range(1, 2) as usize } else { 0 },
                    norch: if i % 4 >= 2 { 1 + (i % 2) } else { 0 },
                    niron: if i % 4 == 1 || i % 4 == 2 { 1 } else { 0 },
                    short_proof: true,
                };
                if let Some(tx) = build_tx(&mut rng, &mut r, branch, v, &sh, &std_scripts) {
                    let b = ser(&tx);
                    let fp = fingerprint(&tx);
                    // the branch handed to the reader is irrelevant for v5+, stored for v1-v4
                    emit_tx(&mut st, &mut rng, S_GEN, &b, branch, Some(&fp));
                    let div = if b.len() > 6000 { 8 } else if b.len() > 2500 { 3 } else { 1 };
                    mutate(&mut st, &mut rng, &b, branch, mut_budget / div, false);
                }
            }
        }
    }

    // (3) forced edge shapes
    {
        let branch = BranchId::Nu5;
        // empty transaction of every version
        for &(br, v) in &[
            (BranchId::Sprout, TxVersion::Sprout(1)),
            (BranchId::Sprout, TxVersion::Sprout(2)),
            (BranchId::Overwinter, TxVersion::V3),
            (BranchId::Canopy, TxVersion::V4),
            (BranchId::Nu5, TxVersion::V5),
            (BranchId::Nu6_3, TxVersion::V6),
        ] {
            let sh = Shape { nin: 0, nout: 0, ks: 0, ko: 0, sap: false, njs: 0, norch: 0, niron: 0, short_proof: true };
            let tx = build_tx(&mut rng, &mut r, br, v, &sh, &std_scripts).unwrap();
            let b = ser(&tx);
            emit_tx(&mut st, &mut rng, S_EDGE, &b, br, Some(&fingerprint(&tx)));
            mutate(&mut st, &mut rng, &b, br, mut_budget, false);
        }
        // C03-F1 regression: v4, no Sapling spends/outputs, valueBalanceSapling != 0 must be rejected
        {
            let w = hex_to_vec("0400008085202f89000200912acf997f010000000000000000000001c442b1ba47010000000040075af0750700000000");
            emit_tx(&mut st, &mut rng, S_V4_VB, &w, BranchId::Canopy, None);
            for nout in 0..3usize {
                let sh = Shape { nin: nout % 2, nout, ks: 0, ko: 0, sap: false, njs: nout % 2, norch: 0, niron: 0, short_proof: true };
                let tx = build_tx(&mut rng, &mut r, BranchId::Canopy, TxVersion::V4, &sh, &std_scripts).unwrap();
                let b = ser(&tx);
                let mut wk = Walk::new(&b);
                wk.tx();
                let p = wk.marks.iter().find(|(_, k)| *k == MK::AmtS).map(|(p, _)| *p).unwrap();
                for v in [1i64, -1, MAX_MONEY as i64, -(MAX_MONEY as i64), 0x0100] {
                    let mut x = b.clone();
                    x[p..p + 8].copy_from_slice(&v.to_le_bytes());
                    emit_tx(&mut st, &mut rng, S_V4_VB, &x, BranchId::Canopy, None);
                }
            }
        }
        // CompactSize boundaries on script lengths and on element counts
        let mut lens = vec![252usize, 253, 254, 255, 256];
        if a.thorough() || a.search {
            lens.extend([65535, 65536, 65537]);
        }
        for &l in &lens {
            let sh = Shape { nin: 1, nout: 1, ks: 0, ko: 0, sap: false, njs: 0, norch: 0, niron: 0, short_proof: true };
            let tx = build_tx(&mut rng, &mut r, branch, TxVersion::V5, &sh, &[l]).unwrap();
            let b = ser(&tx);
            emit_tx(&mut st, &mut rng, S_EDGE, &b, branch, Some(&fingerprint(&tx)));
            mutate(&mut st, &mut rng, &b, branch, if l > 4000 { 3 } else { 8 }, false);
        }
        let mut counts = vec![(252usize, 0usize), (253, 0), (0, 252), (0, 253), (0, 254)];
        if a.thorough() || a.search {
            counts.extend([(0, 65535), (0, 65536)]);
        }
        for &(nin, nout) in &counts {
            let sh = Shape { nin, nout, ks: 0, ko: 0, sap: false, njs: 0, norch: 0, niron: 0, short_proof: true };
            let tx = build_tx(&mut rng, &mut r, BranchId::Canopy, TxVersion::V4, &sh, &[0]).unwrap();
            let b = ser(&tx);
            emit_tx(&mut st, &mut rng, S_EDGE, &b, BranchId::Canopy, Some(&fingerprint(&tx)));
            mutate(&mut st, &mut rng, &b, BranchId::Canopy, if nin + nout > 4000 { 2 } else { 6 }, false);
        }
        // Sapling shapes: spends only / outputs only / both, v4 and v5; Orchard with canonical
        // proof sizes (NU6.2, NU6.3) and all flag bytes; Ironwood with the cross-address bit
        for &(br, v) in &[(BranchId::Canopy, TxVersion::V4), (BranchId::Nu6_2, TxVersion::V5), (BranchId::Nu6_3, TxVersion::V6)] {
            for &(ks, ko) in &[(1usize, 0usize), (0, 1), (2, 1)] {
                let sh = Shape { nin: 0, nout: 0, ks, ko, sap: true, njs: 0, norch: 0, niron: 0, short_proof: false };
                if let Some(tx) = build_tx(&mut rng, &mut r, br, v, &sh, &std_scripts) {
                    let b = ser(&tx);
                    emit_tx(&mut st, &mut rng, S_EDGE, &b, br, Some(&fingerprint(&tx)));
                    mutate(&mut st, &mut rng, &b, br, mut_budget, false);
                }
            }
        }
        for &(br, v, no, ni) in &[
            (BranchId::Nu5, TxVersion::V5, 1usize, 0usize),
            (BranchId::Nu6_2, TxVersion::V5, 1, 0),
            (BranchId::Nu6_3, TxVersion::V5, 1, 0),
            (BranchId::Nu6_3, TxVersion::V6, 1, 0),
            (BranchId::Nu6_3, TxVersion::V6, 0, 1),
            (BranchId::Nu6_3, TxVersion::V6, 1, 1),
        ] {
            for _ in 0..2 {
                let sh = Shape { nin: 0, nout: 1, ks: 0, ko: 0, sap: false, njs: 0, norch: no, niron: ni, short_proof: false };
                if let Some(tx) = build_tx(&mut rng, &mut r, br, v, &sh, &std_scripts) {
                    let b = ser(&tx);
                    emit_tx(&mut st, &mut rng, S_EDGE, &b, br, Some(&fingerprint(&tx)));
                    mutate(&mut st, &mut rng, &b, br, mut_budget / 5, false);
                }
            }
        }
        // an Orchard bundle under a branch id without Orchard, a v6 transaction under pre-NU6.3
        // branch ids: produced by rewriting the branch id of valid encodings (S_HDRFIELD above)
    }

    // (4) random byte strings with plausible headers
    for _ in 0..a.budget(150, 1500) {
        let rl = rng.range(0, 80) as usize;
        let mut b = rng.bytes(rl);
        if b.len() >= 8 && rng.chance(3, 4) {
            let (h, g): (u32, u32) = *rng.pick(&[(1, 0), (2, 0), (0x8000_0003, 0x03C4_8270), (0x8000_0004, 0x892F_2085), (0x8000_0005, 0x26A7_270A), (0x8000_0006, 0xD884_B698)]);
            b[..4].copy_from_slice(&h.to_le_bytes());
            if h >> 31 == 1 {
                b[4..8].copy_from_slice(&g.to_le_bytes());
            }
            if b.len() >= 12 && h & 0xf >= 5 {
                let br = *rng.pick(&BRANCHES);
                b[8..12].copy_from_slice(&u32::from(br).to_le_bytes());
            }
        }
        emit_tx(&mut st, &mut rng, S_RANDOM, &b, BranchId::Nu5, None);
    }

    // (5) block headers
    let mut sols = vec![0usize, 1, 36, 252, 253, 400, 1344];
    if a.thorough() || a.search {
        sols.extend([65535, 65536]);
    }
    for &l in &sols {
        let big = l > 4000;
        for _ in 0..(if big { 1 } else { a.budget(2, 5) }) {
            let b = header_bytes(&mut rng, l);
            emit_hdr(&mut st, &mut rng, S_GEN, &b);
            mutate(&mut st, &mut rng, &b, BranchId::Nu5, if big { 5 } else { a.budget(14, 30) }, true);
        }
    }

    // (6) CompactSize of the in-tree crate: boundary lattice + random
    let lattice: Vec<u64> = vec![
        0, 1, 252, 253, 254, 255, 256, 0xfffe, 0xffff, 0x10000, 0x10001, 0x01ff_ffff, 0x0200_0000, 0x0200_0001, 0xffff_fffe, 0xffff_ffff, 0x1_0000_0000,
        0x1_0000_0001, u64::MAX - 1, u64::MAX,
    ];
    for &n in &lattice {
        emit_csw(n);
        emit_cs(&cs_bytes(n));
        for form in 0..3u8 {
            let x = noncanon(n, form);
            emit_cs(&x);
            emit_cs(&x[..x.len() - 1]);
        }
    }
    emit_cs(&[]);
    emit_vec_opt(&[]);
    for n in [0usize, 1, 2, 252, 253, 254, 300] {
        for delta in [-1i64, 0, 1] {
            let mut x = cs_bytes(n as u64);
            x.extend(rng.bytes((n as i64 + delta).max(0) as usize));
            emit_vec_opt(&x);
        }
        for form in 0..3u8 {
            let mut x = noncanon(n as u64, form);
            x.extend(rng.bytes(n));
            emit_vec_opt(&x);
        }
    }
    for f in [0u8, 1, 2, 255] {
        for l in 0..6usize {
            let mut x = vec![f];
            x.extend(rng.bytes(l));
            emit_vec_opt(&x);
        }
    }
    for _ in 0..a.budget(100, 1000) {
        let l = rng.range(1, 10) as usize;
        let mut b = rng.bytes(l);
        if rng.bool() {
            b[0] = *rng.pick(&[252u8, 253, 254, 255]);
        }
        emit_cs(&b);
        emit_csw(rng.u64() >> rng.below(64));
    }

    // (7) read_t for every integer width on the boundary lattice, canonical / non-canonical /
    // truncated; counted-vector readers with prefixes around and above MAX_COMPACT_SIZE over a
    // short buffer and over a long reader (more zero bytes than the largest admissible vector)
    let bound_lattice: Vec<u64> = vec![0, 1, 252, 253, 254, 255, 256, 0xffff, 0x10000, 0x01ff_ffff, 0x0200_0000, 0x0200_0001, 0xffff_ffff, 1 << 32, u64::MAX];
    for &n in &bound_lattice {
        emit_read_t(&cs_bytes(n));
        for form in 0..3u8 {
            let x = noncanon(n, form);
            emit_read_t(&x);
            emit_read_t(&x[..x.len() - 1]);
        }
    }
    emit_read_t(&[]);
    let long: u64 = 0x0200_0001 + 64;
    for &n in &bound_lattice {
        let p = cs_bytes(n);
        // (a) short buffers: nothing, a few bytes, exactly n bytes (small n), one byte less
        emit_vec_fill(&p, 0);
        let mut x = p.clone();
        x.extend(rng.bytes(3));
        emit_vec_fill(&x, 0);
        if n <= 300 {
            for d in [-1i64, 0, 1] {
                let mut x = p.clone();
                x.extend(rng.bytes((n as i64 + d).max(0) as usize));
                emit_vec_fill(&x, 0);
            }
        }
        emit_vec_fill(&p[..p.len() - 1], 0);
        // (b) a reader that can deliver more than MAX_COMPACT_SIZE + 1 bytes
        if n <= 0x10000 || n >= 0x0200_0000 {
            emit_vec_fill(&p, long);
        }
        emit_vec_fill(&p, 1000);
        emit_arr_fill(n.min(long + 5), &[], 1000);
    }
    for form in 1..3u8 {
        emit_vec_fill(&noncanon(0x0200_0001, form), long);
        emit_vec_fill(&noncanon(5, form), 100);
    }
    emit_arr_fill(0x0200_0001, &[], long);
    emit_arr_fill(0x0200_0001, &[1, 2, 3], 10);
    emit_vec_fill(&[], 0);
    emit_vec_fill(&[], 10);

    flush_cases();
    stat(format!(
        "{{\"by_src\":{:?},\"by_outcome\":{:?},\"accepted_by_version\":{:?},\"size_hist_pow2\":{:?},\"cases_with_invalid_blobs\":{},\"arb_tx_over_size_cap_skipped\":{},\"alternative_reader_parses\":{},\"largest_input_bytes\":{}}}",
        st.by_src.iter().map(|(k, v)| (k.to_string(), *v)).collect::<BTreeMap<_, _>>(),
        st.by_outcome,
        st.by_version,
        st.size_hist.iter().map(|(k, v)| (k.to_string(), *v)).collect::<BTreeMap<_, _>>(),
        st.bad_tables,
        st.rust_only,
        st.alt_reads,
        st.max_case_bytes
    ));
}
