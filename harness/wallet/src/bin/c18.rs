//! C18 harness — a committed migration advances safely and survives persistence.
//!
//! Generates `MigrationState`s (the crate's own proptest strategy, re-keyed; plus an own layered
//! DAG generator) and drives event sequences through the PUBLIC API only:
//! `PoolMigrationWrite::store_proved_transaction`, `MigrationState::{apply_signature, mark_broadcast,
//! mark_mined, truncate_to_height, report_broadcast_failure, record_satisfiability, mark_cancelled,
//! mark_superseded, recompute_status}` and `satisfiability::advance_migration` against a scripted
//! store (oracle tables carried in the case) and a scripted RNG (anchor ages carried in the case).
//!
//! One `C <case>` line per executed call: canonical state before, the event, canonical state
//! after, what the call returned, and — on the persistence stream — whether the state written with
//! `replace_migration` into the real SQLite store reads back equal (`latest_migration`,
//! `get_migration`) and whether the account holds at most one non-terminal migration.
use std::collections::BTreeMap;
use std::convert::Infallible;
use std::num::NonZeroU32;

use proptest::strategy::{Strategy, ValueTree};
use proptest::test_runner::{Config as PtConfig, RngAlgorithm, TestRng, TestRunner};
use rand_core::{CryptoRng, RngCore, SeedableRng};
use vcommon::*;

use zcash_client_backend::data_api::testing::TestBuilder;
use zcash_client_sqlite::pool_migration::orchard_ironwood::PoolMigrations;
use zcash_client_sqlite::testing::db::TestDbFactory;
use zcash_client_sqlite::testing::BlockCache;
use zcash_client_sqlite::util::SystemClock;
use zcash_pool_migration::denomination::DenominationPlan;
use zcash_pool_migration::build::AccountDerivation;
use zcash_pool_migration::engine::{
    rebuild_expired_transfer, rebuild_expired_transfer_unsigned, MigrationBackend, MigrationCrypto,
    MigrationState, MigrationStatus, MigrationTransaction, MigrationTransferId, MigrationTxKind,
    MigrationTxState, PoolMigrationRead, PoolMigrationWrite, ProvedTransaction, RebuildError,
};
use zcash_pool_migration::scheduling::SchedulingParams;
use zcash_pool_migration_memory::{regtest_network, spending_key, CommitMock, MockBackend};
use zcash_pool_migration::preparation::{PrepInput, PrepOutput, PrepTransaction, PreparationPlan};
use zcash_pool_migration::satisfiability::{
    advance_migration, AdvanceConfig, DuenessTargets, ReorgSettleDepth, ReplanThreshold,
    StepSatisfiability, UnsatisfiableCause, UnsatisfiableKind,
};
use zcash_pool_migration::scheduling::AnchorBucketInterval;
use zcash_pool_migration::state::{AdvanceStep, Blocker, NextAction, StepKind};
use zcash_pool_migration::testing::arb_migration_state;
use zcash_primitives::block::BlockHash;
use zcash_protocol::consensus::BlockHeight;
use zcash_protocol::value::Zatoshis;
use zcash_protocol::TxId;

// ---------------------------------------------------------------------------------------------
// canonical txids: the model carries a number, the implementation its 32-byte encoding
// ---------------------------------------------------------------------------------------------
fn txid_of(n: u32) -> TxId {
    let mut b = [0u8; 32];
    b[..4].copy_from_slice(&n.to_le_bytes());
    b[31] = 0xc1;
    TxId::from_bytes(b)
}
fn txid_num(t: &TxId) -> u32 {
    let b: &[u8; 32] = t.as_ref();
    u32::from_le_bytes([b[0], b[1], b[2], b[3]])
}

fn h(x: u32) -> BlockHeight {
    BlockHeight::from_u32(x)
}

// ---------------------------------------------------------------------------------------------
// printers
// ---------------------------------------------------------------------------------------------
fn p_kind(k: MigrationTxKind) -> String {
    match k {
        MigrationTxKind::Preparation { layer, index } => format!("(Prep {} {})", layer, index),
        MigrationTxKind::Transfer { crossing } => format!("(Transfer {})", crossing),
    }
}
fn p_ukind(k: UnsatisfiableKind) -> &'static str {
    match k {
        UnsatisfiableKind::InputsSpent => "KSpent",
        UnsatisfiableKind::InputsInvalidated => "KInvalidated",
        UnsatisfiableKind::AnchorInvalidated => "KAnchor",
        UnsatisfiableKind::Inherited => "KInherited",
        _ => "KUnknown",
    }
}
fn p_status(s: MigrationStatus) -> &'static str {
    match s {
        MigrationStatus::Planning => "Planning",
        MigrationStatus::Committed => "Committed",
        MigrationStatus::InProgress => "InProgress",
        MigrationStatus::Complete => "Complete",
        MigrationStatus::Failed => "Failed",
        MigrationStatus::Superseded => "Superseded",
        MigrationStatus::Cancelled => "Cancelled",
    }
}
fn p_tx(t: &MigrationTransaction) -> String {
    let st = match t.state() {
        MigrationTxState::AwaitingSignature => "AwaitingSig".to_string(),
        MigrationTxState::Signed => "Signed".to_string(),
        MigrationTxState::Proved => "Proved".to_string(),
        MigrationTxState::Broadcast { txid } => {
            assert_eq!(txid, t.txid(), "harness invariant: state txid = row txid");
            "Bcast".to_string()
        }
        MigrationTxState::Mined { txid, height } => {
            assert_eq!(txid, t.txid(), "harness invariant: state txid = row txid");
            format!("(Mined {})", u32::from(height))
        }
    };
    format!(
        "MkTx {} {} {} {} {} {} {} {} {} {}",
        u32::from(t.id()),
        p_kind(t.kind()),
        list(t.depends_on().iter().map(|d| format!("{}", u32::from(*d)))),
        u32::from(t.scheduled_height()),
        u32::from(t.expiry_height()),
        opt(t.anchor_boundary().map(|b| format!("{}", u32::from(b)))),
        txid_num(&t.txid()),
        opt(t.unsatisfiable().map(|(a, k)| format!("({}, {})", u32::from(a), p_ukind(k)))),
        opt(t.broadcast_failure_at().map(|b| format!("{}", u32::from(b)))),
        st
    )
}
fn p_state(s: &MigrationState) -> String {
    format!(
        "(MkSt {} {} {} {} {})",
        p_status(s.status()),
        list(s.transactions().iter().map(p_tx)),
        list(s.crossing_values().iter().map(|z| format!("{}", z.into_u64()))),
        s.replan_threshold().percent(),
        s.anchor_bucket_interval().block_count().get()
    )
}

#[derive(Clone, Debug)]
enum Ans {
    Sat(u32),
    NotYet(u32),
    Unsat(u8, u32), // 0 spent 1 invalidated 2 expired 3 anchor
}
impl Ans {
    fn coq(&self) -> String {
        match self {
            Ans::Sat(a) => format!("(Sat {})", a),
            Ans::NotYet(a) => format!("(NotYet {})", a),
            Ans::Unsat(c, a) => format!(
                "(Unsat {} {})",
                ["CSpent", "CInvalidated", "CExpired", "CAnchor"][*c as usize],
                a
            ),
        }
    }
    fn real(&self) -> StepSatisfiability {
        match self {
            Ans::Sat(a) => StepSatisfiability::Satisfiable { as_of_height: h(*a) },
            Ans::NotYet(a) => StepSatisfiability::NotYetSatisfiable { as_of_height: h(*a) },
            Ans::Unsat(c, a) => StepSatisfiability::Unsatisfiable {
                cause: match c {
                    0 => UnsatisfiableCause::InputsSpent { nullifiers: vec![[7; 32]] },
                    1 => UnsatisfiableCause::InputsInvalidated { anchor: [9; 32] },
                    2 => UnsatisfiableCause::Expired,
                    _ => UnsatisfiableCause::AnchorInvalidated,
                },
                as_of_height: h(*a),
            },
        }
    }
}

fn p_next(n: Option<(BlockHeight, StepKind)>) -> String {
    opt(n.map(|(hh, k)| format!(
        "({}, {})",
        u32::from(hh),
        match k {
            StepKind::Prove => "KProve",
            StepKind::Broadcast => "KBroadcast",
            StepKind::Rebuild => "KRebuild",
            StepKind::Replan => "KReplan",
            StepKind::Reevaluate => "KReevaluate",
            StepKind::Waiting => "KWaiting",
            StepKind::Complete => "KComplete",
        }
    )))
}

fn p_step(s: &AdvanceStep) -> String {
    match s {
        AdvanceStep::Prove { transactions } => format!(
            "(SProve {})",
            list(transactions.iter().map(|t| format!("({}, {})", u32::from(t.id()), p_kind(t.kind()))))
        ),
        AdvanceStep::Broadcast { id } => format!("(SBroadcast {})", u32::from(*id)),
        AdvanceStep::Rebuild { id } => format!("(SRebuild {})", u32::from(*id)),
        AdvanceStep::Replan => "SReplan".into(),
        AdvanceStep::Reevaluate => "SReevaluate".into(),
        AdvanceStep::Waiting => "SWaiting".into(),
        AdvanceStep::Complete => "SComplete".into(),
    }
}

// ---------------------------------------------------------------------------------------------
// scripted store and RNG
// ---------------------------------------------------------------------------------------------
struct Store {
    answers: BTreeMap<u32, Ans>,
    default: Ans,
    mined: BTreeMap<u32, u32>, // txid number -> height
    replaced: usize,
    queries: usize,
}
impl PoolMigrationRead for Store {
    type Error = Infallible;
    fn get_migration(&self) -> Result<Option<MigrationState>, Infallible> {
        Ok(None)
    }
    fn check_step_satisfiability(
        &self,
        tx: &MigrationTransaction,
        _settle: ReorgSettleDepth,
    ) -> Result<StepSatisfiability, Infallible> {
        Ok(self.answers.get(&u32::from(tx.id())).unwrap_or(&self.default).real())
    }
    fn mined_height(&self, txid: TxId) -> Result<Option<BlockHeight>, Infallible> {
        Ok(self.mined.get(&txid_num(&txid)).map(|x| h(*x)))
    }
}
impl PoolMigrationWrite for Store {
    fn replace_migration(&mut self, _state: &MigrationState) -> Result<(), Infallible> {
        self.replaced += 1;
        Ok(())
    }
    fn update_transaction(&mut self, _id: MigrationTransferId, _s: MigrationTxState) -> Result<(), Infallible> {
        Ok(())
    }
    fn store_proved_transaction(
        &mut self,
        state: &mut MigrationState,
        proven: ProvedTransaction,
    ) -> Result<(), Infallible> {
        proven.apply(state);
        self.replace_migration(state)
    }
}

/// The n-th word is `1 << (age_n - 1)`, so `draw_anchor_age` returns `age_n` and consumes one word;
/// past the end of the script every word is 1 (odd: age 1, always accepted by the sampler).
struct ScriptRng {
    ages: Vec<u32>,
    pos: usize,
}
impl RngCore for ScriptRng {
    fn next_u32(&mut self) -> u32 {
        self.next_u64() as u32
    }
    fn next_u64(&mut self) -> u64 {
        let a = if self.pos < self.ages.len() { self.ages[self.pos] } else { 1 };
        self.pos += 1;
        1u64 << (a - 1)
    }
    fn fill_bytes(&mut self, dest: &mut [u8]) {
        for b in dest.iter_mut() {
            *b = self.next_u64() as u8;
        }
    }
    fn try_fill_bytes(&mut self, dest: &mut [u8]) -> Result<(), rand_core::Error> {
        self.fill_bytes(dest);
        Ok(())
    }
}
impl CryptoRng for ScriptRng {}

// ---------------------------------------------------------------------------------------------
// state construction
// ---------------------------------------------------------------------------------------------
#[derive(Clone)]
struct TxSpec {
    id: u32,
    kind: MigrationTxKind,
    deps: Vec<u32>,
    sched: u32,
    expiry: u32,
    anchor: Option<u32>,
    txid: u32,
    unsat: Option<(u32, UnsatisfiableKind)>,
    fail: Option<u32>,
    state: u8, // 0 awaiting 1 signed 2 proved 3 broadcast 4 mined
    mined_h: u32,
    nf: Option<[u8; 32]>,
}
fn build_tx(s: &TxSpec) -> MigrationTransaction {
    let txid = txid_of(s.txid);
    let state = match s.state {
        0 => MigrationTxState::AwaitingSignature,
        1 => MigrationTxState::Signed,
        2 => MigrationTxState::Proved,
        3 => MigrationTxState::Broadcast { txid },
        _ => MigrationTxState::Mined { txid, height: h(s.mined_h) },
    };
    MigrationTransaction::from_parts(
        MigrationTransferId::new(s.id),
        s.kind,
        (0..(3 + s.id % 5)).map(|k| (k as u8).wrapping_mul(37).wrapping_add(s.id as u8)).collect(),
        s.deps.iter().map(|d| MigrationTransferId::new(*d)).collect(),
        h(s.sched),
        h(s.expiry),
        s.anchor.map(h),
        txid,
        state,
        if s.id % 3 == 1 { Some(zcash_pool_migration::engine::MigrationLockOwner::from_bytes([s.id as u8 ^ 0x5a; 32])) } else { None },
        s.unsat.map(|(a, k)| (h(a), k)),
        match s.nf {
            Some(nf) => vec![nf],
            None => (0..(1 + s.id % 2)).map(|k| [(s.id as u8).wrapping_add(k as u8 * 101); 32]).collect(),
        },
        s.fail.map(h),
    )
}
static mut PLAN_LCG: u64 = 0x1234_5678_9abc_def1;
fn build_state(status: MigrationStatus, txs: &[TxSpec], cross: &[u64], thr: u8, ivl: u32) -> MigrationState {
    let z = |v: u64| Zatoshis::const_from_u64(v);
    let den = DenominationPlan::from_stored_parts(
        cross.iter().map(|v| z(*v)).collect(),
        z(15_000),
        if cross.len() % 2 == 1 { Some(z(777)) } else { None },
        z(cross.len() as u64 * 13),
        z(cross.iter().sum::<u64>()),
        z(cross.iter().sum::<u64>()),
    )
    .expect("denomination plan");
    // a small preparation plan, different from state to state (deterministic stream)
    let mut next = || -> u64 {
        unsafe {
            PLAN_LCG = PLAN_LCG.wrapping_mul(6364136223846793005).wrapping_add(1442695040888963407);
            PLAN_LCG >> 33
        }
    };
    let nl = (next() % 4) as usize;
    let mut layers: Vec<Vec<PrepTransaction>> = Vec::new();
    for l in 0..nl {
        let nt = 1 + (next() % 3) as usize;
        let mut lay = Vec::new();
        for _ in 0..nt {
            let ni = (next() % 3) as usize;
            let no = if ni == 0 { 1 + (next() % 2) as usize } else { (next() % 3) as usize };
            let ins = (0..ni)
                .map(|_| {
                    if l == 0 || next() % 2 == 0 {
                        PrepInput::Wallet { index: (next() % 9) as usize, value: z(next() % 100_000) }
                    } else {
                        PrepInput::Prior { layer: (next() % l as u64) as usize, transaction: (next() % 3) as usize, output: (next() % 3) as usize, value: z(next() % 100_000) }
                    }
                })
                .collect();
            let outs = (0..no)
                .map(|_| match next() % 3 {
                    0 => PrepOutput::Funding(z(next() % 100_000)),
                    1 => PrepOutput::Intermediate(z(next() % 100_000)),
                    _ => PrepOutput::Change(z(next() % 100_000)),
                })
                .collect();
            lay.push(PrepTransaction::from_parts(ins, outs));
        }
        layers.push(lay);
    }
    let direct: Vec<(usize, Zatoshis)> = (0..(next() % 3)).map(|_| ((next() % 7) as usize, z(next() % 50_000))).collect();
    MigrationState::from_parts(
        status,
        den,
        PreparationPlan::from_parts(layers, direct),
        txs.iter().map(build_tx).collect(),
        AnchorBucketInterval::custom(NonZeroU32::new(ivl).unwrap()),
        ReplanThreshold::new(thr).unwrap(),
    )
}

const STATUSES: [MigrationStatus; 7] = [
    MigrationStatus::Planning,
    MigrationStatus::Committed,
    MigrationStatus::InProgress,
    MigrationStatus::Complete,
    MigrationStatus::Failed,
    MigrationStatus::Superseded,
    MigrationStatus::Cancelled,
];
const UKINDS: [UnsatisfiableKind; 4] = [
    UnsatisfiableKind::InputsSpent,
    UnsatisfiableKind::InputsInvalidated,
    UnsatisfiableKind::AnchorInvalidated,
    UnsatisfiableKind::Inherited,
];

/// Own generator: a layered dependency DAG around a time window `[base, base+span]`.
fn gen_dag(r: &mut Rng, sorted_ids: bool, rb: Option<&RbCtx>, stats: &mut Stats) -> (MigrationState, u32) {
    let n = if r.chance(1, 12) { 0 } else { r.range(1, 7) as usize };
    let ivl = *r.pick(&[1u32, 4, 10, 36, 144, 144, 300]);
    let base = r.range(200, 2000) as u32;
    let span = *r.pick(&[30u32, 120, 600]);
    let (ncross, cross): (usize, Vec<u64>) = match rb {
        // transfers funded by the rebuild context's wallet notes (funding value = crossing + fee buffer)
        Some(c) => (c.values.len(), c.values.iter().map(|v| v - 15_000).collect()),
        None => {
            let n = r.range(0, 4) as usize;
            (n, (0..n).map(|_| *r.pick(&[0u64, 1, 50_000, 100_000, 1_000_000])).collect())
        }
    };
    let mut ids: Vec<u32> = Vec::new();
    let mut next = r.below(3) as u32;
    for _ in 0..n {
        ids.push(next);
        next += 1 + if r.chance(1, 4) { r.below(5) as u32 } else { 0 };
    }
    let complete_bias = r.chance(1, 6); // mostly-mined migrations
    let mut txs: Vec<TxSpec> = Vec::new();
    for (i, id) in ids.iter().enumerate() {
        let is_transfer = i + 1 == n || r.chance(1, 2);
        let kind = if is_transfer {
            MigrationTxKind::Transfer { crossing: r.below(ncross as u64 + 1) as usize }
        } else {
            MigrationTxKind::Preparation { layer: r.below(3) as usize, index: i }
        };
        let mut deps: Vec<u32> = Vec::new();
        if i > 0 {
            for _ in 0..r.below(3) {
                let d = ids[r.below(i as u64) as usize];
                if !deps.contains(&d) {
                    deps.push(d);
                }
            }
        }
        if r.chance(1, 60) {
            deps.push(next + 5); // dangling
        }
        let deps_all_mined = deps.iter().all(|d| txs.iter().any(|t| t.id == *d && t.state == 4));
        let mut state = if complete_bias {
            *r.pick(&[4u8, 4, 4, 4, 3, 2])
        } else {
            *r.pick(&[0u8, 1, 1, 1, 2, 2, 2, 3, 4, 4])
        };
        if !deps_all_mined && state >= 3 && !r.chance(1, 10) {
            state = *r.pick(&[1u8, 2]);
        }
        let sched = base + r.below(span as u64 + 1) as u32;
        let expiry = if r.chance(1, 3) { 0 } else { sched.saturating_sub(10) + r.below(span as u64 + 40) as u32 };
        let anchor = if is_transfer && !r.chance(1, 10) {
            let a = sched.saturating_sub(r.below(3 * ivl as u64 + 30) as u32);
            Some(a - a % ivl)
        } else if r.chance(1, 25) {
            Some(base)
        } else {
            None
        };
        let unsat = if r.chance(1, 8) { Some((base + r.below(span as u64) as u32, *r.pick(&UKINDS))) } else { None };
        let fail = if state == 2 && r.chance(1, 5) || r.chance(1, 40) {
            Some(base + r.below(span as u64) as u32)
        } else {
            None
        };
        txs.push(TxSpec {
            id: *id,
            kind,
            deps,
            sched,
            expiry,
            anchor,
            txid: if r.chance(1, 30) && i > 0 { txs[0].txid } else { 100 + *id },
            unsat,
            fail,
            state,
            mined_h: base.saturating_sub(20) + r.below(span as u64 + 20) as u32,
            nf: match (&kind, rb) {
                (MigrationTxKind::Transfer { crossing }, Some(c)) if *crossing < c.nfs.len() => Some(c.nfs[*crossing]),
                _ => None,
            },
        });
    }
    if n > 1 && r.chance(1, 4) {
        // reverse the dependency direction: ids are mirrored and the rows reversed, so ids stay
        // ascending while every dependency now points to a LATER row (the kernel's dead-set
        // passes then need more than one sweep over the rows)
        let k = txs.iter().map(|t| t.id).max().unwrap();
        for t in txs.iter_mut() {
            t.id = k - t.id;
            t.txid = 100 + t.id;
            for d in t.deps.iter_mut() {
                if *d <= k {
                    *d = k - *d;
                }
            }
        }
        txs.reverse();
        stats.reversed += 1;
    }
    if !sorted_ids && r.chance(1, 3) && n > 1 {
        // a non-canonical row order (positions differ from id order)
        let k = r.below(n as u64) as usize;
        txs.swap(0, k);
    }
    let status = if n > 0 && txs.iter().all(|t| t.state == 4) && !r.chance(1, 6) {
        MigrationStatus::Complete
    } else if r.chance(1, 12) {
        *r.pick(&STATUSES)
    } else if txs.iter().any(|t| t.state >= 3) {
        MigrationStatus::InProgress
    } else {
        MigrationStatus::Committed
    };
    let thr = *r.pick(&[0u8, 20, 20, 20, 50, 100]);
    stats.dag += 1;
    (build_state(status, &txs, &cross, thr, ivl), base)
}

/// The crate's own strategy, re-keyed: canonical txids, dependencies folded into the id range
/// (some left dangling), heights optionally folded into a small window so events interact.
fn gen_arb(r: &mut Rng, stats: &mut Stats) -> (MigrationState, u32) {
    let seed: [u8; 32] = r.bytes(32).try_into().unwrap();
    let mut runner = TestRunner::new_with_rng(PtConfig::default(), TestRng::from_seed(RngAlgorithm::ChaCha, &seed));
    let s = arb_migration_state().new_tree(&mut runner).expect("strategy").current();
    let n = s.transactions().len() as u32;
    let fold = r.chance(3, 4);
    let base = if fold { 1000 } else { 2_500_000 };
    let fh = |x: BlockHeight| -> u32 {
        let v = u32::from(x);
        if fold { 900 + v % 300 } else { v }
    };
    let ncross = s.crossing_values().len();
    let txs: Vec<TxSpec> = s
        .transactions()
        .iter()
        .map(|t| {
            let id = u32::from(t.id());
            let kind = match t.kind() {
                MigrationTxKind::Transfer { crossing } => MigrationTxKind::Transfer { crossing: crossing % (ncross + 1) },
                k => k,
            };
            let mut deps: Vec<u32> = Vec::new();
            for d in t.depends_on() {
                let d = u32::from(*d) % (n + 1);
                // keep the graph acyclic except for an occasional self/forward edge
                let d = if d >= id && !(u32::from(t.scheduled_height()) % 16 == 0) { if id == 0 { continue } else { d % id } } else { d };
                if !deps.contains(&d) {
                    deps.push(d);
                }
            }
            let (state, mined_h) = match t.state() {
                MigrationTxState::AwaitingSignature => (0, 0),
                MigrationTxState::Signed => (1, 0),
                MigrationTxState::Proved => (2, 0),
                MigrationTxState::Broadcast { .. } => (3, 0),
                MigrationTxState::Mined { height, .. } => (4, fh(height)),
            };
            TxSpec {
                id,
                kind,
                deps,
                sched: fh(t.scheduled_height()),
                expiry: if u32::from(t.expiry_height()) % 5 == 0 { 0 } else { fh(t.expiry_height()) },
                anchor: t.anchor_boundary().map(fh),
                txid: 100 + id,
                unsat: t.unsatisfiable().map(|(a, k)| (fh(a), k)),
                fail: t.broadcast_failure_at().map(fh),
                state,
                mined_h,
                nf: None,
            }
        })
        .collect();
    let cross: Vec<u64> = s.crossing_values().iter().map(|z| z.into_u64() % 10_000_000).collect();
    stats.arb += 1;
    let status = if s.status().is_terminal() && r.chance(1, 2) { MigrationStatus::InProgress } else { s.status() };
    (
        build_state(status, &txs, &cross, s.replan_threshold().percent(), s.anchor_bucket_interval().block_count().get()),
        base,
    )
}


// ---------------------------------------------------------------------------------------------
// rebuild context: a wallet holding the funding notes, with a caller-chosen tip and grid
// ---------------------------------------------------------------------------------------------
struct RbCtx {
    mock: CommitMock,
    values: Vec<u64>,
    nfs: Vec<[u8; 32]>,
    seed: u64,
}
impl RbCtx {
    fn new(seed: u64) -> Self {
        let values = vec![101_000u64, 201_000, 301_000];
        let mock = CommitMock::new(seed, &values);
        let nfs = mock.wallet_notes.iter().map(|n| n.nullifier(&mock.fvk).to_bytes()).collect();
        RbCtx { mock, values, nfs, seed }
    }
}
struct RbBackend<'a> {
    ctx: &'a RbCtx,
    tip: u32,
    params: SchedulingParams,
    notes_present: bool,
}
impl<'a> MigrationBackend for RbBackend<'a> {
    type Error = Infallible;
    fn spendable_orchard_note_values(&self) -> Result<Vec<Zatoshis>, Infallible> {
        Ok(if self.notes_present { self.ctx.values.iter().map(|v| Zatoshis::const_from_u64(*v)).collect() } else { vec![] })
    }
    fn chain_tip_height(&self) -> Result<BlockHeight, Infallible> {
        Ok(h(self.tip))
    }
    fn scheduling_params(&self) -> SchedulingParams {
        self.params
    }
}
impl<'a> MigrationCrypto for RbBackend<'a> {
    type Error = Infallible;
    fn orchard_fvk(&self) -> Option<&orchard::keys::FullViewingKey> {
        Some(&self.ctx.mock.fvk)
    }
    fn account_derivation(&self) -> Result<Option<AccountDerivation>, Infallible> {
        Ok(self.ctx.mock.account_derivation.clone())
    }
    fn resolve_wallet_note(&self, index: usize) -> Result<orchard::note::Note, Infallible> {
        Ok(self.ctx.mock.wallet_notes[index])
    }
}

/// Run one rebuild through the public API and describe it as an event + output.
fn do_rebuild(r: &mut Rng, ctx: &RbCtx, s: &mut MigrationState, id: u32, tip: u32, stats: &mut Stats) -> (String, String) {
    let ivl = s.anchor_bucket_interval();
    let grid_ok = !r.chance(1, 12);
    let grid = if grid_ok { ivl } else { AnchorBucketInterval::custom(NonZeroU32::new(ivl.block_count().get() + 1).unwrap()) };
    let backend = RbBackend { ctx, tip, params: SchedulingParams::new_with_default_distributions(grid), notes_present: !r.chance(1, 10) };
    let external = r.chance(1, 3);
    let net = regtest_network(true);
    let mut rng = rand_chacha::ChaCha8Rng::from_seed(r.bytes(32).try_into().unwrap());
    let tid = MigrationTransferId::new(id);
    let before = s.clone();
    let res: Result<(), RebuildError<Infallible>> = if external {
        rebuild_expired_transfer_unsigned(&net, &backend, s, tid, &mut rng).map(|_| ())
    } else {
        rebuild_expired_transfer(&net, &backend, &spending_key(ctx.seed), s, tid, &mut rng)
    };
    let (out, crypto_ok) = match &res {
        Ok(()) => ("RbOk".to_string(), true),
        Err(RebuildError::AnchorIntervalMismatch { .. }) => ("(RbErr RMismatch)".to_string(), false),
        Err(RebuildError::UnknownTransaction(_)) => ("(RbErr RUnknown)".to_string(), false),
        Err(RebuildError::NotATransfer(_)) => ("(RbErr RNotTransfer)".to_string(), false),
        Err(RebuildError::Unsatisfiable(_)) => ("(RbErr RUnsatisfiable)".to_string(), false),
        Err(RebuildError::NotExpired(_)) => ("(RbErr RNotExpired)".to_string(), false),
        Err(_) => ("RbLate".to_string(), false),
    };
    *stats.rebuilds.entry(match &res {
        Ok(()) => "ok",
        Err(RebuildError::AnchorIntervalMismatch { .. }) => "grid_mismatch",
        Err(RebuildError::UnknownTransaction(_)) => "unknown",
        Err(RebuildError::NotATransfer(_)) => "not_transfer",
        Err(RebuildError::Unsatisfiable(_)) => "unsatisfiable",
        Err(RebuildError::NotExpired(_)) => "not_expired",
        Err(RebuildError::FundingNoteUnavailable(_)) => "late_note_unavailable",
        Err(RebuildError::NoCandidateAnchor) => "late_no_anchor",
        Err(RebuildError::InconsistentPlan(_)) => "late_inconsistent_plan",
        Err(_) => "late_other",
    }).or_default() += 1;
    let (sched, anchor, txid) = match (&res, s.transactions().iter().find(|t| t.id() == tid)) {
        (Ok(()), Some(t)) => (u32::from(t.scheduled_height()), t.anchor_boundary().map(u32::from).unwrap_or(0), txid_num(&t.txid())),
        _ => (0, 0, 0),
    };
    if let Err(e) = &res {
        if std::env::var("C18_DEBUG").is_ok() { eprintln!("rebuild err: {:?}", e); }
    }
    if res.is_err() {
        assert!(*s == before, "a failed rebuild must leave the state untouched");
    }
    (
        format!("(ERebuild {} {} {} {} {} {} {} {})", id, tip, boolc(grid_ok), boolc(crypto_ok), boolc(external), sched, anchor, txid),
        format!("(ORebuild {})", out),
    )
}

// ---------------------------------------------------------------------------------------------
// events
// ---------------------------------------------------------------------------------------------
static mut RT_NANOS: u64 = 0;
static mut T_OPEN: u64 = 0;
static mut T_REPL: u64 = 0;
#[derive(Default)]
struct Stats {
    dag: u64,
    arb: u64,
    seqs: u64,
    events: BTreeMap<&'static str, u64>,
    steps: BTreeMap<&'static str, u64>,
    shifts: u64,
    persisted: u64,
    rt_fail: u64,
    contract_breaking: u64,
    shuffled: u64,
    deep_rewinds: Vec<(u32, u32, u32)>,
    mem_disagree: u64,
    rebuilds: BTreeMap<&'static str, u64>,
    reversed: u64,
    tx_counts: BTreeMap<usize, u64>,
    panics: u64,
}

struct Persist<'a> {
    conn: &'a mut rusqlite::Connection,
    account: zcash_client_sqlite::AccountUuid,
    net: zcash_protocol::local_consensus::LocalNetwork,
    tables: &'a Vec<String>, // migrations, transactions, deps, crossing, prep in, prep out, direct, nullifiers
    mem: MockBackend,
}

fn fnv(b: &[u8]) -> String {
    let mut hsh: u64 = 0xcbf29ce484222325;
    for x in b {
        hsh ^= *x as u64;
        hsh = hsh.wrapping_mul(0x100000001b3);
    }
    format!("({}, {})", b.len(), hsh)
}

/// The parts of the in-memory state the Coq state record does not carry: per-transaction payloads
/// and the denomination / preparation plan.
fn p_extra(s: &MigrationState) -> String {
    let pays = list(s.transactions().iter().map(|t| {
        format!(
            "MkPay {} {} {}",
            fnv(t.pczt()),
            opt(t.lock_owner().map(|o| fnv(o.as_bytes()))),
            list(t.spend_nullifiers().iter().map(|n| fnv(n)))
        )
    }));
    let d = s.denominations();
    let layers = list(s.preparation().layers().iter().map(|ly| {
        list(ly.iter().map(|t| {
            format!(
                "({}, {})",
                list(t.inputs().iter().map(|i| match i {
                    PrepInput::Wallet { index, value } => format!("PWallet {} {}", index, value.into_u64()),
                    PrepInput::Prior { layer, transaction, output, value } => format!("PPrior {} {} {} {}", layer, transaction, output, value.into_u64()),
                })),
                list(t.outputs().iter().map(|o| match o {
                    PrepOutput::Funding(v) => format!("(RFunding, {})", v.into_u64()),
                    PrepOutput::Intermediate(v) => format!("(RIntermediate, {})", v.into_u64()),
                    PrepOutput::Change(v) => format!("(RChange, {})", v.into_u64()),
                }))
            )
        }))
    }));
    format!(
        "{} (MkPlan {} {} {} {} {} {} {})",
        pays,
        d.note_fee_buffer().into_u64(),
        opt(d.change().map(|c| format!("{}", c.into_u64()))),
        d.prep_fees().into_u64(),
        d.total_input().into_u64(),
        d.total_migratable().into_u64(),
        layers,
        list(s.preparation().direct_funding_notes().iter().map(|(i, v)| format!("({}, {})", i, v.into_u64())))
    )
}

/// What `replace_migration` wrote, read with plain SELECTs in insertion order from ALL the
/// normalised tables of the newest migration, as a Coq [tables] term.
fn dump_rows(conn: &rusqlite::Connection, t: &Vec<String>) -> Result<String, rusqlite::Error> {
    let oz = |x: Option<i64>| opt(x.map(|v| format!("{}", v)));
    let (mid, status, fee, change, pf, ti, tm, ivl, thr): (i64, String, i64, Option<i64>, i64, i64, i64, i64, i64) = conn.query_row(
        &format!("SELECT id, status, note_split_fee_buffer, note_split_change, note_split_prep_fees, note_split_total_input,
                         note_split_total_migratable, anchor_bucket_interval, replan_threshold FROM {} ORDER BY id DESC LIMIT 1", t[0]),
        [],
        |r| Ok((r.get(0)?, r.get(1)?, r.get(2)?, r.get(3)?, r.get(4)?, r.get(5)?, r.get(6)?, r.get(7)?, r.get(8)?)),
    )?;
    let st = match status.as_str() {
        "planning" => "Planning",
        "committed" => "Committed",
        "in_progress" => "InProgress",
        "complete" => "Complete",
        "failed" => "Failed",
        "superseded" => "Superseded",
        "cancelled" => "Cancelled",
        _ => "UnknownStatus",
    };
    let parent = format!("(MkParent {} {} {} {} {} {} {} {})", st, fee, oz(change), pf, ti, tm, ivl, thr);
    let q = |sql: String, f: &dyn Fn(&rusqlite::Row) -> rusqlite::Result<String>| -> Result<String, rusqlite::Error> {
        let mut stmt = conn.prepare(&sql)?;
        let v: Vec<String> = stmt.query_map([mid], |r| f(r))?.collect::<Result<_, _>>()?;
        Ok(list(v))
    };
    let cross = q(format!("SELECT ordinal, value FROM {} WHERE migration_id = ? ORDER BY rowid", t[3]),
        &|r| Ok(format!("MkOrd {}%nat {}", r.get::<_, i64>(0)?, r.get::<_, i64>(1)?)))?;
    let pin = q(format!("SELECT layer, tx_index, ordinal, source, wallet_index, prior_layer, prior_transaction, prior_output, value FROM {} WHERE migration_id = ? ORDER BY rowid", t[4]),
        &|r| {
            let src: String = r.get(3)?;
            Ok(format!("MkPin {}%nat {}%nat {}%nat {} {} {} {} {} {}", r.get::<_, i64>(0)?, r.get::<_, i64>(1)?, r.get::<_, i64>(2)?,
                match src.as_str() { "wallet" => "SWallet", "prior" => "SPrior", _ => "SUnknown" },
                oz(r.get(4)?), oz(r.get(5)?), oz(r.get(6)?), oz(r.get(7)?), r.get::<_, i64>(8)?))
        })?;
    let pout = q(format!("SELECT layer, tx_index, ordinal, role, value FROM {} WHERE migration_id = ? ORDER BY rowid", t[5]),
        &|r| {
            let role: String = r.get(3)?;
            Ok(format!("MkPout {}%nat {}%nat {}%nat {} {}", r.get::<_, i64>(0)?, r.get::<_, i64>(1)?, r.get::<_, i64>(2)?,
                match role.as_str() { "funding" => "RFunding", "intermediate" => "RIntermediate", "change" => "RChange", _ => "RUnknown" },
                r.get::<_, i64>(4)?))
        })?;
    let direct = q(format!("SELECT ordinal, wallet_index, value FROM {} WHERE migration_id = ? ORDER BY rowid", t[6]),
        &|r| Ok(format!("MkDir {}%nat {} {}", r.get::<_, i64>(0)?, r.get::<_, i64>(1)?, r.get::<_, i64>(2)?)))?;
    let rows = q(format!(
        "SELECT transfer_id, kind, kind_layer, kind_index, kind_crossing, scheduled_height, expiry_height,
                anchor_boundary, state, txid, mined_height, unsatisfiable_at, unsatisfiable_kind, broadcast_failure_at
           FROM {} WHERE migration_id = ? ORDER BY rowid", t[1]),
        &|r| {
            let kind: String = r.get(1)?;
            let state: String = r.get(8)?;
            let txid: Option<Vec<u8>> = r.get(9)?;
            let uk: Option<String> = r.get(12)?;
            Ok(format!(
                "MkRow {} {} {} {} {} {} {} {} {} {} {} {} {} {}",
                r.get::<_, i64>(0)?,
                match kind.as_str() { "preparation" => "NPrep", "transfer" => "NTransfer", _ => "NUnknownKind" },
                oz(r.get(2)?), oz(r.get(3)?), oz(r.get(4)?),
                r.get::<_, i64>(5)?, r.get::<_, i64>(6)?, oz(r.get(7)?),
                match state.as_str() {
                    "awaiting_signature" => "NAwaiting", "signed" => "NSigned", "proved" => "NProved",
                    "broadcast" => "NBroadcast", "mined" => "NMined", _ => "NUnknownState",
                },
                opt(txid.map(|b| format!("{}", u32::from_le_bytes([b[0], b[1], b[2], b[3]])))),
                oz(r.get(10)?), oz(r.get(11)?),
                opt(uk.map(|k| match k.as_str() {
                    "inputs_spent" => "KSpent", "inputs_invalidated" => "KInvalidated",
                    "anchor_invalidated" => "KAnchor", "inherited" => "KInherited", _ => "KUnknown",
                }.to_string())),
                oz(r.get(13)?)
            ))
        })?;
    let pays = q(format!("SELECT transfer_id, pczt, lock_owner FROM {} WHERE migration_id = ? ORDER BY rowid", t[1]),
        &|r| {
            let pczt: Vec<u8> = r.get(1)?;
            let lock: Option<Vec<u8>> = r.get(2)?;
            Ok(format!("MkTxPay {} {} {}", r.get::<_, i64>(0)?, fnv(&pczt), opt(lock.map(|b| fnv(&b)))))
        })?;
    let deps = q(format!("SELECT transfer_id, ordinal, depends_on_transfer_id FROM {} WHERE migration_id = ? ORDER BY rowid", t[2]),
        &|r| Ok(format!("MkDep {} {}%nat {}", r.get::<_, i64>(0)?, r.get::<_, i64>(1)?, r.get::<_, i64>(2)?)))?;
    let nfs = q(format!("SELECT transfer_id, ordinal, nullifier FROM {} WHERE migration_id = ? ORDER BY rowid", t[7]),
        &|r| {
            let b: Vec<u8> = r.get(2)?;
            Ok(format!("MkNf {} {}%nat {}", r.get::<_, i64>(0)?, r.get::<_, i64>(1)?, fnv(&b)))
        })?;
    Ok(format!("(MkTables {} {} {} {} {} {} {} {} {})", parent, cross, pin, pout, direct, rows, pays, deps, nfs))
}

impl<'a> Persist<'a> {
    /// Save with `replace_migration`, load back, compare; count live migrations.
    fn roundtrip(&mut self, s: &MigrationState) -> ((bool, bool, bool, bool), String) {
        let r = self.roundtrip_inner(s);
        let d = dump_rows(&*self.conn, self.tables).unwrap_or_else(|e| format!("DumpFailed_{:?}", e).replace(' ', "_"));
        (r, format!("{} {}", p_extra(s), d))
    }
    fn roundtrip_inner(&mut self, s: &MigrationState) -> (bool, bool, bool, bool) {
        let t0 = std::time::Instant::now();
        let mut store = PoolMigrations::for_account(self.net, SystemClock, &mut *self.conn, self.account).expect("store");
        unsafe { T_OPEN += t0.elapsed().as_nanos() as u64; }
        let t0 = std::time::Instant::now();
        let rr = store.replace_migration(s);
        unsafe { T_REPL += t0.elapsed().as_nanos() as u64; }
        if let Err(e) = rr {
            eprintln!("replace_migration failed: {:?}", e);
            return (false, false, false, false);
        }
        let t0 = std::time::Instant::now();
        let latest = store.latest_migration();
        unsafe { T_OPEN += t0.elapsed().as_nanos() as u64; }
        let t0 = std::time::Instant::now();
        let got = store.get_migration();
        unsafe { T_REPL += t0.elapsed().as_nanos() as u64; }
        let latest_ok = matches!(&latest, Ok(Some(x)) if x == s);
        let get_ok = match (&got, s.is_terminal()) {
            (Ok(None), true) => true,
            (Ok(Some(x)), false) => x == s,
            _ => false,
        };
        let live = store
            .list_migrations()
            .map(|l| l.iter().filter(|m| !m.status().is_terminal()).count())
            .unwrap_or(99);
        // the in-memory backend of zcash_pool_migration_memory, driven with the same writes, must
        // agree with the SQLite store: after the replace, and after a single-row lifecycle update
        self.mem.replace_migration(s).unwrap();
        let mut mem_ok = matches!((&got, self.mem.get_migration()), (Ok(a), Ok(b)) if *a == b);
        if !s.is_terminal() && !s.transactions().is_empty() {
            let k = (s.transactions().len() * 7 + u32::from(s.transactions()[0].scheduled_height()) as usize) % s.transactions().len();
            let row = &s.transactions()[k];
            let new_state = match row.state() {
                MigrationTxState::Proved => MigrationTxState::Broadcast { txid: row.txid() },
                MigrationTxState::Broadcast { txid } => MigrationTxState::Mined { txid, height: row.scheduled_height() },
                MigrationTxState::Signed => MigrationTxState::Proved,
                other => other,
            };
            let a = store.update_transaction(row.id(), new_state);
            let b = self.mem.update_transaction(row.id(), new_state);
            mem_ok &= a.is_ok() && b.is_ok();
            mem_ok &= matches!((store.get_migration(), self.mem.get_migration()), (Ok(x), Ok(y)) if x == y);
            // restore what the sequence persisted
            mem_ok &= store.replace_migration(s).is_ok();
            self.mem.replace_migration(s).unwrap();
        }
        (latest_ok, get_ok, live <= 1, mem_ok)
    }
}

fn ids_of(s: &MigrationState) -> Vec<u32> {
    s.transactions().iter().map(|t| u32::from(t.id())).collect()
}

fn emit(pre: &str, ev: String, post: &MigrationState, out: String, pers: Option<((bool, bool, bool, bool), String)>) {
    let p = match pers {
        None => "PNone".to_string(),
        Some(((a, b, c, m), d)) => format!("(PFull {} {} {} {} {})", boolc(a), boolc(b), boolc(c), boolc(m), d),
    };
    case(format!("Case {} {} {} {} {}", pre, ev, p_state(post), out, p));
}

fn run_sequence(r: &mut Rng, mut s: MigrationState, base: u32, len: usize, mut persist: Option<&mut Persist>, rb: Option<&RbCtx>, stats: &mut Stats) {
    stats.seqs += 1;
    *stats.tx_counts.entry(s.transactions().len()).or_default() += 1;
    let mut scanned = base + r.below(40) as u32;
    let mut last_step: Option<AdvanceStep> = None;
    if let Some(p) = persist.as_deref_mut() {
        // the initial state itself must round-trip
        let rt = p.roundtrip(&s);
        stats.persisted += 1;
        if rt.0 != (true, true, true, true) {
            stats.rt_fail += 1;
        }
        emit(&p_state(&s), "ENoop".into(), &s, "OUnit".into(), Some(rt));
    }
    for _ in 0..len {
        let pre = p_state(&s);
        let ids = ids_of(&s);
        let any_id = |r: &mut Rng| -> u32 {
            if ids.is_empty() || r.chance(1, 15) { r.below(12) as u32 } else { *r.pick(&ids) }
        };
        // follow-ups honouring the driver contract
        let follow = last_step.take();
        let (name, ev, out): (&'static str, String, String) = match follow {
            Some(AdvanceStep::Broadcast { id }) if r.chance(4, 5) => {
                let id = u32::from(id);
                if r.chance(1, 5) {
                    let tip = scanned + r.below(30) as u32;
                    s.report_broadcast_failure(MigrationTransferId::new(id), h(tip));
                    ("report_failure", format!("(EReportFailure {} {})", id, tip), "OUnit".into())
                } else {
                    s.mark_broadcast(MigrationTransferId::new(id));
                    ("record_broadcast", format!("(ERecordBroadcast {})", id), "OUnit".into())
                }
            }
            Some(AdvanceStep::Rebuild { id }) if rb.is_some() && r.chance(5, 6) => {
                // the contracted response to a Rebuild offer, at the tip the offer was made at
                let (ev, out) = do_rebuild(r, rb.unwrap(), &mut s, u32::from(id), scanned.saturating_sub(1), stats);
                ("rebuild", ev, out)
            }
            Some(AdvanceStep::Replan) if r.chance(1, 3) => {
                s.mark_superseded();
                ("supersede", "ESupersede".into(), "OUnit".into())
            }
            Some(AdvanceStep::Prove { transactions }) if r.chance(4, 5) => {
                // prove the first offered one (the rest is re-offered)
                let id = u32::from(transactions[0].id());
                let mut st = Store { answers: BTreeMap::new(), default: Ans::Sat(0), mined: BTreeMap::new(), replaced: 0, queries: 0 };
                st.store_proved_transaction(&mut s, ProvedTransaction::from_parts(MigrationTransferId::new(id), vec![9, 9]))
                    .unwrap();
                ("store_proof", format!("(EStoreProof {})", id), "OUnit".into())
            }
            _ => {
                let roll = r.below(100);
                if roll < 50 {
                    // Advance
                    scanned += *r.pick(&[0u32, 0, 1, 3, 10, 25, 70, 200]);
                    let est = match r.below(6) {
                        0 => scanned.saturating_sub(r.below(20) as u32),
                        1 | 2 => scanned,
                        3 => scanned + r.below(12) as u32,
                        4 => scanned + r.below(80) as u32,
                        _ => scanned + r.below(600) as u32,
                    };
                    let dflt = match r.below(12) {
                        0 => Ans::NotYet(scanned.saturating_sub(1)),
                        1 => Ans::Sat(scanned.saturating_sub(r.below(60) as u32)),
                        _ => Ans::Sat(scanned.saturating_sub(1) + r.below(3) as u32),
                    };
                    let mut answers: BTreeMap<u32, Ans> = BTreeMap::new();
                    if r.chance(2, 5) {
                        for _ in 0..r.range(1, 3) {
                            let a = scanned.saturating_sub(r.below(40) as u32) + r.below(20) as u32;
                            let ans = match r.below(10) {
                                0 | 1 | 2 => Ans::NotYet(a),
                                3 | 4 => Ans::Unsat(0, a),
                                5 => Ans::Unsat(1, a),
                                6 => Ans::Unsat(2, a),
                                7 => Ans::Unsat(3, a),
                                _ => Ans::Sat(a),
                            };
                            answers.insert(any_id(r), ans);
                        }
                    }
                    let mut mined: BTreeMap<u32, u32> = BTreeMap::new();
                    for t in s.transactions() {
                        let p = match t.state() {
                            MigrationTxState::Broadcast { .. } => 2,
                            MigrationTxState::Proved => 12,
                            _ => 40,
                        };
                        if r.chance(1, p) {
                            mined.insert(txid_num(&t.txid()), scanned.saturating_sub(1 + r.below(30) as u32));
                        }
                    }
                    let ages: Vec<u32> = {
                        let k = r.range(1, 4) as usize;
                        let mut v: Vec<u32> = (0..k).map(|_| *r.pick(&[1u32, 1, 2, 3, 4, 5, 7])).collect();
                        v
                    };
                    let mut store = Store { answers: answers.clone(), default: dflt.clone(), mined: mined.clone(), replaced: 0, queries: 0 };
                    let mut rng = ScriptRng { ages: ages.clone(), pos: 0 };
                    let tg = DuenessTargets::new(h(scanned), h(est));
                    let cfg = AdvanceConfig::new(ReorgSettleDepth::new(10));
                    let before = s.clone();
                    let res = catch(|| {
                        let mut s2 = before.clone();
                        let a = advance_migration(&mut store, &mut s2, tg, &cfg, &mut rng).unwrap();
                        (s2, a.step().clone(), store.replaced, a.next())
                    });
                    let ev = format!(
                        "(EAdvance {} {} {} {} {} {})",
                        scanned,
                        est,
                        list(answers.iter().map(|(k, v)| format!("({}, {})", k, v.coq()))),
                        dflt.coq(),
                        list(mined.iter().map(|(k, v)| format!("({}, {})", k, v))),
                        list(ages.iter().map(|a| format!("{}", a)))
                    );
                    // the same call against the in-memory backend (zcash_pool_migration_memory)
                    let mem_agrees = {
                        let mut mb = MockBackend::new(vec![], 0);
                        for t in before.transactions() {
                            let id = u32::from(t.id());
                            mb.satisfiability.insert(t.id(), answers.get(&id).unwrap_or(&dflt).real());
                            if let Some(hh) = mined.get(&txid_num(&t.txid())) {
                                mb.mined.insert(t.txid(), h(*hh));
                            }
                        }
                        let mut rng2 = ScriptRng { ages: ages.clone(), pos: 0 };
                        let r2 = catch(|| {
                            let mut s3 = before.clone();
                            let a = advance_migration(&mut mb, &mut s3, tg, &cfg, &mut rng2).unwrap();
                            let stored = mb.get_migration().unwrap();
                            (s3, a.step().clone(), stored, a.next())
                        });
                        match (&res, &r2) {
                            (Some((s2, step, replaced, nx)), Some((s3, step3, stored, nx3))) => {
                                s2 == s3 && step == step3 && nx == nx3
                                    && (if *replaced > 0 && !s2.is_terminal() { stored.as_ref() == Some(s2) } else { true })
                            }
                            (None, None) => true,
                            _ => false,
                        }
                    };
                    if !mem_agrees {
                        stats.mem_disagree += 1;
                    }
                    match res {
                        Some(_) if !mem_agrees => ("advance", ev, "OMemDisagree".into()),
                        Some((s2, step, replaced, nx)) => {
                            let shifted = s2.transactions().iter().zip(before.transactions()).any(|(a, b)| a.scheduled_height() != b.scheduled_height());
                            if shifted {
                                stats.shifts += 1;
                            }
                            s = s2;
                            let nm = match &step {
                                AdvanceStep::Prove { .. } => "prove",
                                AdvanceStep::Broadcast { .. } => "broadcast",
                                AdvanceStep::Rebuild { .. } => "rebuild",
                                AdvanceStep::Replan => "replan",
                                AdvanceStep::Reevaluate => "reevaluate",
                                AdvanceStep::Waiting => "waiting",
                                AdvanceStep::Complete => "complete",
                            };
                            *stats.steps.entry(nm).or_default() += 1;
                            let out = format!("(OStep {} {} {})", p_step(&step), boolc(replaced > 0), p_next(nx));
                            last_step = Some(step);
                            ("advance", ev, out)
                        }
                        None => {
                            stats.panics += 1;
                            ("advance", ev, "OPanic".into())
                        }
                    }
                } else if roll < 56 {
                    let id = any_id(r);
                    let hh = scanned.saturating_sub(r.below(30) as u32);
                    s.mark_mined(MigrationTransferId::new(id), h(hh));
                    ("mark_mined", format!("(EMarkMined {} {})", id, hh), "OUnit".into())
                } else if roll < 66 {
                    let hh = match r.below(4) {
                        0 => scanned,
                        1 => scanned.saturating_sub(r.below(10) as u32),
                        2 => scanned.saturating_sub(r.below(80) as u32),
                        _ => {
                            // exactly at / one below a mined height or a stamp
                            let hs: Vec<u32> = s
                                .transactions()
                                .iter()
                                .flat_map(|t| {
                                    let mut v = vec![];
                                    if let MigrationTxState::Mined { height, .. } = t.state() {
                                        v.push(u32::from(height));
                                    }
                                    if let Some(a) = t.unsatisfiable_at() {
                                        v.push(u32::from(a));
                                    }
                                    if let Some(a) = t.broadcast_failure_at() {
                                        v.push(u32::from(a));
                                    }
                                    v
                                })
                                .collect();
                            if hs.is_empty() { scanned } else { (*r.pick(&hs) + 1).saturating_sub(r.below(3) as u32) }
                        }
                    };
                    s.truncate_to_height(h(hh));
                    if hh < scanned && r.chance(1, 2) {
                        scanned = hh + 1;
                    }
                    ("rollback", format!("(ERollback {})", hh), "OUnit".into())
                } else if roll < 71 {
                    let id = any_id(r);
                    let tip = scanned + r.below(40) as u32;
                    s.report_broadcast_failure(MigrationTransferId::new(id), h(tip));
                    ("report_failure", format!("(EReportFailure {} {})", id, tip), "OUnit".into())
                } else if roll < 77 {
                    let id = any_id(r);
                    let b = s.apply_signature(MigrationTransferId::new(id), vec![5, 5, 5]);
                    ("apply_sig", format!("(EApplySig {})", id), format!("(OBool {})", boolc(b)))
                } else if roll < 85 {
                    let est = scanned + if r.bool() { 0 } else { r.below(50) as u32 };
                    let mut dets: Vec<(u32, Ans)> = Vec::new();
                    for _ in 0..r.below(3) {
                        let a = scanned.saturating_sub(r.below(30) as u32);
                        let ans = match r.below(6) {
                            0 => Ans::Sat(a),
                            1 => Ans::NotYet(a),
                            2 => Ans::Unsat(2, a),
                            3 => Ans::Unsat(1, a),
                            4 => Ans::Unsat(3, a),
                            _ => Ans::Unsat(0, a),
                        };
                        dets.push((any_id(r), ans));
                    }
                    let real: Vec<(MigrationTransferId, StepSatisfiability)> =
                        dets.iter().map(|(i, a)| (MigrationTransferId::new(*i), a.real())).collect();
                    s.record_satisfiability(DuenessTargets::new(h(scanned), h(est)), &real);
                    (
                        "record_sat",
                        format!("(ERecordSat {} {} {})", scanned, est, list(dets.iter().map(|(i, a)| format!("({}, {})", i, a.coq())))),
                        "OUnit".into(),
                    )
                } else if roll < 88 && r.chance(3, 4) {
                    // the status view (a pure query)
                    let est = match r.below(3) { 0 => scanned, 1 => scanned + r.below(30) as u32, _ => scanned.saturating_sub(5) };
                    let tg = DuenessTargets::new(h(scanned), h(est));
                    let st = s.transaction_statuses(tg);
                    let exp = s.expired_transactions(tg);
                    let out = format!(
                        "(OStatuses {} {})",
                        list(st.iter().map(|x| p_status_row(x))),
                        list(exp.iter().map(|i| format!("{}", u32::from(*i))))
                    );
                    ("statuses", format!("(EStatuses {} {})", scanned, est), out)
                } else if roll < 86 {
                    s.mark_cancelled();
                    ("cancel", "ECancel".into(), "OUnit".into())
                } else if roll < 87 {
                    s.mark_superseded();
                    ("supersede", "ESupersede".into(), "OUnit".into())
                } else if roll < 90 {
                    s.recompute_status();
                    ("recompute", "ERecompute".into(), "OUnit".into())
                } else if roll < 92 && rb.is_some() {
                    // a rebuild driven from outside the offer (expired_transactions is public)
                    let id = any_id(r);
                    let tip = match r.below(3) {
                        0 => scanned.saturating_sub(1),
                        1 => scanned + r.below(60) as u32,
                        _ => scanned.saturating_sub(r.below(60) as u32),
                    };
                    let (ev, out) = do_rebuild(r, rb.unwrap(), &mut s, id, tip, stats);
                    ("rebuild_any", ev, out)
                } else if roll < 95 {
                    // contract-BREAKING stream: a broadcast recorded for an arbitrary row
                    stats.contract_breaking += 1;
                    let id = any_id(r);
                    s.mark_broadcast(MigrationTransferId::new(id));
                    ("record_broadcast_any", format!("(ERecordBroadcast {})", id), "OUnit".into())
                } else {
                    stats.contract_breaking += 1;
                    let id = any_id(r);
                    let mut st = Store { answers: BTreeMap::new(), default: Ans::Sat(0), mined: BTreeMap::new(), replaced: 0, queries: 0 };
                    st.store_proved_transaction(&mut s, ProvedTransaction::from_parts(MigrationTransferId::new(id), vec![8]))
                        .unwrap();
                    ("store_proof_any", format!("(EStoreProof {})", id), "OUnit".into())
                }
            }
        };
        *stats.events.entry(name).or_default() += 1;
        let pers = persist.as_deref_mut().map(|p| {
            let rt = p.roundtrip(&s);
            stats.persisted += 1;
            if rt.0 != (true, true, true, true) {
                stats.rt_fail += 1;
            }
            rt
        });
        emit(&pre, ev, &s, out, pers);
        // a terminal migration is never driven further: spend the budget elsewhere
        if s.is_terminal() && r.chance(2, 5) {
            break;
        }
    }
}


/// One `advance_migration` call on `s` with an all-satisfiable store, emitted as a case.
fn advance_case(s: &MigrationState, scanned: u32, est: u32, stats: &mut Stats) {
    let pre = p_state(s);
    let mut store = Store { answers: BTreeMap::new(), default: Ans::Sat(scanned.saturating_sub(1)), mined: BTreeMap::new(), replaced: 0, queries: 0 };
    let mut rng = ScriptRng { ages: vec![2, 1], pos: 0 };
    let mut s2 = s.clone();
    let a = advance_migration(&mut store, &mut s2, DuenessTargets::new(h(scanned), h(est)), &AdvanceConfig::new(ReorgSettleDepth::new(10)), &mut rng).unwrap();
    let ev = format!("(EAdvance {} {} [] (Sat {}) [] [2; 1])", scanned, est, scanned.saturating_sub(1));
    emit(&pre, ev, &s2, format!("(OStep {} {} {})", p_step(a.step()), boolc(store.replaced > 0), p_next(a.next())), None);
    *stats.events.entry("advance_lattice").or_default() += 1;
}

/// One `advance_migration` call with explicit oracle tables, emitted as a case.
fn advance_case_with(s: &MigrationState, scanned: u32, answers: &BTreeMap<u32, Ans>, mined: &BTreeMap<u32, u32>, stats: &mut Stats) {
    let pre = p_state(s);
    let dflt = Ans::Sat(scanned.saturating_sub(1));
    let mut store = Store { answers: answers.clone(), default: dflt.clone(), mined: mined.clone(), replaced: 0, queries: 0 };
    let mut rng = ScriptRng { ages: vec![1], pos: 0 };
    let mut s2 = s.clone();
    let a = advance_migration(&mut store, &mut s2, DuenessTargets::new(h(scanned), h(scanned)), &AdvanceConfig::new(ReorgSettleDepth::new(10)), &mut rng).unwrap();
    let ev = format!(
        "(EAdvance {} {} {} {} {} [1])",
        scanned,
        scanned,
        list(answers.iter().map(|(k, v)| format!("({}, {})", k, v.coq()))),
        dflt.coq(),
        list(mined.iter().map(|(k, v)| format!("({}, {})", k, v)))
    );
    emit(&pre, ev, &s2, format!("(OStep {} {} {})", p_step(a.step()), boolc(store.replaced > 0), p_next(a.next())), None);
    *stats.events.entry("advance_sweep_lattice").or_default() += 1;
}

/// The in-flight sweep's coincidence: in ONE drive call a broadcast row has mined (the store knows,
/// the state does not yet), the scanned target may already be past its expiry, another in-flight
/// row draws a finding, and the mined row has unmined, unmarked dependents.
fn sweep_lattice(stats: &mut Stats) {
    const T: u32 = 3000;
    let base = |id: u32, state: u8, deps: Vec<u32>| TxSpec {
        id, kind: if id == 0 { MigrationTxKind::Preparation { layer: 0, index: 0 } } else { MigrationTxKind::Transfer { crossing: 0 } },
        deps, sched: T - 40, expiry: 0, anchor: None, txid: 100 + id, unsat: None, fail: None, state, mined_h: T - 50, nf: None,
    };
    for a_expiry in [0u32, T - 20, T - 1, T, T + 30] {
        for a_mined in [None, Some(T - 10), Some(T - 30)] {
            for b_ans in [Ans::Unsat(0, T - 1), Ans::Unsat(3, T - 2), Ans::Unsat(1, T - 1), Ans::Sat(T - 1)] {
                for c_state in [0u8, 1, 2] {
                    for depth2 in [false, true] {
                        for a_state in [3u8, 2] {
                            let mut a = base(0, a_state, vec![]);
                            a.expiry = a_expiry;
                            let b = base(1, 3, vec![]);
                            let mut c = base(2, c_state, vec![0]);
                            c.anchor = Some(T - 400);
                            let mut txs = vec![a, b, c];
                            if depth2 {
                                txs.push(base(3, 1, vec![2]));
                            }
                            let s = build_state(MigrationStatus::InProgress, &txs, &[100_000], 100, 144);
                            let mut answers = BTreeMap::new();
                            answers.insert(1u32, b_ans.clone());
                            let mut mined = BTreeMap::new();
                            if let Some(mh) = a_mined {
                                mined.insert(100u32, mh);
                            }
                            advance_case_with(&s, T, &answers, &mined, stats);
                        }
                    }
                }
            }
        }
    }
}

fn p_status_row(x: &zcash_pool_migration::state::TransactionStatus) -> String {
    format!(
                            "MkStatus {} {} {} {} {} {}",
                            u32::from(x.id()),
                            boolc(x.ready()),
                            opt(x.action().map(|a| match a { NextAction::Prove => "AProve", NextAction::Broadcast => "ABroadcast" }.to_string())),
                            opt(x.blocked_on().map(|b| match b {
                                Blocker::Dependencies => "BDependencies",
                                Blocker::Schedule => "BSchedule",
                                Blocker::AnchorBoundary => "BAnchorBoundary",
                                Blocker::Signature => "BSignature",
                                Blocker::ExpiryImminent => "BExpiryImminent",
                                Blocker::Expired => "BExpired",
                                Blocker::AwaitingReevaluation => "BAwaitingReevaluation",
                                Blocker::Unsatisfiable => "BUnsatisfiable",
                            }.to_string())),
                            opt(x.unsatisfiable_kind().map(|k| p_ukind(k).to_string())),
                            opt(x.mined_height().map(|m| format!("{}", u32::from(m)))))
}

fn permutations(n: usize) -> Vec<Vec<usize>> {
    if n == 0 {
        return vec![vec![]];
    }
    let mut out = Vec::new();
    for p in permutations(n - 1) {
        for i in 0..=p.len() {
            let mut q = p.clone();
            q.insert(i, n - 1);
            out.push(q);
        }
    }
    out
}

/// Dependency chains of depth 3 and 4 behind a dead source, in EVERY row order (dependents before
/// their dependencies included): the kernel's dead set must be the closure whatever the order, so
/// the drive API must answer Replan / Rebuild — never Waiting — and the status view must say
/// Unsatisfiable for every stranded row.
fn chain_lattice(stats: &mut Stats) {
    const T: u32 = 5000;
    for n in [3usize, 4] {
        for perm in permutations(n) {
            for source in 0..4u8 {
                for tail_state in [1u8, 2] {
                    // row k depends on row k-1; row 0 is the dead source
                    let mut rows: Vec<TxSpec> = (0..n)
                        .map(|k| TxSpec {
                            id: 10 + k as u32,
                            kind: if k + 1 == n { MigrationTxKind::Transfer { crossing: 0 } } else { MigrationTxKind::Preparation { layer: k, index: 0 } },
                            deps: if k == 0 { vec![] } else { vec![10 + k as u32 - 1] },
                            sched: T - 100,
                            expiry: 0,
                            anchor: None,
                            txid: 200 + k as u32,
                            unsat: None,
                            fail: None,
                            state: if k + 1 == n { tail_state } else { 1 },
                            mined_h: T - 200,
                            nf: None,
                        })
                        .collect();
                    match source {
                        0 => { rows[0].state = 3; rows[0].expiry = T - 50; }          // broadcast, expired un-mined
                        1 => { rows[0].unsat = Some((T - 30, UnsatisfiableKind::InputsSpent)); } // marked
                        2 => { rows[0].state = 1; rows[0].expiry = T - 1; }           // signed preparation, just expired
                        _ => { rows[0].state = 3; rows[0].expiry = T + 50; }          // control: live in-flight source
                    }
                    let ordered: Vec<TxSpec> = perm.iter().map(|i| rows[*i].clone()).collect();
                    let s = build_state(MigrationStatus::InProgress, &ordered, &[100_000], 100, 144);
                    advance_case(&s, T, T, stats);
                    // the status view of the same state
                    let tg = DuenessTargets::new(h(T), h(T));
                    let out = format!(
                        "(OStatuses {} {})",
                        list(s.transaction_statuses(tg).iter().map(|x| p_status_row(x))),
                        list(s.expired_transactions(tg).iter().map(|i| format!("{}", u32::from(*i))))
                    );
                    emit(&p_state(&s), format!("(EStatuses {} {})", T, T), &s, out, None);
                    *stats.events.entry("chain_lattice").or_default() += 1;
                }
            }
        }
    }
}

/// Exhaustive boundary lattices around every guard of the broadcast and prove queues and of the
/// overdue shift.
fn lattices(stats: &mut Stats) {
    const T: u32 = 1000;
    let base = |id: u32, state: u8| TxSpec {
        id, kind: MigrationTxKind::Transfer { crossing: 0 }, deps: vec![], sched: T, expiry: 0, anchor: None,
        txid: 100 + id, unsat: None, fail: None, state, mined_h: T - 50, nf: None,
    };
    // broadcast queue: schedule x expiry x targets x report x mark x dependency state
    for sched in [T - 1, T, T + 1] {
        for expiry in [0, T - 6, T - 5, T - 4, T - 1, T, T + 1] {
            for (scanned, est) in [(T, T), (T - 5, T), (T, T - 5)] {
                for fail in [None, Some(T - 2)] {
                    for unsat in [None, Some((T - 3, UnsatisfiableKind::InputsSpent))] {
                        for dep in [0u8, 4, 3, 9] {
                            let mut t = base(1, 2);
                            t.sched = sched;
                            t.expiry = expiry;
                            t.fail = fail;
                            t.unsat = unsat;
                            let mut txs = vec![];
                            if dep != 0 {
                                t.deps = vec![if dep == 9 { 7 } else { 0 }];
                                if dep != 9 {
                                    let mut d = base(0, dep);
                                    d.kind = MigrationTxKind::Preparation { layer: 0, index: 0 };
                                    txs.push(d);
                                }
                            }
                            txs.push(t);
                            let s = build_state(MigrationStatus::InProgress, &txs, &[100_000], 100, 144);
                            advance_case(&s, scanned, est, stats);
                        }
                    }
                }
            }
        }
    }
    // prove queue: anchor depth at the scanned target, preparation schedule at the served target
    for anchor in [None, Some(T - 12), Some(T - 11), Some(T - 10), Some(T - 9)] {
        for sched in [T - 1, T, T + 1, T + 40] {
            for (scanned, est) in [(T, T), (T - 1, T), (T, T + 1)] {
                for expiry in [0, T - 1, T, T + 1] {
                    let mut t = base(1, 1);
                    t.anchor = anchor;
                    t.sched = sched;
                    t.expiry = expiry;
                    if anchor.is_none() {
                        t.kind = MigrationTxKind::Preparation { layer: 0, index: 0 };
                    }
                    let s = build_state(MigrationStatus::Committed, &[t], &[100_000], 100, 144);
                    advance_case(&s, scanned, est, stats);
                }
            }
        }
    }
    // overdue shift: lag against the tolerance (16 blocks at the 144-block interval, 1 at small ones)
    for ivl in [144u32, 4, 300] {
        let tol = std::cmp::max(1, (66u64 * ivl as u64 / 144) as u32 / 4);
        for lag in [tol - 1, tol, tol + 1, tol + 2, 3 * tol + 7] {
            for state in [1u8, 2] {
                let mut a = base(1, state);
                a.sched = T - lag;
                a.anchor = Some((T - lag).saturating_sub(3 * ivl) / ivl * ivl);
                let mut b = base(2, 1);
                b.sched = T - lag + 5;
                b.anchor = Some((T - lag).saturating_sub(2 * ivl) / ivl * ivl);
                let mut c = base(3, 2);
                c.sched = T + 30;
                let s = build_state(MigrationStatus::Committed, &[a, b, c], &[100_000, 5], 100, ivl);
                advance_case(&s, T, T, stats);
                advance_case(&s, T - 3, T, stats);
            }
        }
    }
}

/// Hand-written witnesses that must always be in the corpus.
fn witnesses(stats: &mut Stats) {
    let t = |id: u32, state: u8, deps: Vec<u32>| TxSpec {
        id,
        kind: MigrationTxKind::Transfer { crossing: 0 },
        deps,
        sched: 100,
        expiry: 0,
        anchor: None,
        txid: 100 + id,
        unsat: None,
        fail: None,
        state,
        mined_h: 90,
        nf: None,
    };
    // (1) mark_broadcast on a Mined row
    let mut s = build_state(MigrationStatus::Complete, &[t(0, 4, vec![])], &[100_000], 20, 144);
    let pre = p_state(&s);
    s.mark_broadcast(MigrationTransferId::new(0));
    emit(&pre, "(ERecordBroadcast 0)".into(), &s, "OUnit".into(), None);
    // (2) a proof stored on a Mined row
    let mut s = build_state(MigrationStatus::InProgress, &[t(0, 4, vec![]), t(1, 1, vec![0])], &[100_000], 20, 144);
    let pre = p_state(&s);
    let mut st = Store { answers: BTreeMap::new(), default: Ans::Sat(0), mined: BTreeMap::new(), replaced: 0, queries: 0 };
    st.store_proved_transaction(&mut s, ProvedTransaction::from_parts(MigrationTransferId::new(0), vec![8])).unwrap();
    emit(&pre, "(EStoreProof 0)".into(), &s, "OUnit".into(), None);
    // (3) rollback of a Complete migration
    let mut s = build_state(MigrationStatus::Complete, &[t(0, 4, vec![]), t(1, 4, vec![0])], &[100_000], 20, 144);
    let pre = p_state(&s);
    s.truncate_to_height(h(89));
    emit(&pre, "(ERollback 89)".into(), &s, "OUnit".into(), None);
    // (4) anchor boundaries at the top of the u32 range: `prove_ready` and the overdue test add
    //     PROVABLE_ANCHOR_DEPTH (+1) to the boundary
    for (anchor, state) in [(u32::MAX - 5, 1u8), (u32::MAX - 10, 1), (u32::MAX - 11, 1), (u32::MAX, 1), (u32::MAX - 5, 2)] {
        for (scanned, est) in [(1000u32, 1000u32), (u32::MAX, u32::MAX), (u32::MAX - 1, u32::MAX)] {
            let mut x = t(0, state, vec![]);
            x.anchor = Some(anchor);
            x.sched = 900;
            let s = build_state(MigrationStatus::Committed, &[x], &[100_000], 20, 144);
            let pre = p_state(&s);
            let mut store = Store { answers: BTreeMap::new(), default: Ans::Sat(scanned - 1), mined: BTreeMap::new(), replaced: 0, queries: 0 };
            let mut rng = ScriptRng { ages: vec![1], pos: 0 };
            let res = catch(|| {
                let mut s2 = s.clone();
                let a = advance_migration(&mut store, &mut s2, DuenessTargets::new(h(scanned), h(est)), &AdvanceConfig::new(ReorgSettleDepth::new(10)), &mut rng).unwrap();
                (s2, a.step().clone(), store.replaced, a.next())
            });
            let ev = format!("(EAdvance {} {} [] (Sat {}) [] [1])", scanned, est, scanned - 1);
            match res {
                Some((s2, step, rep, nx)) => emit(&pre, ev, &s2, format!("(OStep {} {} {})", p_step(&step), boolc(rep > 0), p_next(nx)), None),
                None => {
                    stats.panics += 1;
                    emit(&pre, ev, &s, "OPanic".into(), None)
                }
            }
        }
    }
    stats.seqs += 3;
}

// ---------------------------------------------------------------------------------------------
// wallet rewinds through the REAL SQLite wallet: truncate_to_height / rewind_to_chain_state
// ---------------------------------------------------------------------------------------------
const PRUNING_DEPTH: u32 = 100;

/// A small migration whose mined heights, marks and reports are drawn from `pool`.
fn rewind_state(r: &mut Rng, pool: &[u32], status: MigrationStatus, all_mined: bool) -> MigrationState {
    let n = r.range(1, 5) as usize;
    let mut txs = Vec::new();
    for i in 0..n {
        let id = i as u32 * 2 + 1;
        let state = if all_mined { 4 } else { *r.pick(&[1u8, 2, 3, 4, 4, 4]) };
        txs.push(TxSpec {
            id,
            kind: if i + 1 == n || r.bool() { MigrationTxKind::Transfer { crossing: 0 } } else { MigrationTxKind::Preparation { layer: 0, index: i } },
            deps: if i > 0 && r.bool() { vec![1] } else { vec![] },
            sched: *r.pick(pool),
            expiry: if r.bool() { 0 } else { *r.pick(pool) + 50 },
            anchor: None,
            txid: 100 + id,
            unsat: if state != 4 && r.chance(1, 2) { Some((*r.pick(pool), *r.pick(&UKINDS))) } else { None },
            fail: if state == 2 && r.chance(1, 2) { Some(*r.pick(pool)) } else { None },
            state,
            mined_h: *r.pick(pool),
            nf: None,
        });
    }
    build_state(status, &txs, &[100_000], 20, 144)
}

fn wallet_rewind_stream(r: &mut Rng, nwallets: usize, tables: &Vec<String>, stats: &mut Stats) {
    use zcash_client_backend::data_api::chain::ChainState;
    use zcash_client_backend::data_api::testing::{orchard::OrchardPoolTester, pool::ShieldedPoolTester, AddressType};
    use zcash_client_backend::data_api::{Account, WalletRead, WalletWrite};
    use zcash_protocol::consensus::{NetworkUpgrade, Parameters};
    for w in 0..nwallets {
        let mut st = TestBuilder::new()
            .with_data_store_factory(TestDbFactory::default())
            .with_block_cache(BlockCache::new())
            .with_account_from_sapling_activation(BlockHash([0; 32]))
            .build();
        let account = st.test_account().cloned().expect("test account").id();
        let net = *st.network();
        let sapling = u32::from(net.activation_height(NetworkUpgrade::Sapling).expect("sapling"));
        let other_fvk = OrchardPoolTester::sk_to_fvk(&OrchardPoolTester::sk(&[1u8; 32]));
        let first = 8u32;
        for _ in 0..first {
            st.generate_next_block(&other_fvk, AddressType::DefaultExternal, Zatoshis::const_from_u64(10_000));
        }
        st.scan_cached_blocks(h(sapling), first as usize);
        let t = sapling + first - 1; // the deep rewind target
        let extra = PRUNING_DEPTH + 10;
        for _ in 0..extra {
            st.generate_next_block(&other_fvk, AddressType::DefaultExternal, Zatoshis::const_from_u64(5_000));
        }
        st.scan_cached_blocks(h(t + 1), extra as usize);
        let tip = u32::from(st.wallet().chain_height().unwrap().unwrap());
        let p = tip - (PRUNING_DEPTH - 1);

        // three operations per wallet: a shallow truncation, the deep rewind, a shallow truncation
        for op in 0..3 {
            let cur_tip = u32::from(st.wallet().block_max_scanned().unwrap().map(|m| m.block_height()).unwrap_or(h(t)));
            let p = cur_tip - (PRUNING_DEPTH - 1); // the pruning floor as of the CURRENT tip
            let (req, pool): (u32, Vec<u32>) = match op {
                1 => (t, vec![t - 2, t - 1, t, t + 1, t + 5, p - 1, p, p + 1, p + 3, cur_tip]),
                _ => {
                    let k = r.range(1, 12) as u32;
                    let q = cur_tip - k;
                    (q, vec![q - 3, q - 1, q, q + 1, q + 2, cur_tip, cur_tip - 20])
                }
            };
            // with a settled history record in front of the pending one, half of the time
            let with_history = r.bool();
            // the settled record's transactions sit in blocks the wallet KEEPS (a Complete record
            // un-mined while a newer migration is pending is the store's documented "sharp edge":
            // the truncation then fails on the one-pending-per-account index, by design)
            let kept_bound = if op == 1 { std::cmp::max(t, std::cmp::min(t + 5, p.saturating_sub(3))) } else { req }; // the achieved height of a deep rewind is the nearest retained checkpoint, a little below p
            let kept: Vec<u32> = pool.iter().copied().filter(|x| *x <= kept_bound).collect();
            let history = rewind_state(r, &kept, MigrationStatus::Complete, true);
            let status = *r.pick(&[MigrationStatus::InProgress, MigrationStatus::InProgress, MigrationStatus::Committed, MigrationStatus::Complete]);
            let latest = rewind_state(r, &pool, status, status == MigrationStatus::Complete);
            // a fresh account history per operation (harness housekeeping: records of earlier
            // operations would otherwise be revived by this one and collide with the pending one)
            for tb in [7usize, 2, 1, 6, 5, 4, 3, 0] {
                st.wallet_mut().conn_mut().execute(&format!("DELETE FROM {}", tables[tb]), []).expect("clear migration tables");
            }
            {
                let mut store = PoolMigrations::for_account(net, SystemClock, st.wallet_mut().conn_mut(), account).expect("store");
                if with_history {
                    store.replace_migration(&history).expect("persist history");
                }
                store.replace_migration(&latest).expect("persist latest");
            }
            let hist_id = {
                let store = PoolMigrations::for_account(net, SystemClock, st.wallet_mut().conn_mut(), account).expect("store");
                let l = store.list_migrations().expect("list");
                if with_history { Some(l[1].id()) } else { None }
            };
            let latest_id = {
                let store = PoolMigrations::for_account(net, SystemClock, st.wallet_mut().conn_mut(), account).expect("store");
                store.list_migrations().expect("list")[0].id()
            };
            let res: Result<u32, String> = if op == 1 {
                st.wallet_mut()
                    .rewind_to_chain_state(ChainState::empty(h(req), BlockHash([0; 32])), std::collections::HashSet::new())
                    .map_err(|e| format!("{:?}", e))
                    .map(|_| u32::from(st.wallet().block_max_scanned().unwrap().map(|m| m.block_height()).unwrap_or(h(req))))
            } else {
                st.wallet_mut().truncate_to_height(h(req)).map(u32::from).map_err(|e| format!("{:?}", e))
            };
            let name = if op == 1 { "wallet_deep_rewind" } else { "wallet_truncate" };
            *stats.events.entry(name).or_default() += 1;
            let store = PoolMigrations::for_account(net, SystemClock, st.wallet_mut().conn_mut(), account).expect("store");
            match res {
                Ok(achieved) => {
                    let after_latest = store.get_migration_by_id(latest_id).expect("reload").expect("latest present");
                    emit(&p_state(&latest), format!("(EWalletRewind {} {})", req, achieved), &after_latest, "OUnit".into(), None);
                    if let Some(hid) = hist_id {
                        let after_hist = store.get_migration_by_id(hid).expect("reload").expect("history present");
                        emit(&p_state(&history), format!("(EWalletRewind {} {})", req, achieved), &after_hist, "OUnit".into(), None);
                    }
                    if op == 1 {
                        stats.deep_rewinds.push((req, achieved, tip));
                    }
                }
                Err(e) if e.contains("RequestedRewindInvalid") => {
                    // the wallet refused the requested height (nothing was rolled back): not a case
                    *stats.events.entry("wallet_truncate_refused").or_default() += 1;
                }
                Err(e) => {
                    eprintln!("wallet rewind failed (wallet {}, op {}): {} history={} latest={} hist={}", w, op, e, with_history, p_state(&latest), p_state(&history));
                    emit(&p_state(&latest), format!("(EWalletRewind {} {})", req, req), &latest, "ORewindFailed".into(), None);
                }
            }
        }
    }
}

fn main() {
    let a = args();
    quiet_panics();
    let mut stats = Stats::default();
    let mut r = Rng::new(a.seed, 18);
    // table names: regenerated from orchard_ironwood.rs by vlib/props/c18.py and passed in; the
    // built-in names are only a fallback for manual runs
    let tables: Vec<String> = {
        let mut t: Vec<String> = ["s", "_transactions", "_transaction_deps", "_crossing_values", "_prep_inputs", "_prep_outputs", "_prep_direct_funding", "_spend_nullifiers"]
            .iter()
            .map(|x| format!("orchard_ironwood_migration{}", x))
            .collect();
        if let Some(i) = a.rest.iter().position(|x| x == "--tables") {
            let v: Vec<String> = a.rest[i + 1].split(',').map(|x| x.to_string()).collect();
            assert_eq!(v.len(), 8, "--tables needs 8 names");
            t = v;
        }
        t
    };
    let nseq = a.budget(800, 6000);
    let nseq = if a.search { nseq * 2 } else { nseq };
    let persist_every = 5;

    witnesses(&mut stats);
    lattices(&mut stats);
    sweep_lattice(&mut stats);
    chain_lattice(&mut stats);
    {
        let mut rw = Rng::new(a.seed, 181);
        let n = if a.thorough() || a.search { 30 } else { 8 };
        wallet_rewind_stream(&mut rw, n, &tables, &mut stats);
    }
    let rbctx = RbCtx::new(7);
    for i in 0..nseq {
        let persisted = i % persist_every == 0;
        let use_rb = i % 2 == 1;
        let (s, base) = if r.chance(1, 4) { gen_arb(&mut r, &mut stats) } else { gen_dag(&mut r, persisted, if use_rb { Some(&rbctx) } else { None }, &mut stats) };
        // the SQLite store returns rows in id order: persistence sequences use canonical order
        let s = if persisted {
            let mut txs: Vec<MigrationTransaction> = s.transactions().clone();
            txs.sort_by_key(|t| t.id());
            MigrationState::from_parts(s.status(), s.denominations().clone(), s.preparation().clone(), txs, s.anchor_bucket_interval(), s.replan_threshold())
        } else if r.chance(1, 4) && s.transactions().len() > 1 {
            // a random row order: dependents may precede their dependencies
            let mut txs: Vec<MigrationTransaction> = s.transactions().clone();
            for i in (1..txs.len()).rev() {
                let j = r.below(i as u64 + 1) as usize;
                txs.swap(i, j);
            }
            stats.shuffled += 1;
            MigrationState::from_parts(s.status(), s.denominations().clone(), s.preparation().clone(), txs, s.anchor_bucket_interval(), s.replan_threshold())
        } else {
            s
        };
        let len = r.range(6, 22) as usize;
        if persisted {
            // a fresh real SQLite wallet database with one account per persisted sequence
            let mut st = TestBuilder::new()
                .with_data_store_factory(TestDbFactory::default())
                .with_block_cache(BlockCache::new())
                .with_account_from_sapling_activation(BlockHash([0; 32]))
                .build();
            let account = {
                use zcash_client_backend::data_api::Account;
                st.test_account().cloned().expect("test account").id()
            };
            let net = *st.network();
            let _ = st.wallet_mut().conn_mut().execute_batch("PRAGMA synchronous = OFF; PRAGMA journal_mode = MEMORY;");
            let mut p = Persist { conn: st.wallet_mut().conn_mut(), account, net, tables: &tables, mem: MockBackend::new(vec![], 0) };
            run_sequence(&mut r, s, base, len, Some(&mut p), if use_rb { Some(&rbctx) } else { None }, &mut stats);
        } else {
            run_sequence(&mut r, s, base, len, None, if use_rb { Some(&rbctx) } else { None }, &mut stats);
        }
    }
    let j = |m: &BTreeMap<&'static str, u64>| -> String {
        format!("{{{}}}", m.iter().map(|(k, v)| format!("\"{}\":{}", k, v)).collect::<Vec<_>>().join(","))
    };
    stat(format!(
        "{{\"sequences\":{},\"states_dag\":{},\"states_crate_strategy\":{},\"events\":{},\"advance_steps\":{},\"advance_calls_that_shifted\":{},\"sqlite_roundtrips\":{},\"sqlite_roundtrip_failures\":{},\"rebuilds\":{},\"contract_breaking_events\":{},\"states_with_forward_dependencies\":{},\"states_with_shuffled_rows\":{},\"wallet_deep_rewinds_req_achieved_tip\":{},\"memory_backend_disagreements\":{},\"panics\":{},\"tx_count_hist\":{{{}}}}}",
        stats.seqs,
        stats.dag,
        stats.arb,
        j(&stats.events),
        j(&stats.steps),
        stats.shifts,
        stats.persisted,
        stats.rt_fail,
        j(&stats.rebuilds),
        stats.contract_breaking,
        stats.reversed,
        stats.shuffled,
        format!("[{}]", stats.deep_rewinds.iter().map(|(a, b, c)| format!("[{},{},{}]", a, b, c)).collect::<Vec<_>>().join(",")),
        stats.mem_disagree,
        stats.panics,
        stats.tx_counts.iter().map(|(k, v)| format!("\"{}\":{}", k, v)).collect::<Vec<_>>().join(",")
    ));
}
