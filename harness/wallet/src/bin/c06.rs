//! C06 — note commitment trees and witnesses agree with the chain.
//!
//! Streams:
//!  * pure: `AnchorRetention::{retains, retained_in_range}`, `batch_ensure_heights`,
//!    `ensure_checkpoints` on boundary lattices + random inputs (public functions);
//!  * mem: the tree stage of `put_blocks` composed from its public parts (`build_subtrees`,
//!    `checkpoint_positions`, `batch_ensure_heights`, `ensure_checkpoints`, `update_tree`) on
//!    in-memory `ShardTree`s with small checkpoint budgets / chunk sizes and a cheap hash;
//!  * wallet: the real SQLite wallet driven through `scan_cached_blocks` /
//!    `truncate_to_height` over generated chains (scans in any order and batching, rewinds,
//!    reorgs); after every operation the checkpoint ledger of the three pools is read back
//!    through `WalletCommitmentTrees`, and — independently of the model — every checkpoint's
//!    root and the witnesses of the wallet's unspent notes are compared with frontiers built
//!    from the chain's commitments.
use std::collections::{BTreeMap, BTreeSet};
use std::convert::Infallible;
use std::num::NonZeroU32;

use incrementalmerkletree::frontier::Frontier;
use incrementalmerkletree::{Hashable, Level, Position, Retention};
use rand_chacha::ChaChaRng;
use rand_core::{RngCore, SeedableRng};
use secrecy::SecretVec;
use shardtree::store::memory::MemoryShardStore;
use shardtree::store::{Checkpoint, ShardStore};
use shardtree::error::ShardTreeError;
use shardtree::ShardTree;
use vcommon::*;

use zcash_client_backend::data_api::anchor_retention::{AnchorRetention, AnchorRetentionInterval};
use zcash_client_backend::data_api::chain::{
    error::Error as ChainError, scan_cached_blocks, BlockSource, ChainState,
};
use zcash_client_backend::data_api::ll::wallet::{
    batch_ensure_heights, build_subtrees, checkpoint_positions, ensure_checkpoints, update_tree,
};
use zcash_client_backend::data_api::testing::{AddressType, DataStoreFactory, IronwoodFvk, TestFvk};
use zcash_client_backend::data_api::wallet::{input_selection::LockFilter, TargetHeight};
use zcash_client_backend::data_api::{
    AccountBirthday, InputSource, WalletCommitmentTrees, WalletRead, WalletWrite,
};
use zcash_client_backend::proto::compact_formats::{ChainMetadata, CompactBlock, CompactTx};
use zcash_client_sqlite::error::SqliteClientError;
use zcash_client_sqlite::testing::db::{TestDb, TestDbFactory};
use zcash_client_sqlite::AccountUuid;
use zcash_keys::keys::UnifiedSpendingKey;
use zcash_primitives::block::BlockHash;
use zcash_protocol::consensus::BlockHeight;
use zcash_protocol::local_consensus::LocalNetwork;
use zcash_protocol::value::Zatoshis;
use zcash_protocol::ShieldedPool;

const BASE: u32 = 100_000;
const PRUNING_DEPTH: u64 = 100;
const CHUNK: u64 = 1024;

// ------------------------------------------------------------------------------------------
// printers
// ------------------------------------------------------------------------------------------
fn zl(v: impl IntoIterator<Item = u64>) -> String {
    list(v.into_iter().map(|x| zu(x as u128)))
}
fn pol_s(from: u32, ivs: &[u32]) -> String {
    format!("(mkpol {} {})", from, zl(ivs.iter().map(|x| *x as u64)))
}
fn opol_s(p: &Option<(u32, Vec<u32>)>) -> String {
    match p {
        Some((f, iv)) => format!("(Some {})", pol_s(*f, iv)),
        None => "None".into(),
    }
}
fn opos(p: Option<u64>) -> String {
    opt(p.map(|x| zu(x as u128)))
}
type Ledger = (Vec<(u32, Option<u64>)>, Vec<u32>);
fn ledger_s(l: &Ledger) -> String {
    format!(
        "(mkp {} {})",
        list(l.0.iter().map(|(h, p)| pair(zu(*h as u128), opos(*p)))),
        zl(l.1.iter().map(|x| *x as u64))
    )
}
fn w3_s(w: &[Ledger; 3]) -> String {
    format!("({}, {}, {})", ledger_s(&w[0]), ledger_s(&w[1]), ledger_s(&w[2]))
}
fn mk_policy(from: u32, ivs: &[u32]) -> AnchorRetention {
    AnchorRetention::union(
        BlockHeight::from_u32(from),
        ivs.iter().map(|i| AnchorRetentionInterval::custom(NonZeroU32::new(*i).unwrap())),
    )
    .expect("non-empty")
}
fn hs(v: &[u32]) -> BTreeSet<BlockHeight> {
    v.iter().map(|h| BlockHeight::from_u32(*h)).collect()
}
fn unhs(s: &BTreeSet<BlockHeight>) -> Vec<u64> {
    s.iter().map(|h| u32::from(*h) as u64).collect()
}

// ------------------------------------------------------------------------------------------
// pure stream
// ------------------------------------------------------------------------------------------
#[derive(Default)]
struct Stats {
    n: BTreeMap<&'static str, u64>,
}
impl Stats {
    fn bump(&mut self, k: &'static str) {
        *self.n.entry(k).or_insert(0) += 1;
    }
    fn add(&mut self, k: &'static str, v: u64) {
        *self.n.entry(k).or_insert(0) += v;
    }
}

const U32M: u32 = u32::MAX;

fn rand_height(r: &mut Rng) -> u32 {
    match r.below(10) {
        0 => U32M - r.below(300) as u32,
        1 => r.below(300) as u32,
        2 => (1u32 << 31).wrapping_add(r.below(1000) as u32).wrapping_sub(500),
        3 | 4 => BASE + r.below(2000) as u32,
        _ => r.below(3_000_000) as u32,
    }
}
fn rand_iv(r: &mut Rng) -> u32 {
    match r.below(10) {
        0 => 1,
        1 => U32M - r.below(3) as u32,
        2 => (1u32 << 31) + r.below(3) as u32 - 1,
        3 => 144,
        4 => 1 + r.below(12) as u32,
        5 => 1 << r.below(32),
        _ => 1 + r.below(5000) as u32,
    }
}
fn rand_policy(r: &mut Rng) -> (u32, Vec<u32>) {
    let n = 1 + r.below(3) as usize;
    let mut ivs: Vec<u32> = (0..n).map(|_| rand_iv(r)).collect();
    ivs.sort();
    ivs.dedup();
    (rand_height(r), ivs)
}

fn emit_retains(p: &(u32, Vec<u32>), h: u32) {
    let pol = mk_policy(p.0, &p.1);
    let o = catch(|| pol.retains(BlockHeight::from_u32(h)));
    match o {
        Some(b) => case(format!("CRetains {} {} {}", pol_s(p.0, &p.1), h, boolc(b))),
        None => case(format!("CRetains {} {} false (* PANIC *)", pol_s(p.0, &p.1), h)),
    }
}
/// number of boundaries the call will enumerate (to keep the cases small)
fn range_cost(p: &(u32, Vec<u32>), a: u32, b: u32) -> u64 {
    let lo = a.max(p.0) as u64;
    if (b as u64) < lo {
        return 0;
    }
    p.1.iter().map(|iv| (b as u64 - lo) / (*iv as u64) + 1).sum()
}
fn emit_range(p: &(u32, Vec<u32>), a: u32, b: u32, st: &mut Stats) {
    if range_cost(p, a, b) > 400 {
        st.bump("range_skipped_too_large");
        return;
    }
    let pol = mk_policy(p.0, &p.1);
    let o = catch(|| pol.retained_in_range(BlockHeight::from_u32(a)..=BlockHeight::from_u32(b)));
    let os = match o {
        Some(s) => {
            st.add("range_out_len", s.len() as u64);
            ok(zl(unhs(&s)))
        }
        None => {
            st.bump("range_panic");
            PANIC.into()
        }
    };
    case(format!("CRange {} {} {} {}", pol_s(p.0, &p.1), a, b, os));
}

fn pure_stream(r: &mut Rng, n: usize, st: &mut Stats) {
    // exhaustive lattice near the top and bottom of the height range
    let edge: Vec<u32> = vec![0, 1, 2, 143, 144, 145, U32M - 145, U32M - 144, U32M - 2, U32M - 1, U32M];
    let ivs: Vec<u32> = vec![1, 2, 3, 144, 1 << 31, U32M - 1, U32M];
    for iv in &ivs {
        for from in [0u32, 144, U32M - 144, U32M] {
            let p = (from, vec![*iv]);
            for h in &edge {
                emit_retains(&p, *h);
            }
            for a in &edge {
                for b in &edge {
                    emit_range(&p, *a, *b, st);
                }
            }
        }
    }
    for _ in 0..n {
        let p = rand_policy(r);
        let h = if r.chance(1, 2) {
            // on or next to a boundary
            let iv = *r.pick(&p.1) as u64;
            let k = r.below(((U32M as u64) / iv).min(1 << 20) + 1);
            ((k * iv) as i64 + r.below(3) as i64 - 1).clamp(0, U32M as i64) as u32
        } else {
            rand_height(r)
        };
        emit_retains(&p, h);
        // range: mostly short windows, sometimes inverted / at the edges
        let a = rand_height(r);
        let len = match r.below(6) {
            0 => 0,
            1 => r.below(5) as u32,
            2 => r.below(100_000) as u32,
            _ => r.below(300) as u32,
        };
        let b = if r.chance(1, 12) { a.saturating_sub(r.below(50) as u32) } else { a.saturating_add(len) };
        emit_range(&p, a, b, st);
    }
    // batch_ensure_heights
    for _ in 0..n / 2 {
        let lo = if r.chance(1, 8) { U32M - 400 } else { BASE + r.below(500) as u32 };
        let span = 1 + r.below(60) as u32;
        let mut sets: Vec<Vec<u32>> = vec![];
        for _ in 0..3 {
            let k = r.below(9);
            let mut v: Vec<u32> = (0..k).map(|_| lo.saturating_add(r.below(span as u64 + 4) as u32)).collect();
            v.sort();
            v.dedup();
            sets.push(v);
        }
        let pol: Option<(u32, Vec<u32>)> = if r.chance(1, 4) {
            None
        } else {
            let mut ivs: Vec<u32> = (0..1 + r.below(2)).map(|_| 1 + r.below(12) as u32).collect();
            ivs.sort();
            ivs.dedup();
            Some((lo.saturating_sub(5) + r.below(20) as u32, ivs))
        };
        let a = lo.saturating_add(r.below(5) as u32);
        let b = if r.chance(1, 15) { a.saturating_sub(1) } else { a.saturating_add(r.below(span as u64) as u32) };
        let polv = pol.as_ref().map(|(f, iv)| mk_policy(*f, iv));
        let o = catch(|| {
            batch_ensure_heights(&hs(&sets[0]), &hs(&sets[1]), &hs(&sets[2]), polv.as_ref(), BlockHeight::from_u32(a)..=BlockHeight::from_u32(b))
        });
        let os = match o {
            Some([x, y, z]) => ok(format!("({}, {}, {})", zl(unhs(&x)), zl(unhs(&y)), zl(unhs(&z)))),
            None => PANIC.into(),
        };
        case(format!(
            "CBatch {} {} {} {} {} {} {}",
            zl(sets[0].iter().map(|x| *x as u64)),
            zl(sets[1].iter().map(|x| *x as u64)),
            zl(sets[2].iter().map(|x| *x as u64)),
            opol_s(&pol),
            a,
            b,
            os
        ));
    }
    // ensure_checkpoints
    for _ in 0..n / 2 {
        let lo = BASE + r.below(100) as u32;
        let mut existing: BTreeMap<BlockHeight, Position> = BTreeMap::new();
        let fsize = if r.chance(1, 4) { 0 } else { r.below(5000) };
        let mut pos = fsize;
        for h in lo..lo + r.below(25) as u32 {
            if r.chance(1, 2) {
                pos += 1 + r.below(4);
                existing.insert(BlockHeight::from_u32(h), Position::from(pos - 1));
            }
        }
        let mut ens: Vec<u32> = (0..r.below(12)).map(|_| lo.saturating_sub(3) + r.below(32) as u32).collect();
        ens.sort();
        ens.dedup();
        let mut fr: Frontier<Cheap, 32> = Frontier::empty();
        for i in 0..fsize.min(40) {
            fr.append(Cheap(i + 1));
        }
        // a frontier of `fsize` leaves (only its position matters): build by position for large sizes
        let fr = if fsize > 40 { frontier_of_size(fsize) } else { fr };
        let ens_h = hs(&ens);
        let out = ensure_checkpoints(ens_h.iter(), &existing, &fr);
        case(format!(
            "CEnsure {} {} {} {}",
            zl(ens.iter().map(|x| *x as u64)),
            list(existing.iter().map(|(h, p)| pair(zu(u32::from(*h) as u128), zu(u64::from(*p) as u128)))),
            fsize,
            list(out.iter().map(|(h, c)| pair(zu(u32::from(*h) as u128), opos(c.position().map(u64::from)))))
        ));
    }
}

// ------------------------------------------------------------------------------------------
// mem stream: the tree stage on in-memory ShardTrees with a cheap hash
// ------------------------------------------------------------------------------------------
#[derive(Clone, Copy, Debug, PartialEq, Eq)]
struct Cheap(u64);
fn mix(a: u64, b: u64, l: u64) -> u64 {
    let mut x = a.wrapping_mul(0x9e37_79b9_7f4a_7c15) ^ b.rotate_left(29) ^ l.wrapping_mul(0xbf58_476d_1ce4_e5b9);
    x ^= x >> 31;
    x = x.wrapping_mul(0x94d0_49bb_1331_11eb);
    x ^ (x >> 29)
}
impl Hashable for Cheap {
    fn empty_leaf() -> Self {
        Cheap(0)
    }
    fn combine(level: Level, a: &Self, b: &Self) -> Self {
        Cheap(mix(a.0, b.0, u8::from(level) as u64 + 1))
    }
}
fn frontier_of_size(n: u64) -> Frontier<Cheap, 32> {
    // leaves are Cheap(i+1); build the frontier directly from its ommers
    let mut f: Frontier<Cheap, 32> = Frontier::empty();
    // appending n leaves is O(n); n is at most a few thousand here
    for i in 0..n {
        f.append(Cheap(i + 1));
    }
    f
}

const MD: u8 = 32;
const MSH: u8 = 4;
type MemTree = ShardTree<MemoryShardStore<Cheap, BlockHeight>, MD, MSH>;

fn mem_ledger(t: &MemTree) -> Ledger {
    let n = t.store().checkpoint_count().unwrap();
    let mut v = vec![];
    t.store()
        .for_each_checkpoint(n, |id, c: &Checkpoint| {
            v.push((u32::from(*id), c.position().map(u64::from)));
            Ok(())
        })
        .unwrap();
    v.sort();
    let r: Vec<u32> = t.store().retained_checkpoints().unwrap().iter().map(|h| u32::from(*h)).collect();
    (v, r)
}

/// A chain for the mem stream: per height the number of leaves of each pool.
struct MemChain {
    cnts: Vec<[u64; 3]>, // block BASE + i
}
impl MemChain {
    fn size_at(&self, pool: usize, h: u32) -> u64 {
        // size after block h (h = BASE - 1 -> 0)
        if h < BASE {
            return 0;
        }
        self.cnts[..=((h - BASE) as usize).min(self.cnts.len() - 1)].iter().map(|c| c[pool]).sum()
    }
    fn tip(&self) -> u32 {
        BASE + self.cnts.len() as u32 - 1
    }
}
fn leaf(pool: usize, fork: u64, pos: u64) -> Cheap {
    Cheap(mix(pos + 1, pool as u64 + 7 + 1000 * fork, 99) | 1)
}
fn truth_s(heights: &BTreeSet<u32>, size_at: &dyn Fn(usize, u32) -> Option<u64>) -> String {
    list(heights.iter().filter_map(|h| {
        let a = size_at(0, *h)?;
        let b = size_at(1, *h)?;
        let c = size_at(2, *h)?;
        Some(format!("({}, ({}, {}, {}))", h, a, b, c))
    }))
}

fn mem_stream(r: &mut Rng, nhist: usize, st: &mut Stats) {
    for hi in 0..nhist {
        let budget = *r.pick(&[1u64, 2, 3, 5, 8, 20]);
        let chunk = *r.pick(&[1u64, 2, 3, 7, 16, 64]);
        let pol: Option<(u32, Vec<u32>)> = match r.below(5) {
            0 => None,
            1 => Some((BASE + r.below(30) as u32, vec![1 + r.below(6) as u32])),
            2 => Some((BASE, vec![2 + r.below(4) as u32, 3 + r.below(7) as u32])),
            _ => Some((BASE, vec![2 + r.below(9) as u32])),
        };
        let mut pol = pol;
        if let Some((_, iv)) = pol.as_mut() {
            iv.sort();
            iv.dedup();
        }
        let polv = pol.as_ref().map(|(f, iv)| mk_policy(*f, iv));
        let profile = r.below(5); // 0: all pools busy, 1: ironwood empty, 2: sparse, 3: sapling only, 4: mixed bursts
        let nblocks = 20 + r.below(60) as usize;
        let mut chain = MemChain { cnts: vec![] };
        for _ in 0..nblocks {
            let mut c = [0u64; 3];
            for p in 0..3 {
                let on = match profile {
                    0 => r.chance(3, 4),
                    1 => p != 2 && r.chance(1, 2),
                    2 => r.chance(1, 6),
                    3 => p == 0 && r.chance(2, 3),
                    _ => r.chance(1, 3),
                };
                if on {
                    c[p] = if r.chance(1, 10) { 1 + r.below(40) } else { 1 + r.below(3) };
                }
            }
            chain.cnts.push(c);
        }
        let mut trees: Vec<MemTree> = (0..3).map(|_| ShardTree::new(MemoryShardStore::empty(), budget as usize)).collect();
        let nops = 6 + r.below(10);
        let mut scanned_max = BASE - 1;
        for _ in 0..nops {
            // choose a range
            let tip = chain.tip();
            let from = if r.chance(3, 5) && scanned_max < tip { scanned_max + 1 } else { BASE + r.below((tip - BASE + 1) as u64) as u32 };
            let lmax = if r.chance(1, 4) { 40 } else { 8 };
            let len = (1 + r.below(lmax)) as u32;
            let to = (from + len - 1).min(tip);
            let f = from - 1;
            let pre: [Ledger; 3] = [mem_ledger(&trees[0]), mem_ledger(&trees[1]), mem_ledger(&trees[2])];
            // commitments per pool
            let mut coms: Vec<Vec<Option<(Cheap, Retention<BlockHeight>)>>> = vec![vec![], vec![], vec![]];
            let mut fsz = [0u64; 3];
            for p in 0..3 {
                fsz[p] = chain.size_at(p, f);
                let mut pos = fsz[p];
                for h in from..=to {
                    let c = chain.cnts[(h - BASE) as usize][p];
                    for j in 0..c {
                        let ret = if j + 1 == c {
                            Retention::Checkpoint { id: BlockHeight::from_u32(h), marking: incrementalmerkletree::Marking::None }
                        } else if r.chance(1, 8) {
                            Retention::Marked
                        } else {
                            Retention::Ephemeral
                        };
                        coms[p].push(Some((leaf(p, 0, pos), ret)));
                        pos += 1;
                    }
                }
            }
            let frontiers: Vec<Frontier<Cheap, MD>> = (0..3)
                .map(|p| {
                    let mut fr = Frontier::empty();
                    for i in 0..fsz[p] {
                        fr.append(leaf(p, 0, i));
                    }
                    fr
                })
                .collect();
            let subs: Vec<_> = (0..3)
                .map(|p| build_subtrees::<Cheap, MSH>(Position::from(fsz[p]), &mut coms[p], chunk as usize))
                .collect();
            let cps: Vec<BTreeMap<BlockHeight, Position>> = subs.iter().map(|s| checkpoint_positions(s)).collect();
            let ens = batch_ensure_heights(
                &cps[0].keys().copied().collect(),
                &cps[1].keys().copied().collect(),
                &cps[2].keys().copied().collect(),
                polv.as_ref(),
                BlockHeight::from_u32(from)..=BlockHeight::from_u32(to),
            );
            let missing: Vec<Vec<(BlockHeight, Checkpoint)>> =
                (0..3).map(|p| ensure_checkpoints(ens[p].iter(), &cps[p], &frontiers[p])).collect();
            // the database transaction: on error the pre-state is restored
            let mut res: Result<(), String> = Ok(());
            let mut subs = subs;
            let mut missing = missing;
            for p in 0..3 {
                let s = std::mem::take(&mut subs[p]);
                let m = std::mem::take(&mut missing[p]);
                let out = catch(|| {
                    update_tree("mem", &frontiers[p], BlockHeight::from_u32(f), &mut trees[p], polv.as_ref(), s.into_iter(), m.into_iter())
                });
                match out {
                    None => {
                        res = Err("PANIC".into());
                        break;
                    }
                    Some(Err(e)) => {
                        res = Err(format!("{e:?}"));
                        break;
                    }
                    Some(Ok(())) => {}
                }
            }
            let post: [Ledger; 3] = [mem_ledger(&trees[0]), mem_ledger(&trees[1]), mem_ledger(&trees[2])];
            // independent Merkle check: root at every checkpoint of every pool
            let mut roots_ok = true;
            for p in 0..3 {
                for (h, pos) in &post[p].0 {
                    let want = {
                        let mut fr: Frontier<Cheap, MD> = Frontier::empty();
                        for i in 0..chain.size_at(p, *h) {
                            fr.append(leaf(p, 0, i));
                        }
                        fr.root()
                    };
                    match trees[p].root_at_checkpoint_id(&BlockHeight::from_u32(*h)) {
                        Ok(Some(got)) => {
                            st.bump("mem_roots_checked");
                            if got != want {
                                roots_ok = false;
                            }
                        }
                        Ok(None) => roots_ok = false,
                        Err(_) => {
                            // a root may be uncomputable when leaves below were never inserted
                            // (out-of-order scan); not a wrong root
                            st.bump("mem_root_uncomputable");
                        }
                    }
                    let _ = pos;
                }
            }
            let heights: BTreeSet<u32> = post.iter().flat_map(|l| l.0.iter().map(|e| e.0)).collect();
            let sz = |p: usize, h: u32| -> Option<u64> { if h + 1 >= BASE && h <= chain.tip() { Some(chain.size_at(p, h)) } else { None } };
            let res_s = match &res {
                Ok(()) => "(Ok tt)".to_string(),
                Err(e) if e == "PANIC" => PANIC.to_string(),
                Err(e) if e.contains("Conflict") => err("EConflict"),
                Err(_) => err("EOtherErr"),
            };
            if res.is_err() {
                st.bump("mem_put_err");
                // an in-memory store has no transaction: stop this history (state is partial)
                let _ = hi;
                break;
            }
            let mkb = |p: usize| format!("(mkb {} {})", fsz[p], zl((from..=to).map(|h| chain.cnts[(h - BASE) as usize][p])));
            let bs = format!("({}, {}, {})", mkb(0), mkb(1), mkb(2));
            case(format!(
                "CPut false {} {} {} {} {} {} {} {} {} {} true false {}",
                budget, chunk, w3_s(&pre), opol_s(&pol), f, bs, res_s, w3_s(&post), truth_s(&heights, &sz), boolc(roots_ok), boolc(roots_ok)
            ));
            st.bump("mem_put");
            scanned_max = scanned_max.max(to);
        }
    }
}

// ------------------------------------------------------------------------------------------
// wallet stream
// ------------------------------------------------------------------------------------------
/// Sapling .. NU6.2 activate at BASE (the wallet birthday), NU6.3 (Ironwood, anchor retention) at `act`.
fn network(act: u32) -> LocalNetwork {
    let a = Some(BlockHeight::from_u32(BASE));
    LocalNetwork { overwinter: Some(BlockHeight::from_u32(1)), sapling: a, blossom: a, heartwood: a, canopy: a, nu5: a, nu6: a, nu6_1: a, nu6_2: a, nu6_3: Some(BlockHeight::from_u32(act)) }
}

#[derive(Clone)]
struct Blk {
    cb: CompactBlock,
    after: ChainState,
}
struct MemSource<'a>(&'a [Blk]);
impl<'a> BlockSource for MemSource<'a> {
    type Error = Infallible;
    fn with_blocks<F, W>(&self, from_height: Option<BlockHeight>, limit: Option<usize>, mut with_block: F) -> Result<(), ChainError<W, Infallible>>
    where
        F: FnMut(CompactBlock) -> Result<(), ChainError<W, Infallible>>,
    {
        let from = from_height.map(u32::from).unwrap_or(0);
        let mut n = 0usize;
        for b in self.0.iter() {
            if (b.cb.height as u32) < from {
                continue;
            }
            if let Some(l) = limit {
                if n >= l {
                    break;
                }
            }
            with_block(b.cb.clone())?;
            n += 1;
        }
        Ok(())
    }
}

struct World {
    db: TestDb,
    net: LocalNetwork,
    acct: AccountUuid,
    sap: sapling::zip32::DiversifiableFullViewingKey,
    orc: orchard::keys::FullViewingKey,
    fsap: sapling::zip32::DiversifiableFullViewingKey,
    forc: orchard::keys::FullViewingKey,
    chain: Vec<Blk>,
    genesis: ChainState,
    rng: ChaChaRng,
    /// per pool: the position ranges (start, end) of the ommers (level >= 1) of every frontier the
    /// wallet inserted; a detailed node covering such a range carries a cached hash afterwards
    annot: [Vec<(u64, u64)>; 3],
    /// a rewind went to a position strictly inside a completed subtree that an earlier frontier
    /// insertion had covered with one of its ommers (level >= 1)
    hazard: [bool; 3],
    /// tree sizes of the birthday frontier (leaves the wallet never sees)
    gsize: [u64; 3],
    /// NU6.3 activation height (ground truth of the retention policy's floor)
    act: u32,
    /// txids of transactions with an output to the wallet, and such transactions dropped by a fork
    own_txids: BTreeSet<Vec<u8>>,
    orphan_txs: Vec<CompactTx>,
    /// rows of `orchard_ironwood_migrations`: (anchor bucket interval, non-terminal?)
    migrations: Vec<(u32, bool)>,
}
/// `p` lies inside, and is not the last position of, the ommer of the frontier at `q` that covers it
fn inside_ommer(p: u64, q: u64) -> bool {
    if q <= p {
        return false;
    }
    let l = 63 - (p ^ q).leading_zeros() as u64; // highest differing bit
    l >= 1 && (p & ((1u64 << l) - 1)) != (1u64 << l) - 1
}
/// A frontier with `size` leaves whose leaf and ommers are arbitrary field elements.
fn random_frontier<H: Hashable + Clone, const D: u8>(size: u64, rng: &mut ChaChaRng, mk: impl Fn([u8; 32]) -> H) -> Frontier<H, D> {
    if size == 0 {
        return Frontier::empty();
    }
    let mut node = |rng: &mut ChaChaRng| {
        let mut b = [0u8; 32];
        rng.fill_bytes(&mut b[..24]);
        mk(b)
    };
    let pos = size - 1;
    let leaf = node(rng);
    let ommers: Vec<H> = (0..pos.count_ones()).map(|_| node(rng)).collect();
    Frontier::from_parts(Position::from(pos), leaf, ommers).expect("frontier")
}
fn seed32(rng: &mut ChaChaRng) -> [u8; 32] {
    let mut b = [0u8; 32];
    rng.fill_bytes(&mut b);
    b
}
impl World {
    fn new(rng: ChaChaRng, iv: u32) -> World {
        World::with_birthday(rng, iv, [0; 3])
    }
    /// A wallet whose birthday frontier already holds `gsize[p]` (unknown, random) leaves in pool p.
    fn with_birthday(rng: ChaChaRng, iv: u32, gsize: [u64; 3]) -> World {
        World::with_params(rng, iv, gsize, BASE)
    }
    /// ... and NU6.3 activating at height `act` >= BASE.
    fn with_params(mut rng: ChaChaRng, iv: u32, gsize: [u64; 3], act: u32) -> World {
        let net = network(act);
        let mut db = TestDbFactory::default()
            .new_data_store(net, Some(AnchorRetentionInterval::custom(NonZeroU32::new(iv).unwrap())), None)
            .expect("data store");
        let genesis = ChainState::new(
            BlockHeight::from_u32(BASE - 1),
            BlockHash([0; 32]),
            random_frontier(gsize[0], &mut rng, |b| Option::from(sapling::Node::from_bytes(b)).unwrap()),
            random_frontier(gsize[1], &mut rng, |b| Option::from(orchard::tree::MerkleHashOrchard::from_bytes(&b)).unwrap()),
            random_frontier(gsize[2], &mut rng, |b| Option::from(orchard::tree::MerkleHashOrchard::from_bytes(&b)).unwrap()),
        );
        let birthday = AccountBirthday::from_parts(genesis.clone(), None);
        let seed = SecretVec::new(seed32(&mut rng).to_vec());
        let (acct, usk) = db.create_account("a", &seed, &birthday, None).expect("account");
        let ufvk = usk.to_unified_full_viewing_key();
        let fusk = UnifiedSpendingKey::from_seed(&net, &seed32(&mut rng), zip32::AccountId::ZERO).expect("usk");
        let fufvk = fusk.to_unified_full_viewing_key();
        World {
            db,
            net,
            acct,
            sap: ufvk.sapling().unwrap().clone(),
            orc: ufvk.orchard().unwrap().clone(),
            fsap: fufvk.sapling().unwrap().clone(),
            forc: fufvk.orchard().unwrap().clone(),
            chain: vec![],
            genesis,
            rng,
            annot: [vec![], vec![], vec![]],
            hazard: [false; 3],
            gsize,
            act,
            own_txids: BTreeSet::new(),
            orphan_txs: vec![],
            migrations: vec![],
        }
    }
    fn tip(&self) -> u32 {
        BASE + self.chain.len() as u32 - 1
    }
    /// Records a pool migration committed under the grid `interval` in the wallet database
    /// (`status` is a MigrationStatus wire name; at most one non-terminal row per account).
    fn add_migration(&mut self, interval: u32, status: &str) {
        let live = !matches!(status, "complete" | "failed" | "superseded" | "cancelled");
        self.db
            .conn()
            .execute(
                "INSERT INTO orchard_ironwood_migrations
                   (account_id, status, note_split_fee_buffer, note_split_prep_fees, note_split_total_input,
                    note_split_total_migratable, anchor_bucket_interval, uuid)
                 VALUES ((SELECT id FROM accounts LIMIT 1), ?1, 0, 0, 0, 0, ?2, randomblob(16))",
                rusqlite::params![status, interval],
            )
            .expect("insert migration row");
        self.migrations.push((interval, live));
    }
    /// The in-flight migration (if any) reaches a terminal status.
    fn finish_migration(&mut self, status: &str) {
        let n = self
            .db
            .conn()
            .execute(
                "UPDATE orchard_ironwood_migrations SET status = ?1
                 WHERE status NOT IN ('complete', 'failed', 'superseded', 'cancelled')",
                rusqlite::params![status],
            )
            .expect("update migration row");
        if n > 0 {
            for m in self.migrations.iter_mut() {
                m.1 = false;
            }
        }
    }
    /// a frontier at position `q` was inserted into pool `p`
    fn note_frontier(&mut self, p: usize, q: u64) {
        for l in 1..63u64 {
            if (q >> l) & 1 == 1 {
                let start = (q >> (l + 1)) << (l + 1);
                let r = (start, start + (1u64 << l) - 1);
                if !self.annot[p].contains(&r) {
                    self.annot[p].push(r);
                }
            }
        }
    }
    /// pool `p` was physically truncated to position `pos`; true = the cut went strictly inside an
    /// annotated range (C06-F2 hazard)
    fn note_truncation(&mut self, p: usize, pos: u64) -> bool {
        let hz = self.annot[p].iter().any(|(s, e)| *s <= pos && pos < *e);
        self.annot[p].retain(|(s, _)| *s <= pos);
        if hz {
            self.hazard[p] = true;
        }
        hz
    }
    fn state_after(&self, h: u32) -> Option<&ChainState> {
        if h + 1 == BASE {
            Some(&self.genesis)
        } else if h >= BASE {
            self.chain.get((h - BASE) as usize).map(|b| &b.after)
        } else {
            None
        }
    }
    fn sizes(&self, h: u32) -> Option<[u64; 3]> {
        self.state_after(h).map(|s| [s.final_sapling_tree().tree_size(), s.final_orchard_tree().tree_size(), s.final_ironwood_tree().tree_size()])
    }
    /// outs: (pool, owned by the wallet)
    fn push_block(&mut self, outs: &[(usize, bool)]) {
        self.push_block_ex(outs, vec![])
    }
    /// ... followed by re-mined transactions (same txid, same outputs) from an abandoned fork
    fn push_block_ex(&mut self, outs: &[(usize, bool)], remined: Vec<CompactTx>) {
        let h = BASE + self.chain.len() as u32;
        // no Ironwood output before NU6.3
        let outs: Vec<(usize, bool)> = outs.iter().map(|(p, o)| (if *p == 2 && h < self.act { 1 } else { *p }, *o)).collect();
        let outs = &outs[..];
        let height = BlockHeight::from_u32(h);
        let prev = self.state_after(h - 1).unwrap().clone();
        let sap_size = prev.final_sapling_tree().tree_size() as u32;
        let mut ctxs = vec![];
        if !outs.is_empty() {
            let mut ctx = CompactTx::default();
            ctx.txid = seed32(&mut self.rng).to_vec();
            ctx.index = 1;
            if outs.iter().any(|(_, own)| *own) {
                self.own_txids.insert(ctx.txid.clone());
            }
            for (pool, own) in outs {
                let v = Zatoshis::from_u64(10_000 + self.rng.next_u32() as u64 % 50_000).unwrap();
                let at = AddressType::DefaultExternal;
                match pool {
                    0 => {
                        let k = if *own { self.sap.clone() } else { self.fsap.clone() };
                        k.add_output(&mut ctx, &self.net, height, None, at, v, sap_size, &mut self.rng);
                    }
                    1 => {
                        let k = if *own { self.orc.clone() } else { self.forc.clone() };
                        k.add_output(&mut ctx, &self.net, height, None, at, v, sap_size, &mut self.rng);
                    }
                    _ => {
                        let k = IronwoodFvk(if *own { self.orc.clone() } else { self.forc.clone() });
                        k.add_output(&mut ctx, &self.net, height, None, at, v, sap_size, &mut self.rng);
                    }
                }
            }
            ctxs.push(ctx);
        }
        for (k, mut t) in remined.into_iter().enumerate() {
            t.index = 2 + k as u64;
            ctxs.push(t);
        }
        let hash = seed32(&mut self.rng);
        let mut sap = prev.final_sapling_tree().clone();
        let mut orch = prev.final_orchard_tree().clone();
        let mut iron = prev.final_ironwood_tree().clone();
        for ctx in &ctxs {
            for o in &ctx.outputs {
                sap.append(sapling::Node::from_cmu(&o.cmu().unwrap()));
            }
            for a in &ctx.actions {
                orch.append(orchard::tree::MerkleHashOrchard::from_cmx(&a.cmx().unwrap()));
            }
            for a in &ctx.ironwood_actions {
                iron.append(orchard::tree::MerkleHashOrchard::from_cmx(&a.cmx().unwrap()));
            }
        }
        let mut cb = CompactBlock { hash: hash.to_vec(), height: h as u64, ..Default::default() };
        cb.prev_hash = prev.block_hash().0.to_vec();
        cb.vtx = ctxs;
        cb.chain_metadata = Some(ChainMetadata {
            sapling_commitment_tree_size: sap.tree_size() as u32,
            orchard_commitment_tree_size: orch.tree_size() as u32,
            ironwood_commitment_tree_size: iron.tree_size() as u32,
        });
        let after = ChainState::new(height, BlockHash(hash), sap, orch, iron);
        self.chain.push(Blk { cb, after });
    }
    fn fork_at(&mut self, h: u32) {
        let keep = (h + 1 - BASE) as usize;
        if keep < self.chain.len() {
            for b in self.chain.drain(keep..) {
                for t in b.cb.vtx {
                    if self.own_txids.contains(&t.txid) {
                        self.orphan_txs.push(t);
                    }
                }
            }
        }
    }
    fn scan(&mut self, from: u32, limit: usize) -> Result<(), String> {
        let from_state = self.state_after(from - 1).unwrap().clone();
        let src = MemSource(&self.chain);
        let net = self.net;
        let db = &mut self.db;
        match catch(|| scan_cached_blocks(&net, &src, db, BlockHeight::from_u32(from), &from_state, limit)) {
            None => Err("PANIC".into()),
            Some(Ok(_)) => Ok(()),
            Some(Err(e)) => Err(format!("{e:?}")),
        }
    }
    fn truncate(&mut self, h: u32) -> Result<u32, String> {
        let db = &mut self.db;
        match catch(|| db.truncate_to_height(BlockHeight::from_u32(h))) {
            None => Err("PANIC".into()),
            Some(Ok(g)) => Ok(u32::from(g)),
            Some(Err(e)) => Err(match e {
                SqliteClientError::RequestedRewindInvalid { .. } => "RewindInvalid".to_string(),
                SqliteClientError::CorruptedData(s) => format!("Corrupted {s}"),
                e => format!("{e:?}"),
            }),
        }
    }
    fn leaves(&self) -> (Vec<sapling::Node>, Vec<orchard::tree::MerkleHashOrchard>, Vec<orchard::tree::MerkleHashOrchard>) {
        let (mut a, mut b, mut c) = (vec![], vec![], vec![]);
        for blk in &self.chain {
            for ctx in &blk.cb.vtx {
                for o in &ctx.outputs {
                    a.push(sapling::Node::from_cmu(&o.cmu().unwrap()));
                }
                for x in &ctx.actions {
                    b.push(orchard::tree::MerkleHashOrchard::from_cmx(&x.cmx().unwrap()));
                }
                for x in &ctx.ironwood_actions {
                    c.push(orchard::tree::MerkleHashOrchard::from_cmx(&x.cmx().unwrap()));
                }
            }
        }
        (a, b, c)
    }
}

type TErr = ShardTreeError<zcash_client_sqlite::wallet::commitment_tree::Error>;

fn read_pool<S, const D: u8, const SH: u8>(tree: &ShardTree<S, D, SH>) -> Result<Ledger, ShardTreeError<S::Error>>
where
    S: ShardStore<CheckpointId = BlockHeight>,
    S::H: Hashable + Clone + PartialEq,
{
    let n = tree.store().checkpoint_count().map_err(ShardTreeError::Storage)?;
    let mut v = vec![];
    tree.store()
        .for_each_checkpoint(n, |id, c: &Checkpoint| {
            v.push((u32::from(*id), c.position().map(u64::from)));
            Ok(())
        })
        .map_err(ShardTreeError::Storage)?;
    v.sort();
    let r: Vec<u32> = tree.store().retained_checkpoints().map_err(ShardTreeError::Storage)?.iter().map(|h| u32::from(*h)).collect();
    Ok((v, r))
}

fn read_ledger(db: &mut TestDb) -> [Ledger; 3] {
    let a = db.with_sapling_tree_mut::<_, _, TErr>(|t| read_pool(t)).expect("sapling ledger");
    let b = db.with_orchard_tree_mut::<_, _, TErr>(|t| read_pool(t)).expect("orchard ledger");
    let c = db.with_ironwood_tree_mut::<_, _, TErr>(|t| read_pool(t)).expect("ironwood ledger").expect("ironwood tree");
    [a, b, c]
}

/// roots of the given checkpoint heights, `None` = not computable / absent
fn pool_roots<S, const D: u8, const SH: u8>(tree: &ShardTree<S, D, SH>, hs: &[u32]) -> Vec<Result<Option<S::H>, String>>
where
    S: ShardStore<CheckpointId = BlockHeight>,
    S::H: Hashable + Clone + PartialEq,
    S::Error: std::fmt::Debug,
{
    hs.iter().map(|h| tree.root_at_checkpoint_id(&BlockHeight::from_u32(*h)).map_err(|e| format!("{e:?}"))).collect()
}

struct Merkle {
    roots: [bool; 3],
    wits: [bool; 3],
}
impl Merkle {
    fn roots_ok(&self) -> bool {
        self.roots.iter().all(|b| *b)
    }
    fn wit_ok(&self) -> bool {
        self.wits.iter().all(|b| *b)
    }
    /// roots and witnesses are fine in every pool that no hazardous rewind (C06-F2) touched
    fn clean_ok(&self, hazard: &[bool; 3]) -> bool {
        (0..3).all(|p| hazard[p] || (self.roots[p] && self.wits[p]))
    }
}

fn check_merkle(w: &mut World, led: &[Ledger; 3], which: &[Vec<u32>; 3], r: &mut Rng, st: &mut Stats) -> Merkle {
    let mut m = Merkle { roots: [true; 3], wits: [true; 3] };
    // roots
    let hs0 = which[0].clone();
    let got0 = w.db.with_sapling_tree_mut::<_, _, TErr>(|t| Ok(pool_roots(t, &hs0))).unwrap();
    for (h, g) in hs0.iter().zip(got0) {
        let want = w.state_after(*h).map(|s| s.final_sapling_tree().root());
        match (g, want) {
            (Ok(Some(g)), Some(wt)) => {
                st.bump("roots_checked");
                if g != wt {
                    m.roots[0] = false;
                    if std::env::var("C06_TRACE").is_ok() { eprintln!("  ROOT_MISMATCH at {h}"); }
                    st.bump("ROOT_MISMATCH");
                }
            }
            (Ok(None), _) | (_, None) => {
                m.roots[0] = false;
                st.bump("ROOT_ABSENT");
            }
            (Err(_), _) => st.bump("root_uncomputable"),
        }
    }
    let hs1 = which[1].clone();
    let got1 = w.db.with_orchard_tree_mut::<_, _, TErr>(|t| Ok(pool_roots(t, &hs1))).unwrap();
    for (h, g) in hs1.iter().zip(got1) {
        let want = w.state_after(*h).map(|s| s.final_orchard_tree().root());
        match (g, want) {
            (Ok(Some(g)), Some(wt)) => {
                st.bump("roots_checked");
                if g != wt {
                    m.roots[1] = false;
                    if std::env::var("C06_TRACE").is_ok() { eprintln!("  ROOT_MISMATCH at {h}"); }
                    st.bump("ROOT_MISMATCH");
                }
            }
            (Ok(None), _) | (_, None) => {
                m.roots[1] = false;
                st.bump("ROOT_ABSENT");
            }
            (Err(_), _) => st.bump("root_uncomputable"),
        }
    }
    let hs2 = which[2].clone();
    let got2 = w.db.with_ironwood_tree_mut::<_, _, TErr>(|t| Ok(pool_roots(t, &hs2))).unwrap().unwrap();
    for (h, g) in hs2.iter().zip(got2) {
        let want = w.state_after(*h).map(|s| s.final_ironwood_tree().root());
        match (g, want) {
            (Ok(Some(g)), Some(wt)) => {
                st.bump("roots_checked");
                if g != wt {
                    m.roots[2] = false;
                    if std::env::var("C06_TRACE").is_ok() { eprintln!("  ROOT_MISMATCH at {h}"); }
                    st.bump("ROOT_MISMATCH");
                }
            }
            (Ok(None), _) | (_, None) => {
                m.roots[2] = false;
                st.bump("ROOT_ABSENT");
            }
            (Err(_), _) => st.bump("root_uncomputable"),
        }
    }
    // witnesses of the notes the wallet reports as unspent and spendable
    let tip = match w.db.chain_height() {
        Ok(Some(t)) => u32::from(t),
        _ => return m,
    };
    let notes = match w.db.select_unspent_notes(
        w.acct,
        &[ShieldedPool::Sapling, ShieldedPool::Orchard, ShieldedPool::Ironwood],
        TargetHeight::from(BlockHeight::from_u32(tip + 1)),
        &[],
        LockFilter::Unfiltered,
    ) {
        Ok(n) => n,
        Err(_) => {
            st.bump("select_unspent_err");
            return m;
        }
    };
    let (ls, lo, li) = w.leaves();
    // Ground truth: every note is identified by ITS OWN commitment; its true position is where that
    // commitment sits in the current best chain, and a path is applied to that commitment.
    // (a note whose transaction is not mined -- e.g. un-mined by a rewind -- is not spendable)
    let sap_own: BTreeMap<u64, sapling::Node> = notes
        .sapling()
        .iter()
        .filter(|n| n.mined_height().is_some())
        .map(|n| (u64::from(n.note_commitment_tree_position()), sapling::Node::from_cmu(&n.note().cmu())))
        .collect();
    let mk_orch = |n: &orchard::Note| {
        let cmx: orchard::note::ExtractedNoteCommitment = n.commitment().into();
        orchard::tree::MerkleHashOrchard::from_cmx(&cmx)
    };
    let orc_own: BTreeMap<u64, orchard::tree::MerkleHashOrchard> =
        notes.orchard().iter().filter(|n| n.mined_height().is_some()).map(|n| (u64::from(n.note_commitment_tree_position()), mk_orch(n.note()))).collect();
    let iro_own: BTreeMap<u64, orchard::tree::MerkleHashOrchard> =
        notes.ironwood().iter().filter(|n| n.mined_height().is_some()).map(|n| (u64::from(n.note_commitment_tree_position()), mk_orch(n.note()))).collect();
    for (p, own) in &sap_own {
        match ls.iter().position(|l| l == own) {
            Some(i) if i as u64 + w.gsize[0] == *p => st.bump("positions_checked"),
            Some(_) => {
                m.wits[0] = false;
                st.bump("POSITION_MISMATCH");
            }
            None => {
                m.wits[0] = false;
                if trace() {
                    eprintln!("  SPENDABLE_NOTE_NOT_IN_CHAIN sapling pos {p} mined {:?}", notes.sapling().iter().find(|n| u64::from(n.note_commitment_tree_position()) == *p).map(|n| n.mined_height()));
                }
                st.bump("SPENDABLE_NOTE_NOT_IN_CHAIN");
            }
        }
    }
    for (pool, owns, leaves) in [(1usize, &orc_own, &lo), (2usize, &iro_own, &li)] {
        for (p, own) in owns.iter() {
            match leaves.iter().position(|l| l == own) {
                Some(i) if i as u64 + w.gsize[pool] == *p => st.bump("positions_checked"),
                Some(_) => {
                    m.wits[pool] = false;
                    st.bump("POSITION_MISMATCH");
                }
                None => {
                    m.wits[pool] = false;
                    st.bump("SPENDABLE_NOTE_NOT_IN_CHAIN");
                }
            }
        }
    }
    let sap: Vec<(u64, Option<u32>)> = notes.sapling().iter().filter(|n| n.mined_height().is_some()).map(|n| (u64::from(n.note_commitment_tree_position()), n.mined_height().map(u32::from))).collect();
    let orc: Vec<(u64, Option<u32>)> = notes.orchard().iter().filter(|n| n.mined_height().is_some()).map(|n| (u64::from(n.note_commitment_tree_position()), n.mined_height().map(u32::from))).collect();
    let iro: Vec<(u64, Option<u32>)> = notes.ironwood().iter().filter(|n| n.mined_height().is_some()).map(|n| (u64::from(n.note_commitment_tree_position()), n.mined_height().map(u32::from))).collect();
    st.add("unspent_notes", (sap.len() + orc.len() + iro.len()) as u64);
    // pick (note, checkpoint at or above its height) pairs: the newest checkpoint plus random ones
    let mut pick = |notes: &Vec<(u64, Option<u32>)>, cks: &Vec<(u32, Option<u64>)>, r: &mut Rng| -> Vec<(u64, u32)> {
        let mut v = vec![];
        // at most 6 notes per pool and operation: the two oldest, the two newest, two random
        let mut sel: Vec<&(u64, Option<u32>)> = vec![];
        if notes.len() <= 6 {
            sel.extend(notes.iter());
        } else {
            let mut sorted: Vec<&(u64, Option<u32>)> = notes.iter().collect();
            sorted.sort();
            sel.push(sorted[0]);
            sel.push(sorted[1]);
            sel.push(sorted[sorted.len() - 1]);
            sel.push(sorted[sorted.len() - 2]);
            sel.push(*r.pick(&sorted));
            sel.push(*r.pick(&sorted));
        }
        for (pos, mh) in sel {
            let ok: Vec<u32> = cks.iter().filter(|(h, p)| Some(*h) >= *mh && p.map_or(false, |p| p >= *pos)).map(|e| e.0).collect();
            if ok.is_empty() {
                continue;
            }
            v.push((*pos, *ok.last().unwrap()));
            v.push((*pos, ok[0]));
            v.push((*pos, *r.pick(&ok)));
        }
        v.sort();
        v.dedup();
        v
    };
    let ps = pick(&sap, &led[0].0, r);
    let res = w
        .db
        .with_sapling_tree_mut::<_, _, TErr>(|t| Ok(ps.iter().map(|(p, h)| t.witness_at_checkpoint_id(Position::from(*p), &BlockHeight::from_u32(*h)).map_err(|e| format!("{e:?}"))).collect::<Vec<_>>()))
        .unwrap();
    for ((p, h), wres) in ps.iter().zip(res) {
        match wres {
            Ok(Some(path)) => {
                st.bump("witnesses_checked");
                let want = w.state_after(*h).map(|s| s.final_sapling_tree().root());
                if Some(path.root(sap_own[p].clone())) != want {
                    m.wits[0] = false;
                    if std::env::var("C06_TRACE").is_ok() { eprintln!("  WITNESS_MISMATCH pos {p} at {h}"); }
                    st.bump("WITNESS_MISMATCH");
                }
            }
            Ok(None) => st.bump("witness_none"),
            Err(_) => st.bump("witness_uncomputable"),
        }
    }
    let po = pick(&orc, &led[1].0, r);
    let res = w
        .db
        .with_orchard_tree_mut::<_, _, TErr>(|t| Ok(po.iter().map(|(p, h)| t.witness_at_checkpoint_id(Position::from(*p), &BlockHeight::from_u32(*h)).map_err(|e| format!("{e:?}"))).collect::<Vec<_>>()))
        .unwrap();
    for ((p, h), wres) in po.iter().zip(res) {
        match wres {
            Ok(Some(path)) => {
                st.bump("witnesses_checked");
                let want = w.state_after(*h).map(|s| s.final_orchard_tree().root());
                if Some(path.root(orc_own[p])) != want {
                    m.wits[1] = false;
                    if std::env::var("C06_TRACE").is_ok() { eprintln!("  WITNESS_MISMATCH pos {p} at {h}"); }
                    st.bump("WITNESS_MISMATCH");
                }
            }
            Ok(None) => st.bump("witness_none"),
            Err(_) => st.bump("witness_uncomputable"),
        }
    }
    let pi = pick(&iro, &led[2].0, r);
    let res = w
        .db
        .with_ironwood_tree_mut::<_, _, TErr>(|t| Ok(pi.iter().map(|(p, h)| t.witness_at_checkpoint_id(Position::from(*p), &BlockHeight::from_u32(*h)).map_err(|e| format!("{e:?}"))).collect::<Vec<_>>()))
        .unwrap()
        .unwrap();
    for ((p, h), wres) in pi.iter().zip(res) {
        match wres {
            Ok(Some(path)) => {
                st.bump("witnesses_checked");
                let want = w.state_after(*h).map(|s| s.final_ironwood_tree().root());
                if Some(path.root(iro_own[p])) != want {
                    m.wits[2] = false;
                    if std::env::var("C06_TRACE").is_ok() { eprintln!("  WITNESS_MISMATCH pos {p} at {h}"); }
                    st.bump("WITNESS_MISMATCH");
                }
            }
            Ok(None) => st.bump("witness_none"),
            Err(_) => st.bump("witness_uncomputable"),
        }
    }
    m
}

/// heights whose roots are checked after an op: new / changed checkpoints plus a sample of old
fn which_roots(pre: &[Ledger; 3], post: &[Ledger; 3], full: bool, r: &mut Rng) -> [Vec<u32>; 3] {
    let mut out: [Vec<u32>; 3] = [vec![], vec![], vec![]];
    for p in 0..3 {
        let old: BTreeSet<(u32, Option<u64>)> = pre[p].0.iter().cloned().collect();
        for e in &post[p].0 {
            if full || !old.contains(e) {
                out[p].push(e.0);
            }
        }
        if !full && !post[p].0.is_empty() {
            for _ in 0..4 {
                out[p].push(r.pick(&post[p].0).0);
            }
            out[p].push(post[p].0[0].0);
        }
        out[p].sort();
        out[p].dedup();
    }
    out
}

fn gen_block(profile: u64, r: &mut Rng) -> Vec<(usize, bool)> {
    let mut v = vec![];
    let (p_empty, pools): (u64, &[usize]) = match profile {
        0 => (30, &[0, 1, 2]),
        1 => (40, &[0, 1]),    // ironwood stays empty
        2 => (85, &[0, 1, 2]), // sparse chain
        3 => (20, &[0]),       // sapling only
        _ => (10, &[1, 2]),    // sapling stays empty
    };
    if r.below(100) < p_empty {
        return v;
    }
    let n = 1 + r.below(3);
    for _ in 0..n {
        v.push((*r.pick(pools), r.chance(1, 4)));
    }
    v
}

fn blocks_and_minnotes(w: &World) -> (Vec<u32>, [Option<u32>; 3]) {
    let conn = w.db.conn();
    let mut blocks: Vec<u32> = vec![];
    {
        let mut s = conn.prepare("SELECT height FROM blocks ORDER BY height").unwrap();
        let mut rows = s.query([]).unwrap();
        while let Some(rw) = rows.next().unwrap() {
            blocks.push(rw.get(0).unwrap());
        }
    }
    let mut mn = [None; 3];
    for (i, p) in ["sapling", "orchard", "ironwood"].iter().enumerate() {
        mn[i] = conn
            .query_row(
                &format!(
                    "SELECT MIN(tx.mined_height) FROM {p}_received_notes rn JOIN transactions tx ON tx.id_tx = rn.transaction_id \
                     WHERE rn.commitment_tree_position IS NOT NULL AND tx.mined_height IS NOT NULL"
                ),
                [],
                |rw| rw.get::<_, Option<u32>>(0),
            )
            .unwrap();
    }
    (blocks, mn)
}

fn trace() -> bool {
    std::env::var("C06_TRACE").is_ok()
}

/// `WalletWrite::truncate_to_height(req)`, one CTrunc case. Returns the height truncated to.
fn emit_trunc(w: &mut World, req: u32, r: &mut Rng, st: &mut Stats) -> Option<u32> {
    let pre = read_ledger(&mut w.db);
    let (blocks, mn) = blocks_and_minnotes(w);
    let res = w.truncate(req);
    if let Ok(got) = &res {
        if blocks.last().map_or(false, |l| got < l) {
            for p in 0..3 {
                if let Some((_, Some(pos))) = pre[p].0.iter().find(|e| e.0 == *got) {
                    let pos = *pos;
                    if w.note_truncation(p, pos) {
                        st.bump("hazard_rewinds");
                    }
                }
            }
        }
    }
    if trace() {
        eprintln!("  op truncate req {req} tip {} -> {:?} hazard {:?}", w.tip(), res, w.hazard);
    }
    let post = read_ledger(&mut w.db);
    let which = which_roots(&pre, &post, false, r);
    let m = check_merkle(w, &post, &which, r, st);
    let res_s = match &res {
        Ok(h) => ok(zu(*h as u128)),
        Err(e) if e == "PANIC" => PANIC.to_string(),
        Err(e) if e.starts_with("RewindInvalid") => err("ERewindInvalid"),
        Err(e) if e.starts_with("Corrupted") => err("ECorrupted"),
        Err(_) => err("EOtherErr"),
    };
    case(format!(
        "CTrunc {} {} ({}, {}, {}) {} {} {} {} {} {} {}",
        w3_s(&pre),
        zl(blocks.iter().map(|x| *x as u64)),
        opt(mn[0].map(|x| zu(x as u128))),
        opt(mn[1].map(|x| zu(x as u128))),
        opt(mn[2].map(|x| zu(x as u128))),
        req,
        res_s,
        w3_s(&post),
        boolc(m.roots_ok()),
        boolc(m.wit_ok()),
        boolc(w.hazard.iter().any(|b| *b)),
        boolc(m.clean_ok(&w.hazard))
    ));
    st.bump(if res.is_ok() { "trunc_ok" } else { "trunc_err" });
    res.ok()
}

/// `WalletWrite::truncate_to_chain_state(chain state of height target)`, one CTcs case.
fn emit_tcs(w: &mut World, target: u32, r: &mut Rng, st: &mut Stats) -> bool {
    let Some(cs) = w.state_after(target).cloned() else { return false };
    let sizes = w.sizes(target).unwrap();
    let pre = read_ledger(&mut w.db);
    let (blocks, mn) = blocks_and_minnotes(w);
    let res: Result<(), String> = {
        let db = &mut w.db;
        match catch(|| db.truncate_to_chain_state(cs)) {
            None => Err("PANIC".into()),
            Some(Ok(())) => Ok(()),
            Some(Err(e)) => Err(match e {
                SqliteClientError::RequestedRewindInvalid { .. } => "RewindInvalid".to_string(),
                SqliteClientError::CorruptedData(s) => format!("Corrupted {s}"),
                e => format!("{e:?}"),
            }),
        }
    };
    let post = read_ledger(&mut w.db);
    if res.is_ok() && blocks.last().map_or(false, |l| target < *l) {
        // every pool was physically truncated to the frontier position of the target
        for p in 0..3 {
            if sizes[p] > 0 {
                let pos = sizes[p] - 1;
                w.note_frontier(p, pos);
                if w.note_truncation(p, pos) {
                    st.bump("hazard_rewinds");
                }
            }
        }
    }
    if trace() {
        eprintln!("  op truncate_to_chain_state target {target} tip {} blocks max {:?} -> {:?} hazard {:?}", w.tip(), blocks.last(), res, w.hazard);
    }
    let which = which_roots(&pre, &post, false, r);
    let m = check_merkle(w, &post, &which, r, st);
    let res_s = match &res {
        Ok(()) => "(Ok tt)".to_string(),
        Err(e) if e == "PANIC" => PANIC.to_string(),
        Err(e) if e.starts_with("RewindInvalid") => err("ERewindInvalid"),
        Err(e) if e.starts_with("Corrupted") => err("ECorrupted"),
        Err(e) if e.contains("CheckpointConflict") => err("EConflict"),
        Err(_) => err("EOtherErr"),
    };
    case(format!(
        "CTcs {} {} ({}, {}, {}) {} ({}, {}, {}) {} {} {} {} {} {}",
        w3_s(&pre),
        zl(blocks.iter().map(|x| *x as u64)),
        opt(mn[0].map(|x| zu(x as u128))),
        opt(mn[1].map(|x| zu(x as u128))),
        opt(mn[2].map(|x| zu(x as u128))),
        target,
        sizes[0],
        sizes[1],
        sizes[2],
        res_s,
        w3_s(&post),
        boolc(m.roots_ok()),
        boolc(m.wit_ok()),
        boolc(w.hazard.iter().any(|b| *b)),
        boolc(m.clean_ok(&w.hazard))
    ));
    st.bump(if res.is_ok() { "tcs_ok" } else { "tcs_err" });
    res.is_ok()
}

/// `WalletWrite::rewind_to_chain_state(chain state of height target, {})`, one CRewind case.
/// Returns the highest checkpoint height left in any pool (the height the trees were cut to).
fn emit_rewind(w: &mut World, target: u32, r: &mut Rng, st: &mut Stats) -> Option<u32> {
    let cs = w.state_after(target).cloned()?;
    let pre = read_ledger(&mut w.db);
    let (blocks, mn) = blocks_and_minnotes(w);
    let res: Result<(), String> = {
        let db = &mut w.db;
        match catch(|| db.rewind_to_chain_state(cs, std::collections::HashSet::new())) {
            None => Err("PANIC".into()),
            Some(Ok(())) => Ok(()),
            Some(Err(e)) => {
                let s = format!("{e:?}");
                Err(if s.contains("RequestedRewindInvalid") {
                    "RewindInvalid".to_string()
                } else if s.contains("CorruptedData") {
                    format!("Corrupted {s}")
                } else {
                    s
                })
            }
        }
    };
    let post = read_ledger(&mut w.db);
    let cut: Option<u32> = post.iter().flat_map(|l| l.0.iter().map(|e| e.0)).max();
    if res.is_ok() && post != pre {
        for p in 0..3 {
            // a pool truncated to its checkpoint at `cut`
            if let Some((h, Some(pos))) = post[p].0.last() {
                if pre[p].0.iter().any(|e| e.0 > *h) {
                    let pos = *pos;
                    if w.note_truncation(p, pos) {
                        st.bump("hazard_rewinds");
                    }
                }
            }
        }
    }
    if trace() {
        eprintln!("  op rewind_to_chain_state target {target} tip {} blocks max {:?} -> {:?} cut {:?} hazard {:?}", w.tip(), blocks.last(), res.as_ref().map_err(|e| &e[..e.len().min(120)]), cut, w.hazard);
    }
    let which = which_roots(&pre, &post, false, r);
    let m = check_merkle(w, &post, &which, r, st);
    let res_s = match &res {
        Ok(()) => "(Ok tt)".to_string(),
        Err(e) if e == "PANIC" => PANIC.to_string(),
        Err(e) if e.starts_with("RewindInvalid") => err("ERewindInvalid"),
        Err(e) if e.starts_with("Corrupted") => err("ECorrupted"),
        Err(_) => err("EOtherErr"),
    };
    case(format!(
        "CRewind {} {} ({}, {}, {}) {} {} {} {} {} {} {}",
        w3_s(&pre),
        zl(blocks.iter().map(|x| *x as u64)),
        opt(mn[0].map(|x| zu(x as u128))),
        opt(mn[1].map(|x| zu(x as u128))),
        opt(mn[2].map(|x| zu(x as u128))),
        target,
        res_s,
        w3_s(&post),
        boolc(m.roots_ok()),
        boolc(m.wit_ok()),
        boolc(w.hazard.iter().any(|b| *b)),
        boolc(m.clean_ok(&w.hazard))
    ));
    st.bump(if res.is_ok() { "rewind_ok" } else { "rewind_err" });
    if res.is_ok() { cut } else { None }
}

/// `scan_cached_blocks(from, limit)` on the current best chain, one CPut case.
fn emit_scan(w: &mut World, iv: u32, from: u32, limit: usize, full: bool, r: &mut Rng, st: &mut Stats) -> Option<u32> {
    let tip = w.tip();
    let pre = read_ledger(&mut w.db);
    let to = if limit == 0 { from - 1 } else { (from + limit as u32 - 1).min(tip) };
    let f = from - 1;
    let res = w.scan(from, limit);
    if trace() {
        eprintln!("  op scan from {from} limit {limit} to {to} tip {tip} -> {:?}", res.as_ref().map_err(|e| &e[..e.len().min(160)]));
    }
    let post = read_ledger(&mut w.db);
    let fs = w.sizes(f).unwrap();
    let mut cnts: [Vec<u64>; 3] = [vec![], vec![], vec![]];
    let mut prev = fs;
    for h in from..=to {
        let s = w.sizes(h).unwrap();
        for p in 0..3 {
            cnts[p].push(s[p] - prev[p]);
        }
        prev = s;
    }
    let res_s = match &res {
        Ok(()) => "(Ok tt)".to_string(),
        Err(e) if e == "PANIC" => PANIC.to_string(),
        Err(e) if e.contains("CheckpointConflict") => err("EConflict"),
        Err(_) => {
            st.bump("scan_other_err");
            err("EOtherErr")
        }
    };
    let which = which_roots(&pre, &post, full, r);
    let m = check_merkle(w, &post, &which, r, st);
    let heights: BTreeSet<u32> = post.iter().flat_map(|l| l.0.iter().map(|e| e.0)).collect();
    // ground truth of the retention policy: the configured grid and the grid of every in-flight
    // (non-terminal) migration, from NU6.3 activation upward
    let pol = {
        let mut ivs = vec![iv];
        ivs.extend(w.migrations.iter().filter(|(_, live)| *live).map(|(i, _)| *i));
        ivs.sort();
        ivs.dedup();
        Some((w.act, ivs))
    };
    // a refusal by the Merkle layer names the pool: it is excused only when THAT pool is hazardous
    let hz = match &res {
        Err(e) if e.contains("pool: Sapling") => w.hazard[0],
        Err(e) if e.contains("pool: Orchard") => w.hazard[1],
        Err(e) if e.contains("pool: Ironwood") => w.hazard[2],
        Err(_) => false,
        Ok(()) => w.hazard.iter().any(|b| *b),
    };
    {
        let wref = &*w;
        let sz = |p: usize, h: u32| -> Option<u64> { wref.sizes(h).map(|s| s[p]) };
        case(format!(
            "CPut true {} {} {} {} {} ((mkb {} {}), (mkb {} {}), (mkb {} {})) {} {} {} {} {} {} {}",
            PRUNING_DEPTH,
            CHUNK,
            w3_s(&pre),
            opol_s(&pol),
            f,
            fs[0],
            zl(cnts[0].iter().copied()),
            fs[1],
            zl(cnts[1].iter().copied()),
            fs[2],
            zl(cnts[2].iter().copied()),
            res_s,
            w3_s(&post),
            truth_s(&heights, &sz),
            boolc(m.roots_ok()),
            boolc(m.wit_ok()),
            boolc(hz),
            boolc(m.clean_ok(&w.hazard))
        ));
    }
    if res.is_ok() && to >= from {
        for p in 0..3 {
            if fs[p] > 0 {
                w.note_frontier(p, fs[p] - 1);
            }
        }
    }
    st.bump(if res.is_ok() { "put_ok" } else { "put_err" });
    st.add("put_blocks_scanned", (to + 1 - from) as u64);
    if res.is_ok() && to >= from {
        Some(to)
    } else {
        None
    }
}

const SHARD: u64 = 1 << 16;

/// (shard index, end height, position of the level-16 root among the frontier's parts) of the first
/// shard completed by the current best chain in pool `p`, if any.
fn completed_shard(w: &World, p: usize) -> Option<(u64, u32)> {
    let k = w.gsize[p] / SHARD;
    for (i, _) in w.chain.iter().enumerate() {
        let h = BASE + i as u32;
        if w.sizes(h).unwrap()[p] >= (k + 1) * SHARD {
            return Some((k, h));
        }
    }
    None
}
/// Root of shard `k` (level 16): the frontier `before` (fewer than (k+1)*2^16 leaves) extended with
/// `leaves` until the shard is exactly full.
fn shard_root_by_append<H: Hashable + Clone, const D: u8>(before: &Frontier<H, D>, leaves: &[H], k: u64) -> H {
    let mut f = before.clone();
    for l in leaves {
        if f.tree_size() == (k + 1) * SHARD {
            break;
        }
        f.append(l.clone());
    }
    assert_eq!(f.tree_size(), (k + 1) * SHARD);
    f.value().expect("non-empty").root(Some(Level::from(16)))
}
/// the level-16 ommer of a frontier whose position has bit 16 set (root of the shard before it)
fn level16_ommer<H: Hashable + Clone, const D: u8>(f: &Frontier<H, D>) -> H {
    let ne = f.value().expect("non-empty");
    let pos = u64::from(ne.position());
    assert_eq!((pos >> 16) & 1, 1);
    ne.ommers()[(pos & (SHARD - 1)).count_ones() as usize].clone()
}

/// `put_*_subtree_roots` with the chain's own roots of the shards completed so far (as a light
/// client server would deliver them); one CRoots case. The ledger must not change.
type RootSnap = [Vec<Option<Vec<u8>>>; 3];

/// `get_{sapling,orchard,ironwood}_subtree_root(0..3)` through the plain connection handle or through
/// the transactional handle.
fn subtree_root_snapshot(w: &mut World, txn: bool) -> RootSnap {
    let mut out: RootSnap = [vec![], vec![], vec![]];
    for i in 0..3u64 {
        if txn {
            let (a, b, c) = w
                .db
                .db_mut()
                .transactionally::<_, _, SqliteClientError>(|wdb| {
                    let a = wdb.get_sapling_subtree_root(i).map_err(SqliteClientError::from)?;
                    let b = wdb.get_orchard_subtree_root(i).map_err(SqliteClientError::from)?;
                    let c = wdb.get_ironwood_subtree_root(i).map_err(SqliteClientError::from)?;
                    Ok((a, b, c))
                })
                .expect("getters");
            out[0].push(a.map(|x| x.to_bytes().to_vec()));
            out[1].push(b.map(|x| x.to_bytes().to_vec()));
            out[2].push(c.map(|x| x.to_bytes().to_vec()));
        } else {
            out[0].push(w.db.get_sapling_subtree_root(i).expect("getter").map(|x| x.to_bytes().to_vec()));
            out[1].push(w.db.get_orchard_subtree_root(i).expect("getter").map(|x| x.to_bytes().to_vec()));
            out[2].push(w.db.get_ironwood_subtree_root(i).expect("getter").map(|x| x.to_bytes().to_vec()));
        }
    }
    out
}

/// the checkpoint ledger read through the transactional handle
fn read_ledger_txn(db: &mut TestDb) -> [Ledger; 3] {
    db.db_mut()
        .transactionally::<_, _, SqliteClientError>(|wdb| {
            let a = wdb.with_sapling_tree_mut::<_, _, TErr>(|t| read_pool(t)).map_err(SqliteClientError::from)?;
            let b = wdb.with_orchard_tree_mut::<_, _, TErr>(|t| read_pool(t)).map_err(SqliteClientError::from)?;
            let c = wdb.with_ironwood_tree_mut::<_, _, TErr>(|t| read_pool(t)).map_err(SqliteClientError::from)?.expect("ironwood tree");
            Ok([a, b, c])
        })
        .expect("ledger through the transactional handle")
}

/// `put_*_subtree_roots` with the chain's own roots of the shards completed so far (as a light
/// client server would deliver them), through the plain connection handle (`txn = false`) or
/// inside `WalletDb::transactionally` (`txn = true`); one CRoots case. The ledger must not change,
/// the pool's own getter must return the inserted roots, the other pools' getters must not change
/// (through both handles), and all roots / witnesses must still match the chain.
fn emit_roots(w: &mut World, p: usize, txn: bool, r: &mut Rng, st: &mut Stats) {
    use zcash_client_backend::data_api::chain::CommitmentTreeRoot;
    let Some((k, h)) = completed_shard(w, p) else { return };
    let pre = read_ledger(&mut w.db);
    let snap_pre = subtree_root_snapshot(w, false);
    let before = w.state_after(h - 1).unwrap().clone();
    let blk = w.chain[(h - BASE) as usize].cb.clone();
    let eh = BlockHeight::from_u32(h);
    let below = BlockHeight::from_u32(BASE - 100);
    // a shard below the birthday (k = 1): its root is the level-16 ommer of the birthday frontier
    let mut inserted: Vec<Vec<u8>> = vec![];
    let res: Result<(), String> = match p {
        0 => {
            let mut roots = vec![];
            if k == 1 {
                roots.push(CommitmentTreeRoot::from_parts(below, level16_ommer(w.genesis.final_sapling_tree())));
            }
            let ls: Vec<sapling::Node> = blk.vtx.iter().flat_map(|t| t.outputs.iter()).map(|o| sapling::Node::from_cmu(&o.cmu().unwrap())).collect();
            roots.push(CommitmentTreeRoot::from_parts(eh, shard_root_by_append(before.final_sapling_tree(), &ls, k)));
            inserted = roots.iter().map(|x| x.root_hash().to_bytes().to_vec()).collect();
            let db = &mut w.db;
            if txn {
                catch(|| db.db_mut().transactionally::<_, _, SqliteClientError>(|wdb| wdb.put_sapling_subtree_roots(0, &roots).map_err(SqliteClientError::from)))
                    .map_or(Err("PANIC".into()), |x| x.map_err(|e| format!("{e:?}")))
            } else {
                catch(|| db.put_sapling_subtree_roots(0, &roots)).map_or(Err("PANIC".into()), |x| x.map_err(|e| format!("{e:?}")))
            }
        }
        1 => {
            let mut roots = vec![];
            if k == 1 {
                roots.push(CommitmentTreeRoot::from_parts(below, level16_ommer(w.genesis.final_orchard_tree())));
            }
            let ls: Vec<orchard::tree::MerkleHashOrchard> = blk.vtx.iter().flat_map(|t| t.actions.iter()).map(|a| orchard::tree::MerkleHashOrchard::from_cmx(&a.cmx().unwrap())).collect();
            roots.push(CommitmentTreeRoot::from_parts(eh, shard_root_by_append(before.final_orchard_tree(), &ls, k)));
            inserted = roots.iter().map(|x| x.root_hash().to_bytes().to_vec()).collect();
            let db = &mut w.db;
            if txn {
                catch(|| db.db_mut().transactionally::<_, _, SqliteClientError>(|wdb| wdb.put_orchard_subtree_roots(0, &roots).map_err(SqliteClientError::from)))
                    .map_or(Err("PANIC".into()), |x| x.map_err(|e| format!("{e:?}")))
            } else {
                catch(|| db.put_orchard_subtree_roots(0, &roots)).map_or(Err("PANIC".into()), |x| x.map_err(|e| format!("{e:?}")))
            }
        }
        _ => {
            let mut roots = vec![];
            if k == 1 {
                roots.push(CommitmentTreeRoot::from_parts(below, level16_ommer(w.genesis.final_ironwood_tree())));
            }
            let ls: Vec<orchard::tree::MerkleHashOrchard> = blk.vtx.iter().flat_map(|t| t.ironwood_actions.iter()).map(|a| orchard::tree::MerkleHashOrchard::from_cmx(&a.cmx().unwrap())).collect();
            roots.push(CommitmentTreeRoot::from_parts(eh, shard_root_by_append(before.final_ironwood_tree(), &ls, k)));
            inserted = roots.iter().map(|x| x.root_hash().to_bytes().to_vec()).collect();
            let db = &mut w.db;
            if txn {
                catch(|| db.db_mut().transactionally::<_, _, SqliteClientError>(|wdb| wdb.put_ironwood_subtree_roots(0, &roots).map_err(SqliteClientError::from)))
                    .map_or(Err("PANIC".into()), |x| x.map_err(|e| format!("{e:?}")))
            } else {
                catch(|| db.put_ironwood_subtree_roots(0, &roots)).map_or(Err("PANIC".into()), |x| x.map_err(|e| format!("{e:?}")))
            }
        }
    };
    if trace() {
        eprintln!("  op put_subtree_roots pool {p} shard {k} end {h} txn {txn} -> {:?}", res);
    }
    let post = read_ledger(&mut w.db);
    let post_txn = read_ledger_txn(&mut w.db);
    let snap_post = subtree_root_snapshot(w, false);
    let snap_post_txn = subtree_root_snapshot(w, true);
    // getters: own pool returns the inserted roots, other pools unchanged, both handles agree
    let mut getters_ok = snap_post == snap_post_txn && post == post_txn;
    if res.is_ok() {
        for q in 0..3 {
            if q == p {
                for (i, want) in inserted.iter().enumerate() {
                    if snap_post[q][i].as_ref() != Some(want) {
                        getters_ok = false;
                    }
                }
            } else if snap_post[q] != snap_pre[q] {
                getters_ok = false;
            }
        }
    } else if snap_post != snap_pre {
        getters_ok = false;
    }
    if !getters_ok {
        st.bump("SUBTREE_ROOT_GETTER_MISMATCH");
    }
    let which = which_roots(&pre, &post, true, r);
    let m = check_merkle(w, &post, &which, r, st);
    let res_s = match &res {
        Ok(()) => "(Ok tt)".to_string(),
        Err(e) if e == "PANIC" => PANIC.to_string(),
        Err(_) => err("EOtherErr"),
    };
    case(format!(
        "CRoots {} {} {} {} {} {} {} {}",
        w3_s(&pre),
        res_s,
        w3_s(&post),
        boolc(m.roots_ok()),
        boolc(m.wit_ok()),
        boolc(w.hazard.iter().any(|b| *b)),
        boolc(m.clean_ok(&w.hazard)),
        boolc(getters_ok)
    ));
    st.bump(if res.is_ok() { "roots_ok_ops" } else { "roots_err_ops" });
    if txn {
        st.bump("roots_ops_transactional");
    }
}

fn mk_world_b(seed: u64, idx: u64, iv: u32, gsize: [u64; 3]) -> World {
    let mut rng = ChaChaRng::seed_from_u64(seed ^ 0xc06c_06c0_6000_0000 ^ idx);
    rng.set_stream(77);
    World::with_birthday(rng, iv, gsize)
}

fn mk_world_p(seed: u64, idx: u64, iv: u32, gsize: [u64; 3], act: u32) -> World {
    let mut rng = ChaChaRng::seed_from_u64(seed ^ 0xc06c_06c0_6000_0000 ^ idx);
    rng.set_stream(77);
    World::with_params(rng, iv, gsize, act)
}

fn mk_world(seed: u64, idx: u64, iv: u32) -> World {
    let mut rng = ChaChaRng::seed_from_u64(seed ^ 0xc06c_06c0_6000_0000 ^ idx);
    rng.set_stream(77);
    World::new(rng, iv)
}

/// Fixed witnesses of the two known findings (always part of the corpus).
fn scripted_histories(seed: u64, r: &mut Rng, st: &mut Stats) {
    // C06-F1: a retention boundary scanned below a pool's pruning floor is not checkpointed there.
    {
        if trace() {
            eprintln!("scripted F1");
        }
        let iv = 5;
        let mut w = mk_world(seed, 1_000_001, iv);
        w.push_block(&[(0, false), (1, true)]);
        for _ in 1..30 {
            w.push_block(&[(0, false)]);
        }
        for _ in 30..=185 {
            w.push_block(&[(0, false), (1, false)]);
        }
        emit_scan(&mut w, iv, BASE + 30, 1000, false, r, st);
        emit_scan(&mut w, iv, BASE + 2, 11, true, r, st);
        st.bump("wallet_histories");
    }
    // C06-F1, in-order variant: ONE batch with more own checkpoints than the budget; boundaries early
    // in the batch whose blocks have no Sapling output get no Sapling checkpoint.
    {
        if trace() {
            eprintln!("scripted F1b");
        }
        let iv = 5;
        let mut w = mk_world(seed, 1_000_003, iv);
        for h in 0..150u32 {
            if h % 5 == 0 {
                w.push_block(&[(1, false)]);
            } else {
                w.push_block(&[(0, h == 1)]);
            }
        }
        emit_scan(&mut w, iv, BASE, 1000, true, r, st);
        // the Sapling tree holds a wallet note below its oldest checkpoint: no height qualifies
        emit_trunc(&mut w, BASE + 10, r, st);
        st.bump("wallet_histories");
    }
    // the same chain without wallet notes: the rewind resets the Sapling tree to its subtree roots
    // (ResetToSubtreeRoots) while the other pools truncate to their checkpoint; then rescan
    {
        let iv = 5;
        let mut w = mk_world(seed, 1_000_004, iv);
        for h in 0..150u32 {
            if h % 5 == 0 {
                w.push_block(&[(1, false)]);
            } else {
                w.push_block(&[(0, false)]);
            }
        }
        emit_scan(&mut w, iv, BASE, 1000, false, r, st);
        if let Some(got) = emit_trunc(&mut w, BASE + 10, r, st) {
            w.fork_at(got);
            for _ in 0..12 {
                w.push_block(&[(0, true), (1, false)]);
            }
            emit_scan(&mut w, iv, got + 1, 1000, true, r, st);
        }
        st.bump("wallet_histories");
    }
    // The start frontier of a tip-first batch is a retention boundary B without shielded output: it
    // must be registered as retained by that batch, so that it survives the >100 checkpoints of the
    // batch and is still there when the range ending at B is scanned later.
    {
        if trace() {
            eprintln!("scripted frontier-boundary");
        }
        let iv = 10;
        let mut w = mk_world(seed, 1_000_005, iv);
        for h in 0..=160u32 {
            if h == 3 || h > 10 {
                w.push_block(&[(1, false)]);
            } else {
                w.push_block(&[]);
            }
        }
        emit_scan(&mut w, iv, BASE + 11, 1000, false, r, st);
        emit_scan(&mut w, iv, BASE + 2, 9, false, r, st);
        for _ in 0..3 {
            w.push_block(&[(1, false)]);
            let t = w.tip();
            emit_scan(&mut w, iv, t, 1, false, r, st);
        }
        emit_scan(&mut w, iv, BASE, 2, true, r, st);
        st.bump("wallet_histories");
    }
    // A birthday frontier 6 leaves below the end of Orchard shard 0; the shard's root is delivered
    // through put_orchard_subtree_roots; 131 blocks synced in batches of ten; a deep rewind below
    // every Orchard checkpoint (ResetToSubtreeRoots) across the shard end; a different continuation.
    {
        if trace() {
            eprintln!("scripted shard-end reset");
        }
        let iv = 144;
        let mut w = mk_world_b(seed, 1_000_006, iv, [0, SHARD - 6, 0]);
        for _ in 0..131 {
            w.push_block(&[(1, false)]);
        }
        emit_roots(&mut w, 1, false, r, st);
        let mut from = BASE;
        while from <= w.tip() {
            emit_scan(&mut w, iv, from, 10, false, r, st);
            from += 10;
        }
        if let Some(got) = emit_trunc(&mut w, BASE + 2, r, st) {
            w.fork_at(got);
            for _ in 0..20 {
                w.push_block(&[(1, true)]);
            }
            emit_scan(&mut w, iv, got + 1, 1000, true, r, st);
            emit_roots(&mut w, 1, true, r, st);
        }
        st.bump("wallet_histories");
    }
    // truncate_to_chain_state with a target inside a gap of unscanned blocks / at scanned heights
    {
        if trace() {
            eprintln!("scripted tcs");
        }
        let iv = 144;
        let mut w = mk_world(seed, 1_000_007, iv);
        for h in 0..70u32 {
            w.push_block(&[(h as usize % 2, h % 7 == 0)]);
        }
        emit_scan(&mut w, iv, BASE, 11, false, r, st);
        emit_scan(&mut w, iv, BASE + 21, 1000, false, r, st);
        if emit_tcs(&mut w, BASE + 15, r, st) {
            w.fork_at(BASE + 15);
            for _ in 0..12 {
                w.push_block(&[(0, true), (1, false)]);
            }
            emit_scan(&mut w, iv, BASE + 11, 1000, true, r, st);
        }
        if emit_tcs(&mut w, BASE + 20, r, st) {
            emit_scan(&mut w, iv, BASE + 21, 3, false, r, st);
        }
        if emit_tcs(&mut w, BASE + 5, r, st) {
            w.fork_at(BASE + 5);
            for _ in 0..8 {
                w.push_block(&[(1, true)]);
            }
            emit_scan(&mut w, iv, BASE + 6, 1000, true, r, st);
        }
        st.bump("wallet_histories");
    }
    // the rewind target lies in a gap of unscanned blocks below the oldest shared checkpoint, which
    // is the (unscanned) start frontier of the later range
    {
        if trace() {
            eprintln!("scripted tcs gap");
        }
        let iv = 144;
        let mut w = mk_world(seed, 1_000_008, iv);
        let n: u32 = std::env::var("C06_GAPN").ok().and_then(|s| s.parse().ok()).unwrap_or(99);
        for h in 0..(22 + n) {
            w.push_block(&[(h as usize % 2, h % 7 == 0)]);
        }
        emit_scan(&mut w, iv, BASE, 11, false, r, st);
        emit_scan(&mut w, iv, BASE + 21, n as usize, false, r, st);
        emit_scan(&mut w, iv, BASE + 21 + n, 1, false, r, st);
        if emit_tcs(&mut w, BASE + 15, r, st) {
            w.fork_at(BASE + 15);
            for _ in 0..12 {
                w.push_block(&[(0, true), (1, true)]);
            }
            emit_scan(&mut w, iv, BASE + 11, 1000, true, r, st);
        }
        st.bump("wallet_histories");
    }
    // rewind_to_chain_state: within the pruning window, deeper than it, and to a height without a
    // checkpoint
    {
        if trace() {
            eprintln!("scripted rewind");
        }
        let iv = 144;
        let mut w = mk_world(seed, 1_000_009, iv);
        for h in 0..130u32 {
            w.push_block(&if h % 3 == 0 { vec![] } else { vec![(h as usize % 2, h % 10 == 1)] });
        }
        emit_scan(&mut w, iv, BASE, 60, false, r, st);
        emit_scan(&mut w, iv, BASE + 60, 1000, false, r, st);
        emit_rewind(&mut w, BASE + 125, r, st);
        emit_rewind(&mut w, BASE + 123, r, st);
        if let Some(cut) = emit_rewind(&mut w, BASE + 10, r, st) {
            w.fork_at(cut);
            for _ in 0..10 {
                w.push_block(&[(0, true), (1, false)]);
            }
            emit_scan(&mut w, iv, cut + 1, 1000, true, r, st);
        }
        st.bump("wallet_histories");
    }
    // NU6.3 activates strictly inside the first scan batch: the boundaries at or above activation in
    // that batch (one of them on an empty block) must be checkpointed and retained in all three
    // trees, and survive the >100 checkpoints of the next batch with computable roots.
    {
        if trace() {
            eprintln!("scripted activation inside batch");
        }
        let iv = 12;
        let mut w = mk_world_p(seed, 1_000_010, iv, [0; 3], BASE + 20);
        for h in 0..=50u32 {
            if h == 32 {
                w.push_block(&[]);
            } else {
                w.push_block(&[(h as usize % 3, h % 9 == 2), ((h as usize + 1) % 3, false)]);
            }
        }
        emit_scan(&mut w, iv, BASE, 51, false, r, st);
        for _ in 0..130 {
            w.push_block(&[(0, false), (1, false), (2, false)]);
        }
        emit_scan(&mut w, iv, BASE + 51, 1000, true, r, st);
        // ... and strictly inside a LATER batch of another wallet
        let mut w = mk_world_p(seed, 1_000_011, iv, [0; 3], BASE + 30);
        for h in 0..=70u32 {
            w.push_block(&if h % 12 == 0 { vec![] } else { vec![(h as usize % 3, false)] });
        }
        emit_scan(&mut w, iv, BASE, 10, false, r, st);
        emit_scan(&mut w, iv, BASE + 10, 1000, true, r, st);
        st.bump("wallet_histories");
    }
    // A wallet transaction is mined, abandoned by a reorg, and mined again on the new fork behind a
    // different number of outputs: the wallet must witness its notes at their NEW positions.
    {
        if trace() {
            eprintln!("scripted remine");
        }
        let iv = 144;
        let mut w = mk_world(seed, 1_000_012, iv);
        for _ in 0..5 {
            w.push_block(&[(0, false), (1, false), (2, false)]);
        }
        w.push_block(&[(0, true), (1, true), (2, true)]);
        for _ in 0..4 {
            w.push_block(&[(0, false), (1, true)]);
        }
        emit_scan(&mut w, iv, BASE, 1000, true, r, st);
        if let Some(got) = emit_trunc(&mut w, BASE + 4, r, st) {
            w.fork_at(got);
            w.push_block(&[(0, false), (0, false), (1, false), (2, false), (2, false)]);
            let orphans: Vec<CompactTx> = w.orphan_txs.drain(..).collect();
            w.push_block_ex(&[(0, false), (1, false), (1, false), (2, false)], orphans);
            for _ in 0..3 {
                w.push_block(&[(0, false), (1, false)]);
            }
            emit_scan(&mut w, iv, got + 1, 1000, true, r, st);
        }
        st.bump("wallet_histories");
    }
    // An in-flight migration committed under another grid (7) than the wallet is configured with
    // (144), and a finished one (grid 5) that must not contribute: boundaries of BOTH live grids
    // must keep checkpoints, roots and witnesses past 200 further blocks; once the migration is
    // terminal only the configured grid is retained.
    {
        if trace() {
            eprintln!("scripted migration grids");
        }
        let iv = 144;
        let mut w = mk_world(seed, 1_000_013, iv);
        w.add_migration(5, "complete");
        w.add_migration(7, "committed");
        for h in 0..=85u32 {
            w.push_block(&[(h as usize % 3, h % 8 == 1), ((h as usize + 1) % 3, false), ((h as usize + 2) % 3, false)]);
        }
        emit_scan(&mut w, iv, BASE, 1000, false, r, st);
        for _ in 0..200 {
            w.push_block(&[(0, false), (1, false), (2, false)]);
        }
        emit_scan(&mut w, iv, BASE + 86, 1000, true, r, st);
        emit_trunc(&mut w, BASE + 280, r, st);
        w.finish_migration("cancelled");
        emit_scan(&mut w, iv, BASE + 281, 1000, false, r, st);
        st.bump("wallet_histories");
    }
    // subtree roots of all three pools through the transactional handle and the plain handle
    {
        if trace() {
            eprintln!("scripted subtree roots, both handles");
        }
        let iv = 144;
        let mut w = mk_world_b(seed, 1_000_014, iv, [SHARD - 5, SHARD - 7, SHARD - 4]);
        for h in 0..14u32 {
            w.push_block(&[(0, h == 2), (1, h == 3), (2, h == 4)]);
        }
        emit_scan(&mut w, iv, BASE, 6, false, r, st);
        for p in [2usize, 0, 1] {
            emit_roots(&mut w, p, true, r, st);
        }
        emit_scan(&mut w, iv, BASE + 6, 1000, true, r, st);
        for p in [1usize, 2, 0] {
            emit_roots(&mut w, p, false, r, st);
        }
        // ... and before the shard's leaves are scanned
        let mut w = mk_world_b(seed, 1_000_015, iv, [SHARD - 5, SHARD - 7, SHARD - 4]);
        for h in 0..12u32 {
            w.push_block(&[(0, h == 2), (1, h == 3), (2, h == 4)]);
        }
        for p in 0..3usize {
            emit_roots(&mut w, p, p != 1, r, st);
        }
        emit_scan(&mut w, iv, BASE, 1000, true, r, st);
        st.bump("wallet_histories");
    }
    // C06-F2: rewind into a completed subtree whose hash an earlier frontier insertion cached.
    {
        if trace() {
            eprintln!("scripted F2");
        }
        let iv = 144;
        let mut w = mk_world(seed, 1_000_002, iv);
        for _ in 0..11 {
            w.push_block(&[(0, true)]);
        }
        emit_scan(&mut w, iv, BASE, 1000, false, r, st);
        emit_trunc(&mut w, BASE + 2, r, st);
        w.fork_at(BASE + 2);
        for _ in 0..11 {
            w.push_block(&[(0, true)]);
        }
        emit_scan(&mut w, iv, BASE + 3, 3, false, r, st);
        emit_scan(&mut w, iv, BASE + 6, 1000, false, r, st);
        emit_trunc(&mut w, BASE + 2, r, st);
        w.fork_at(BASE + 2);
        for _ in 0..9 {
            w.push_block(&[(0, true)]);
        }
        emit_scan(&mut w, iv, BASE + 3, 2, false, r, st);
        emit_scan(&mut w, iv, BASE + 5, 1000, true, r, st);
        st.bump("wallet_histories");
    }
}

fn wallet_history(seed: u64, idx: u64, r: &mut Rng, st: &mut Stats, long: bool) {
    let iv = *r.pick(&[2u32, 3, 5, 7, 12, 144]);
    let profile = r.below(5);
    // a third of the histories start from a birthday frontier just below a shard boundary
    let mut gsize = [0u64; 3];
    if r.chance(1, 3) {
        for p in 0..3 {
            if r.chance(1, 2) {
                gsize[p] = (1 + r.below(2)) * SHARD - 1 - r.below(30);
            }
        }
        st.bump("histories_near_shard_end");
    }
    let act = BASE + *r.pick(&[0u32, 0, 0, 7, 25, 60]);
    if act > BASE {
        // the Ironwood tree is empty until NU6.3 activates
        gsize[2] = 0;
    }
    let mut w = mk_world_p(seed, idx, iv, gsize, act);
    if r.chance(1, 3) {
        let t = *r.pick(&[3u32, 7, 10, 144]);
        w.add_migration(t, *r.pick(&["complete", "failed", "superseded", "cancelled"]));
        let l = *r.pick(&[3u32, 7, 10]);
        w.add_migration(l, *r.pick(&["planning", "committed", "in_progress"]));
        st.bump("histories_with_migration_rows");
    }
    if trace() {
        eprintln!("hist {idx} iv {iv} profile {profile} long {long} act {act} migrations {:?}", w.migrations);
    }
    st.bump("wallet_histories");
    let nops = if long { 9 + r.below(6) } else { 6 + r.below(6) };
    let mut scanned_hi = BASE - 1;
    let mut pending_gap: Option<(u32, u32)> = None;
    let mut ops_done = 0;
    let mut i = 0u64;
    while ops_done < nops {
        i += 1;
        if i > 60 {
            break;
        }
        let grow = if long && r.chance(1, 4) { 105 + r.below(30) } else { 1 + r.below(14) };
        let must = w.chain.is_empty() || scanned_hi >= w.tip();
        if must || r.chance(1, 2) {
            for _ in 0..grow {
                let outs = gen_block(profile, r);
                w.push_block(&outs);
            }
        }
        let tip = w.tip();
        if w.migrations.iter().any(|m| m.1) && r.chance(1, 12) {
            w.finish_migration(*r.pick(&["complete", "cancelled"]));
            st.bump("migrations_finished");
        }
        if scanned_hi >= BASE && r.chance(1, 5) {
            let req = match r.below(8) {
                0 => scanned_hi + r.below(3) as u32,
                1 => BASE.saturating_sub(1 + r.below(3) as u32),
                2 => scanned_hi.saturating_sub(r.below(120) as u32),
                _ => scanned_hi.saturating_sub(r.below(12) as u32),
            };
            let kind = r.below(4);
            let in_chain = req + 1 >= BASE && req <= w.tip();
            let got_opt = if kind == 0 && in_chain {
                if emit_tcs(&mut w, req, r, st) { Some(req) } else { None }
            } else if kind == 1 && in_chain {
                // the chain may only be replaced above the height the trees were actually cut to
                emit_rewind(&mut w, req, r, st).map(|cut| cut.max(req))
            } else {
                emit_trunc(&mut w, req, r, st)
            };
            if let Some(got) = got_opt {
                let (blocks2, _) = blocks_and_minnotes(&w);
                scanned_hi = blocks2.last().copied().unwrap_or(BASE - 1);
                pending_gap = None;
                // a reorg: the chain above the truncation height is replaced
                if got < w.tip() && got + 1 >= BASE && r.chance(2, 3) {
                    w.fork_at(got);
                    if trace() {
                        eprintln!("  fork at {got}");
                    }
                    st.bump("reorgs");
                    for k in 0..1 + r.below(10) {
                        let outs = gen_block(profile, r);
                        // re-mine abandoned wallet transactions on the new fork (shifted positions)
                        if k == 1 && !w.orphan_txs.is_empty() && r.chance(2, 3) {
                            let h = w.tip() + 1;
                            let act = w.act;
                            let (now, later): (Vec<CompactTx>, Vec<CompactTx>) =
                                w.orphan_txs.drain(..).partition(|t| t.ironwood_actions.is_empty() || h >= act);
                            w.orphan_txs = later;
                            st.add("remined_txs", now.len() as u64);
                            w.push_block_ex(&outs, now);
                        } else {
                            w.push_block(&outs);
                        }
                    }
                }
                if w.chain.is_empty() {
                    w.push_block(&[]);
                }
            }
            ops_done += 1;
            continue;
        }
        let (from, limit): (u32, usize) = if let Some((a, b)) = pending_gap.take() {
            st.bump("scan_gap_fill");
            (a, (b - a + 1) as usize)
        } else {
            match r.below(10) {
                0 if scanned_hi < tip && tip - scanned_hi > 3 => {
                    // skip ahead: scan the tip part first, fill the gap later
                    let a = scanned_hi + 2 + r.below((tip - scanned_hi - 1) as u64) as u32;
                    pending_gap = Some((scanned_hi + 1, a - 1));
                    st.bump("scan_skip_ahead");
                    (a, (tip - a + 1) as usize)
                }
                1 if scanned_hi >= BASE => {
                    let a = BASE + r.below((scanned_hi - BASE + 1) as u64) as u32;
                    st.bump("scan_rescan");
                    (a, 1 + r.below(20) as usize)
                }
                2 => (scanned_hi + 1, 0),
                3 | 4 => (scanned_hi + 1, 1 + r.below(3) as usize),
                _ => (scanned_hi + 1, 1000),
            }
        };
        if from > tip + 1 || from < BASE {
            continue;
        }
        let full = ops_done + 1 == nops;
        if let Some(to) = emit_scan(&mut w, iv, from, limit, full, r, st) {
            scanned_hi = scanned_hi.max(to);
        }
        ops_done += 1;
        if gsize.iter().any(|g| *g > 0) && r.chance(1, 3) {
            let p = r.below(3) as usize;
            if gsize[p] > 0 {
                let txn = r.bool();
                emit_roots(&mut w, p, txn, r, st);
            }
        }
    }
}

/// Minimal reproduction of finding C06-F2 on the shardtree crate alone (no wallet code):
/// `C06_REPRO=1 c06`.
fn repro_f2() {
    use incrementalmerkletree::Marking;
    let mut t: ShardTree<MemoryShardStore<Cheap, u32>, 32, 4> = ShardTree::new(MemoryShardStore::empty(), 100);
    let ck = |id: u32| Retention::Checkpoint { id, marking: Marking::None };
    // old chain: leaves 0..=8, checkpoint 1 after leaf 3, checkpoint 2 after leaf 8
    for i in 0..9u64 {
        let r = if i == 3 { ck(1) } else if i == 8 { ck(2) } else { Retention::Ephemeral };
        t.append(leaf(0, 0, i), r).unwrap();
    }
    // the next batch starts by inserting its from_state frontier (position 8): its ommer at level 3
    // is the hash of leaves 0..=7 and gets cached on the parent node that still holds leaf 3
    let mut fr: Frontier<Cheap, 32> = Frontier::empty();
    for i in 0..9u64 {
        fr.append(leaf(0, 0, i));
    }
    t.insert_frontier(fr, ck(2)).unwrap();
    // reorg: rewind to checkpoint 1 (position 3)
    eprintln!("truncate_to_checkpoint(1) -> {:?}", t.truncate_to_checkpoint(&1));
    eprintln!("max_leaf_position after rewind to position 3: {:?}", t.max_leaf_position(None));
    // new chain: different leaves 4..=6, checkpoint 3 after leaf 6
    let mut want: Frontier<Cheap, 32> = Frontier::empty();
    for i in 0..4u64 {
        want.append(leaf(0, 0, i));
    }
    let mut res = vec![];
    for i in 4..7u64 {
        want.append(leaf(0, 1, i));
        res.push(t.append(leaf(0, 1, i), if i == 6 { ck(3) } else { Retention::Ephemeral }).map_err(|e| format!("{e:?}")));
    }
    eprintln!("appends on the new chain: {:?}", res);
    eprintln!("root_at_checkpoint_id(3) = {:?}\ntrue root               = {:?}", t.root_at_checkpoint_id(&3), want.root());
    // complete the subtree 0..=7 on the new chain
    want.append(leaf(0, 1, 7));
    eprintln!("append leaf 7' -> {:?}", t.append(leaf(0, 1, 7), ck(4)).map_err(|e| format!("{e:?}")));
    want.append(leaf(0, 1, 8));
    eprintln!("append leaf 8' -> {:?}", t.append(leaf(0, 1, 8), ck(5)).map_err(|e| format!("{e:?}")));
    eprintln!("root_at_checkpoint_id(5) = {:?}\ntrue root               = {:?}", t.root_at_checkpoint_id(&5), want.root());
}

/// Exploration aid (`C06_EXPLORE_REWIND=1`): rewind to a height without a checkpoint, then a reorg
/// exactly above the target.
fn explore_rewind(seed: u64) {
    let mut r = Rng::new(seed, 99);
    let mut st = Stats::default();
    let iv = 144;
    let mut w = mk_world(seed, 2_000_001, iv);
    for h in 0..130u32 {
        w.push_block(&if h % 3 == 0 { vec![] } else { vec![(h as usize % 2, h % 10 == 1)] });
    }
    emit_scan(&mut w, iv, BASE, 1000, false, &mut r, &mut st);
    emit_rewind(&mut w, BASE + 123, &mut r, &mut st);
    w.fork_at(BASE + 123);
    for _ in 0..8 {
        w.push_block(&[(0, true), (1, false)]);
    }
    emit_scan(&mut w, iv, BASE + 124, 1000, true, &mut r, &mut st);
    emit_scan(&mut w, iv, BASE + 125, 1000, true, &mut r, &mut st);
    eprintln!("{:?}", st.n);
}

fn main() {
    if std::env::var("C06_EXPLORE_REWIND").is_ok() {
        explore_rewind(1);
        return;
    }
    if std::env::var("C06_REPRO").is_ok() {
        repro_f2();
        return;
    }
    let a = args();
    if std::env::var("C06_LOUD").is_err() { quiet_panics(); }
    let mut st = Stats::default();
    let mut r = Rng::new(a.seed, 6);
    let npure = a.budget(700, 12000);
    pure_stream(&mut r, npure, &mut st);
    let mut r2 = Rng::new(a.seed, 7);
    mem_stream(&mut r2, a.budget(60, 1500), &mut st);
    let mut r3 = Rng::new(a.seed, 8);
    let nh = a.budget(6, 150);
    scripted_histories(a.seed, &mut r3, &mut st);
    if std::env::var("C06_SCRIPTS_ONLY").is_ok() {
        return;
    }
    let only: Option<usize> = std::env::var("C06_ONLY").ok().and_then(|s| s.parse().ok());
    for i in 0..nh {
        let long = i % 3 == 0;
        if let Some(o) = only {
            if o != i {
                // keep the random stream aligned: run but discard? (debug aid only) -- skip
                let mut dummy = Stats::default();
                if i < o { wallet_history(a.seed, i as u64, &mut r3, &mut dummy, long); }
                continue;
            }
        }
        wallet_history(a.seed, i as u64, &mut r3, &mut st, long);
    }
    let js: Vec<String> = st.n.iter().map(|(k, v)| format!("\"{}\": {}", k, v)).collect();
    stat(format!("{{\"stream\": \"c06\", \"tier\": \"{}\", \"seed\": {}, {}}}", a.tier, a.seed, js.join(", ")));
}
