//! C04 harness — transaction identifiers, authorising-data commitments and signature hashes.
//!
//! Streams (every random choice comes from one ChaCha8 PRNG; proptest strategies of the crates
//! are sampled with a TestRng seeded from it):
//!  * `CTx`    — a v5/v6 transaction handed to the model as structured fields, with the
//!               implementation's component digests, txid, auth commitment, shielded sighash and
//!               transparent sighashes (input index x hash type);
//!  * `CMut`   — a base transaction and the same transaction with exactly one field changed
//!               (rebuilt through `TransactionData::from_parts{,_v6}` and frozen), both observed;
//!               coin / hash type / index mutations of the signing context as well;
//!  * `CV4Txid`— v1-v4: txid against SHA-256d (sha2 crate) of `Transaction::write`;
//!  * `CV4Mut` — v3/v4 single-field mutations observed on txid and the ZIP 143/243 sighash;
//!  * ZIP 244 vectors shipped in the repository go through `CTx` (and are compared with the
//!    vector values here).
use std::collections::BTreeMap;

use blake2b_simd::Hash as Blake2bHash;
use nonempty::NonEmpty;
use proptest::strategy::{Strategy, ValueTree};
use proptest::test_runner::{Config as PtConfig, RngAlgorithm, TestRng, TestRunner};
use sha2::{Digest, Sha256};
use vcommon::*;

use orchard::bundle::{Authorized as OAuthorized, BundleVersion, Flags};
use orchard::primitives::redpallas;
use orchard::note::TransmittedNoteCiphertext;
use orchard::{Action, Anchor, Proof};
use sapling::bundle::{
    Authorized as SAuthorized, GrothProofBytes, OutputDescription, SpendDescription,
};
use zcash_primitives::transaction::components::orchard::testing as po_testing;
use zcash_primitives::transaction::components::sapling::testing as ps_testing;
use zcash_primitives::transaction::components::sprout::{Bundle as SproutBundle, JsDescription};
use zcash_primitives::transaction::sighash::{signature_hash, SignableInput};
use zcash_primitives::transaction::testing::arb_tx;
use zcash_primitives::transaction::txid::TxIdDigester;
use zcash_primitives::transaction::{
    Authorization, Authorized, Transaction, TransactionData, TxDigests, TxVersion,
};
use zcash_protocol::consensus::BranchId;
use zcash_protocol::value::{ZatBalance, Zatoshis};
use zcash_transparent::address::Script;
use zcash_transparent::bundle::{self as tb, OutPoint, TxIn, TxOut};
use zcash_transparent::sighash::{SighashType, TransparentAuthorizingContext};

type OAct = Action<redpallas::Signature<redpallas::SpendAuth>>;
type SSpend = SpendDescription<SAuthorized>;
type SOut = OutputDescription<GrothProofBytes>;

const MAX_MONEY: i64 = 21_000_000 * 100_000_000;

// ---------------------------------------------------------------------------------------------
// signing context
// ---------------------------------------------------------------------------------------------

#[derive(Debug)]
struct Hta {
    amounts: Vec<Zatoshis>,
    scripts: Vec<Script>,
}
impl tb::Authorization for Hta {
    type ScriptSig = Script;
}
impl TransparentAuthorizingContext for Hta {
    fn input_amounts(&self) -> Vec<Zatoshis> {
        self.amounts.clone()
    }
    fn input_scriptpubkeys(&self) -> Vec<Script> {
        self.scripts.clone()
    }
}
struct Hu;
impl Authorization for Hu {
    type TransparentAuth = Hta;
    type SaplingAuth = SAuthorized;
    type OrchardAuth = OAuthorized;
}

// ---------------------------------------------------------------------------------------------
// plain-data transaction
// ---------------------------------------------------------------------------------------------

#[derive(Clone)]
struct Ob {
    acts: Vec<OAct>,
    flags: Flags,
    vb: ZatBalance,
    anchor: Anchor,
    proof: Vec<u8>,
    bsig: redpallas::Signature<redpallas::Binding>,
    bv: BundleVersion,
}
#[derive(Clone)]
struct Sb {
    spends: Vec<SSpend>,
    outputs: Vec<SOut>,
    vb: ZatBalance,
    bsig: redjubjub::Signature<redjubjub::Binding>,
}
#[derive(Clone)]
struct MTx {
    version: TxVersion,
    branch: BranchId,
    lock: u32,
    expiry: u32,
    transp: Option<(Vec<TxIn<tb::Authorized>>, Vec<TxOut>)>,
    sap: Option<Sb>,
    orch: Option<Ob>,
    iron: Option<Ob>,
    sprout: Option<SproutBundle>,
}
/// a coin being spent: value, scriptPubKey, and the script code a signer would use for it
/// (equal to the scriptPubKey for P2PKH-like coins, the redeem script for P2SH coins)
type Coin = (Zatoshis, Script, Script);

fn script(v: Vec<u8>) -> Script {
    Script(zcash_script::script::Code(v))
}
fn script_bytes(s: &Script) -> &[u8] {
    &s.0 .0
}

impl Ob {
    fn build(&self) -> orchard::Bundle<OAuthorized, ZatBalance> {
        orchard::Bundle::try_from_parts(
            NonEmpty::from_vec(self.acts.clone()).expect("actions"),
            self.flags,
            self.vb,
            self.anchor,
            OAuthorized::from_parts(Proof::new(self.proof.clone()), self.bsig.clone()),
            self.bv,
        )
        .expect("orchard bundle parts")
    }
    fn of(b: &orchard::Bundle<OAuthorized, ZatBalance>) -> Ob {
        Ob {
            acts: b.actions().iter().cloned().collect(),
            flags: *b.flags(),
            vb: *b.value_balance(),
            anchor: *b.anchor(),
            proof: b.authorization().proof().as_ref().to_vec(),
            bsig: b.authorization().binding_signature().clone(),
            bv: b.bundle_version(),
        }
    }
}
impl Sb {
    fn build(&self) -> Option<sapling::Bundle<SAuthorized, ZatBalance>> {
        sapling::Bundle::from_parts(
            self.spends.clone(),
            self.outputs.clone(),
            self.vb,
            SAuthorized { binding_sig: self.bsig },
        )
    }
    fn of(b: &sapling::Bundle<SAuthorized, ZatBalance>) -> Sb {
        Sb {
            spends: b.shielded_spends().to_vec(),
            outputs: b.shielded_outputs().to_vec(),
            vb: *b.value_balance(),
            bsig: b.authorization().binding_sig,
        }
    }
}

impl MTx {
    fn is_v6(&self) -> bool {
        matches!(self.version, TxVersion::V6)
    }
    fn tbundle<A: tb::Authorization<ScriptSig = Script>>(&self, a: A) -> Option<tb::Bundle<A>> {
        self.transp.as_ref().map(|(vin, vout)| tb::Bundle {
            vin: vin
                .iter()
                .map(|i| TxIn::from_parts(i.prevout().clone(), i.script_sig().clone(), i.sequence()))
                .collect(),
            vout: vout.clone(),
            authorization: a,
        })
    }
    fn data<A: Authorization<SaplingAuth = SAuthorized, OrchardAuth = OAuthorized>>(
        &self,
        t: Option<tb::Bundle<A::TransparentAuth>>,
    ) -> TransactionData<A> {
        let s = self.sap.as_ref().and_then(|s| s.build());
        let o = self.orch.as_ref().map(|o| o.build());
        let i = self.iron.as_ref().map(|o| o.build());
        match self.version {
            TxVersion::V6 => {
                TransactionData::from_parts_v6(self.branch, self.lock, self.expiry.into(), t, s, o, i)
            }
            v => {
                assert!(i.is_none());
                TransactionData::from_parts(v, self.branch, self.lock, self.expiry.into(), t, self.sprout.clone(), s, o)
            }
        }
    }
    fn authorized(&self) -> TransactionData<Authorized> {
        self.data::<Authorized>(self.tbundle(tb::Authorized))
    }
    fn signing(&self, coins: &[Coin]) -> TransactionData<Hu> {
        self.data::<Hu>(self.tbundle(Hta {
            amounts: coins.iter().map(|c| c.0).collect(),
            scripts: coins.iter().map(|c| c.1.clone()).collect(),
        }))
    }
    fn of(d: &TransactionData<Authorized>) -> MTx {
        MTx {
            version: d.version(),
            branch: d.consensus_branch_id(),
            lock: d.lock_time(),
            expiry: d.expiry_height().into(),
            transp: d.transparent_bundle().map(|b| (b.vin.clone(), b.vout.clone())),
            sap: d.sapling_bundle().map(Sb::of),
            orch: d.orchard_bundle().map(Ob::of),
            iron: d.ironwood_bundle().map(Ob::of),
            sprout: d.sprout_bundle().cloned(),
        }
    }
    fn n_in(&self) -> usize {
        self.transp.as_ref().map_or(0, |t| t.0.len())
    }
    fn n_out(&self) -> usize {
        self.transp.as_ref().map_or(0, |t| t.1.len())
    }
}

// ---------------------------------------------------------------------------------------------
// Coq printers
// ---------------------------------------------------------------------------------------------

fn h(b: &[u8]) -> String {
    let chunks: Vec<String> = b.chunks(7).map(|c| format!("0x{}", hex(c))).collect();
    format!("(h {} [{}]%uint63)", b.len(), chunks.join(";"))
}
fn zz(x: i64) -> String {
    if x < 0 { format!("({})%Z", x) } else { format!("{}%Z", x) }
}
fn coq_ob(o: &Option<Ob>) -> String {
    match o {
        None => "None".into(),
        Some(o) => {
            let b = o.build();
            let acts = list(b.actions().iter().map(|a| {
                let n = a.encrypted_note();
                format!(
                    "OA {} {} {} {} {} {} {} {} {} {}",
                    h(&a.nullifier().to_bytes()),
                    h(&a.cmx().to_bytes()),
                    h(&n.epk_bytes),
                    h(&n.enc_ciphertext[..52]),
                    h(&n.enc_ciphertext[52..564]),
                    h(&a.cv_net().to_bytes()),
                    h(&<[u8; 32]>::from(a.rk())),
                    h(&n.enc_ciphertext[564..]),
                    h(&n.out_ciphertext),
                    h(&<[u8; 64]>::from(a.authorization()))
                )
            }));
            format!(
                "(Some (OB {} {} {} {} {} {}))",
                acts,
                b.flag_byte(),
                zz(i64::from(*b.value_balance())),
                h(&b.anchor().to_bytes()),
                h(b.authorization().proof().as_ref()),
                h(&<[u8; 64]>::from(b.authorization().binding_signature()))
            )
        }
    }
}
fn coq_sb(s: &Option<Sb>) -> String {
    use ff::PrimeField;
    match s.as_ref().and_then(|s| s.build()) {
        None => "None".into(),
        Some(b) => {
            let sp = list(b.shielded_spends().iter().map(|s| {
                format!(
                    "SS {} {} {} {} {} {}",
                    h(&s.cv().to_bytes()),
                    h(s.anchor().to_repr().as_ref()),
                    h(s.nullifier().as_ref()),
                    h(&<[u8; 32]>::from(*s.rk())),
                    h(s.zkproof()),
                    h(&<[u8; 64]>::from(*s.spend_auth_sig()))
                )
            }));
            let out = list(b.shielded_outputs().iter().map(|o| {
                format!(
                    "SO {} {} {} {} {} {} {} {}",
                    h(&o.cmu().to_bytes()),
                    h(o.ephemeral_key().as_ref()),
                    h(&o.enc_ciphertext()[..52]),
                    h(&o.enc_ciphertext()[52..564]),
                    h(&o.cv().to_bytes()),
                    h(&o.enc_ciphertext()[564..]),
                    h(&o.out_ciphertext()[..]),
                    h(o.zkproof())
                )
            }));
            format!(
                "(Some (SA {} {} {} {}))",
                sp,
                out,
                zz(i64::from(*b.value_balance())),
                h(&<[u8; 64]>::from(b.authorization().binding_sig))
            )
        }
    }
}
fn coq_tx(t: &MTx) -> String {
    let ver = match t.version {
        TxVersion::V5 => "V5",
        TxVersion::V6 => "V6",
        _ => panic!("v5/v6 only"),
    };
    let tr = match &t.transp {
        None => "None".into(),
        Some((vin, vout)) => format!(
            "(Some (TB {} {}))",
            list(vin.iter().map(|i| format!(
                "TI {} {} {} {}",
                h(i.prevout().hash()),
                i.prevout().n(),
                h(script_bytes(i.script_sig())),
                i.sequence()
            ))),
            list(vout.iter().map(|o| format!(
                "TO {} {}",
                u64::from(o.value()),
                h(script_bytes(o.script_pubkey()))
            )))
        ),
    };
    format!(
        "(TX {} {} {} {} {} {} {} {})",
        ver,
        u32::from(t.branch),
        t.lock,
        t.expiry,
        tr,
        coq_sb(&t.sap),
        coq_ob(&t.orch),
        coq_ob(&t.iron)
    )
}
/// structural fingerprint of a transaction of any version (used to drop no-op mutations)
fn coq_tx_any(t: &MTx) -> String {
    let mut u = t.clone();
    u.version = TxVersion::V5;
    coq_tx(&u)
}
fn js_bytes(j: &JsDescription) -> Vec<u8> {
    let mut v = vec![];
    j.write(&mut v).unwrap();
    v
}
fn coq_transp(t: &MTx) -> String {
    match &t.transp {
        None => "None".into(),
        Some((vin, vout)) => format!(
            "(Some (TB {} {}))",
            list(vin.iter().map(|i| format!(
                "TI {} {} {} {}",
                h(i.prevout().hash()),
                i.prevout().n(),
                h(script_bytes(i.script_sig())),
                i.sequence()
            ))),
            list(vout.iter().map(|o| format!(
                "TO {} {}",
                u64::from(o.value()),
                h(script_bytes(o.script_pubkey()))
            )))
        ),
    }
}
/// a v3/v4 transaction as a Coq `tx4`
fn coq_tx4(t: &MTx) -> String {
    let ver = match t.version {
        TxVersion::V3 => "VV3",
        TxVersion::V4 => "VV4",
        _ => panic!("v3/v4 only"),
    };
    let (js, pk, sig) = match &t.sprout {
        Some(b) if !b.joinsplits.is_empty() => (
            list(b.joinsplits.iter().map(|j| h(&js_bytes(j)))),
            h(&b.joinsplit_pubkey),
            h(&b.joinsplit_sig),
        ),
        _ => ("[]".to_string(), h(&[]), h(&[])),
    };
    format!(
        "(TX4 {} {} {} {} {} {} {} {} {})",
        ver,
        u32::from(t.branch),
        t.lock,
        t.expiry,
        coq_transp(t),
        coq_sb(&t.sap),
        js,
        pk,
        sig
    )
}
fn coq_obs4(t: &MTx, reqs: &[Req], o: &Obs) -> String {
    let tx = t.authorized().freeze().unwrap();
    assert_eq!(tx.txid().as_ref(), &o.txid);
    let sigs = list(reqs.iter().zip(o.sigs.iter()).filter_map(|(r, d)| {
        d.map(|d| {
            format!(
                "SG4 {} {}%nat {} {} {} {}",
                r.ht,
                r.idx,
                u64::from(r.value),
                h(script_bytes(&r.spk)),
                h(script_bytes(&r.code)),
                h(&d)
            )
        })
    }));
    format!("(OBS4 {} {} {} {})", h(&o.txid), h(&sha256d(&ser(&tx))), h(&o.shsig), sigs)
}
fn coq_coins(c: &[Coin]) -> String {
    list(c.iter().map(|(v, s, _)| format!("({}, {})", u64::from(*v), h(script_bytes(s)))))
}

// ---------------------------------------------------------------------------------------------
// observation of the implementation
// ---------------------------------------------------------------------------------------------

#[derive(Clone)]
struct Req {
    ht: u8,
    idx: usize,
    value: Zatoshis,
    spk: Script,
    code: Script,
}
struct Obs {
    txid: [u8; 32],
    auth: [u8; 32],
    shsig: [u8; 32],
    parts: Vec<Vec<u8>>,
    sigs: Vec<Option<[u8; 32]>>,
}

fn parts_list(p: &TxDigests<Blake2bHash>) -> Vec<Vec<u8>> {
    // header, [prevouts, sequence, outputs] (empty strings when there is no transparent bundle),
    // sapling, orchard, ironwood (empty string = None)
    let o = |x: &Option<Blake2bHash>| x.map_or(vec![], |d| d.as_bytes().to_vec());
    let mut v = vec![p.header_digest.as_bytes().to_vec()];
    match &p.transparent_digests {
        Some(d) => {
            v.push(d.prevouts_digest.as_bytes().to_vec());
            v.push(d.sequence_digest.as_bytes().to_vec());
            v.push(d.outputs_digest.as_bytes().to_vec());
        }
        None => {
            v.push(vec![]);
            v.push(vec![]);
            v.push(vec![]);
        }
    }
    v.push(o(&p.sapling_digest));
    v.push(o(&p.orchard_digest));
    v.push(o(&p.ironwood_digest));
    v
}

fn observe(t: &MTx, coins: &[Coin], reqs: &[Req]) -> Obs {
    let data = t.authorized();
    let parts = data.digest(TxIdDigester);
    let tx: Transaction = data.freeze().expect("freeze");
    let txid: [u8; 32] = *tx.txid().as_ref();
    let auth: [u8; 32] = tx.auth_commitment().as_bytes().try_into().unwrap();
    let sd = t.signing(coins);
    let shsig = *signature_hash(&sd, &SignableInput::Shielded, &parts).as_ref();
    let sigs = reqs
        .iter()
        .map(|r| {
            let b = sd.transparent_bundle()?;
            // ZIP 244 accepts the six defined hash types only; before v5 the raw byte is used
            let ht = match t.version {
                TxVersion::V3 | TxVersion::V4 => SighashType::from_raw(r.ht),
                _ => SighashType::parse(r.ht)?,
            };
            let si = zcash_transparent::sighash::SignableInput::from_parts(b, ht, r.idx, &r.code, &r.spk, r.value).ok()?;
            catch(|| *signature_hash(&sd, &SignableInput::Transparent(si), &parts).as_ref())
        })
        .collect();
    Obs { txid, auth, shsig, parts: parts_list(&parts), sigs }
}

fn coq_sigs(reqs: &[Req], o: &Obs) -> String {
    list(reqs.iter().zip(o.sigs.iter()).filter_map(|(r, d)| {
        d.map(|d| {
            format!(
                "SG {} {}%nat {} {} {} {}",
                r.ht,
                r.idx,
                u64::from(r.value),
                h(script_bytes(&r.spk)),
                h(script_bytes(&r.code)),
                h(&d)
            )
        })
    }))
}
fn coq_obs(reqs: &[Req], o: &Obs) -> String {
    format!("(OBS {} {} {} {})", h(&o.txid), h(&o.auth), h(&o.shsig), coq_sigs(reqs, o))
}

// ---------------------------------------------------------------------------------------------
// generation
// ---------------------------------------------------------------------------------------------

const HASH_TYPES: [u8; 6] = [0x01, 0x02, 0x03, 0x81, 0x82, 0x83];
const V5_BRANCHES: [BranchId; 5] =
    [BranchId::Nu5, BranchId::Nu6, BranchId::Nu6_1, BranchId::Nu6_2, BranchId::Nu6_3];

struct Gen {
    rng: Rng,
    runner: TestRunner,
    spends: Vec<SSpend>,
    outputs: Vec<SOut>,
    sbsigs: Vec<redjubjub::Signature<redjubjub::Binding>>,
    obundles: Vec<Ob>, // one-action donor bundles (any version)
    stats: BTreeMap<String, u64>,
}

impl Gen {
    fn new(seed: u64, stream: u64) -> Gen {
        let mut rng = Rng::new(seed, stream);
        let s = rng.bytes(32);
        let runner = TestRunner::new_with_rng(
            PtConfig::default(),
            TestRng::from_seed(RngAlgorithm::ChaCha, &s),
        );
        Gen { rng, runner, spends: vec![], outputs: vec![], sbsigs: vec![], obundles: vec![], stats: BTreeMap::new() }
    }
    fn bump(&mut self, k: &str) {
        *self.stats.entry(k.to_string()).or_insert(0) += 1;
    }
    /// Sample a proptest strategy; strategies with local filters can reject ("Too many local
    /// rejects"), so retry with the advanced RNG. A persistent failure panics and is absorbed by the
    /// per-step guard in `main`.
    fn sample<S: Strategy>(&mut self, s: S) -> S::Value {
        for _ in 0..64 {
            if let Ok(t) = s.new_tree(&mut self.runner) {
                return t.current();
            }
            // the runner counts local rejects cumulatively and fails every filtered strategy once
            // the limit is reached: start a fresh runner (seeded from the one PRNG)
            self.bump("strategy_rejects");
            let seed = self.rng.bytes(32);
            self.runner = TestRunner::new_with_rng(
                PtConfig::default(),
                TestRng::from_seed(RngAlgorithm::ChaCha, &seed),
            );
        }
        panic!("strategy kept rejecting")
    }
    fn refill_sapling(&mut self) {
        while self.spends.len() < 8 || self.outputs.len() < 8 || self.sbsigs.is_empty() {
            if let Some(b) = self.sample(ps_testing::arb_bundle()) {
                self.spends.extend(b.shielded_spends().iter().cloned());
                self.outputs.extend(b.shielded_outputs().iter().cloned());
                self.sbsigs.push(b.authorization().binding_sig);
            }
        }
    }
    fn spend(&mut self) -> SSpend {
        self.refill_sapling();
        self.spends.pop().unwrap()
    }
    fn output(&mut self) -> SOut {
        self.refill_sapling();
        self.outputs.pop().unwrap()
    }
    fn sbsig(&mut self) -> redjubjub::Signature<redjubjub::Binding> {
        self.refill_sapling();
        if self.sbsigs.len() > 1 { self.sbsigs.pop().unwrap() } else { self.sbsigs[0] }
    }
    /// a donor Orchard bundle with `n` actions (note version irrelevant for the digests)
    fn obundle(&mut self, n: usize) -> Ob {
        let b = self.sample(po_testing::arb_bundle(n));
        Ob::of(&b)
    }
    fn oact(&mut self) -> (OAct, Anchor, redpallas::Signature<redpallas::Binding>) {
        if self.obundles.is_empty() {
            let b = self.obundle(4);
            for a in &b.acts {
                self.obundles.push(Ob { acts: vec![a.clone()], ..b.clone() });
            }
        }
        let b = self.obundles.pop().unwrap();
        (b.acts[0].clone(), b.anchor, b.bsig)
    }
    fn balance(&mut self) -> ZatBalance {
        let v = match self.rng.below(6) {
            0 => 0,
            1 => MAX_MONEY,
            2 => -MAX_MONEY,
            3 => -1,
            _ => (self.rng.below(2 * MAX_MONEY as u64 + 1) as i64) - MAX_MONEY,
        };
        ZatBalance::from_i64(v).unwrap()
    }
    fn zat(&mut self) -> Zatoshis {
        let v = match self.rng.below(5) {
            0 => 0,
            1 => MAX_MONEY as u64,
            2 => 1,
            _ => self.rng.below(MAX_MONEY as u64 + 1),
        };
        Zatoshis::from_u64(v).unwrap()
    }
    fn script_len(&mut self, big: bool) -> usize {
        match self.rng.below(12) {
            0 => 0,
            1 => 252,
            2 => 253,
            3 => 254,
            4 if big => 65535,
            5 if big => 65536,
            6 => 1,
            7 => 25,
            _ => self.rng.below(40) as usize,
        }
    }
    fn script(&mut self, big: bool) -> Script {
        let n = self.script_len(big);
        script(self.rng.bytes(n))
    }
    fn u32(&mut self) -> u32 {
        match self.rng.below(5) {
            0 => 0,
            1 => u32::MAX,
            2 => 1,
            _ => self.rng.u64() as u32,
        }
    }
    /// P2SH-shaped (script code = redeem script, different from the scriptPubKey), P2PKH-shaped
    /// (script code = scriptPubKey) or arbitrary, equal or different.
    fn coin(&mut self) -> Coin {
        let v = self.zat();
        match self.rng.below(5) {
            0 | 1 => {
                let mut spk = vec![0xa9, 0x14];
                spk.extend(self.rng.bytes(20));
                spk.push(0x87);
                let code = self.script(false);
                (v, script(spk), code)
            }
            2 => {
                let mut spk = vec![0x76, 0xa9, 0x14];
                spk.extend(self.rng.bytes(20));
                spk.extend([0x88, 0xac]);
                (v, script(spk.clone()), script(spk))
            }
            3 => {
                let s = self.script(false);
                (v, s.clone(), s)
            }
            _ => {
                let a = self.script(false);
                let b = self.script(false);
                (v, a, b)
            }
        }
    }
    fn txin(&mut self, big: bool) -> TxIn<tb::Authorized> {
        let hash: [u8; 32] = self.rng.bytes(32).try_into().unwrap();
        let n = if self.rng.chance(1, 6) { u32::MAX } else { self.rng.below(100) as u32 };
        let s = self.script(big);
        let q = self.u32();
        TxIn::from_parts(OutPoint::new(hash, n), s, q)
    }
    fn txout(&mut self, big: bool) -> TxOut {
        let v = self.zat();
        let s = self.script(big);
        TxOut::new(v, s)
    }
    fn sapling(&mut self, ns: usize, no: usize, uniform: bool) -> Option<Sb> {
        if ns + no == 0 {
            return None;
        }
        let mut spends: Vec<SSpend> = (0..ns).map(|_| self.spend()).collect();
        if uniform && ns > 1 {
            let a = *spends[0].anchor();
            spends = spends.iter().map(|s| with_spend(s, |p| p.anchor = a)).collect();
        }
        let outputs = (0..no).map(|_| self.output()).collect();
        let vb = self.balance();
        let bsig = self.sbsig();
        Some(Sb { spends, outputs, vb, bsig })
    }
    /// An Orchard-shaped bundle for `bv` with `n` actions. Insecure-v1 bundles get a short,
    /// arbitrary-length proof (their proof size is not enforced); later versions the canonical size.
    fn orchard(&mut self, bv: BundleVersion, n: usize) -> Ob {
        let mut acts = vec![];
        let mut anchor = None;
        let mut bsig = None;
        for _ in 0..n {
            let (a, an, bs) = self.oact();
            acts.push(a);
            anchor = Some(an);
            bsig = Some(bs);
        }
        let plen = if bv == BundleVersion::orchard_insecure_v1() {
            *self.rng.pick(&[0usize, 1, 31, 64, 127, 128, 129, 200])
        } else {
            Proof::expected_proof_size(n)
        };
        let proof = self.rng.bytes(plen);
        let mut byte = (self.rng.below(4)) as u8;
        if bv == BundleVersion::ironwood_v3() && self.rng.bool() {
            byte |= 4;
        }
        let flags = Flags::from_byte(byte, bv).expect("flags");
        let vb = self.balance();
        Ob { acts, flags, vb, anchor: anchor.unwrap(), proof, bsig: bsig.unwrap(), bv }
    }
    fn orchard_version(&mut self, branch: BranchId, v6: bool, cheap: bool) -> BundleVersion {
        if v6 {
            return BundleVersion::orchard_v3();
        }
        if cheap {
            return BundleVersion::orchard_insecure_v1();
        }
        match branch {
            BranchId::Nu6_2 => BundleVersion::orchard_v2(),
            BranchId::Nu6_3 => BundleVersion::orchard_v3(),
            _ => BundleVersion::orchard_insecure_v1(),
        }
    }

    /// A small structured transaction. `shape` bits choose which bundles are present.
    fn tx(&mut self, v6: bool, max_n: u64, big: bool, uniform: bool) -> (MTx, Vec<Coin>) {
        let branch = if v6 { BranchId::Nu6_3 } else { *self.rng.pick(&V5_BRANCHES) };
        let lock = self.u32();
        let expiry = self.u32();
        let kind = self.rng.below(10);
        let transp = match kind {
            0 => None,
            1 => {
                // coinbase
                let s = self.script(false);
                let q = self.u32();
                let n_out = self.rng.range(1, 2) as usize;
                let outs = (0..n_out).map(|_| self.txout(big)).collect();
                Some((vec![TxIn::from_parts(OutPoint::new([0; 32], u32::MAX), s, q)], outs))
            }
            2 => {
                // outputs only
                let n_out = self.rng.range(1, max_n.max(1)) as usize;
                Some((vec![], (0..n_out).map(|_| self.txout(big)).collect()))
            }
            3 => {
                // inputs only
                let n_in = self.rng.range(1, max_n.max(1)) as usize;
                Some(((0..n_in).map(|_| self.txin(big)).collect(), vec![]))
            }
            _ => {
                let n_in = self.rng.range(1, max_n.max(1)) as usize;
                let n_out = self.rng.range(1, max_n.max(1)) as usize;
                Some((
                    (0..n_in).map(|_| self.txin(big)).collect(),
                    (0..n_out).map(|_| self.txout(big)).collect(),
                ))
            }
        };
        let sap = match self.rng.below(5) {
            0 | 1 => None,
            2 => {
                let b = self.rng.range(1, max_n.max(1)) as usize;
                self.sapling(0, b, uniform)
            }
            3 => {
                let a = self.rng.range(1, max_n.max(1)) as usize;
                self.sapling(a, 0, uniform)
            }
            _ => {
                let a = self.rng.range(1, max_n.max(1)) as usize;
                let b = self.rng.range(1, max_n.max(1)) as usize;
                self.sapling(a, b, uniform)
            }
        };
        let cheap = !v6 && self.rng.chance(3, 4);
        let orch = if self.rng.chance(1, 2) {
            let bv = self.orchard_version(branch, v6, cheap);
            let n = self.rng.range(1, max_n.clamp(1, 2)) as usize;
            Some(self.orchard(bv, n))
        } else {
            None
        };
        let iron = if v6 && self.rng.chance(1, 2) {
            Some(self.orchard(BundleVersion::ironwood_v3(), 1))
        } else {
            None
        };
        let version = if v6 { TxVersion::V6 } else { TxVersion::V5 };
        let t = MTx { version, branch, lock, expiry, transp, sap, orch, iron, sprout: None };
        let coins = (0..t.n_in()).map(|_| self.coin()).collect();
        (t, coins)
    }
}

fn with_spend(s: &SSpend, f: impl FnOnce(&mut SpendParts)) -> SSpend {
    let mut p = SpendParts {
        cv: s.cv().clone(),
        anchor: *s.anchor(),
        nf: *s.nullifier(),
        rk: *s.rk(),
        proof: *s.zkproof(),
        sig: *s.spend_auth_sig(),
    };
    f(&mut p);
    SpendDescription::from_parts(p.cv, p.anchor, p.nf, p.rk, p.proof, p.sig)
}
struct SpendParts {
    cv: sapling::value::ValueCommitment,
    anchor: bls12_381::Scalar,
    nf: sapling::Nullifier,
    rk: redjubjub::VerificationKey<redjubjub::SpendAuth>,
    proof: GrothProofBytes,
    sig: redjubjub::Signature<redjubjub::SpendAuth>,
}
struct OutParts {
    cv: sapling::value::ValueCommitment,
    cmu: sapling::note::ExtractedNoteCommitment,
    epk: zcash_note_encryption::EphemeralKeyBytes,
    enc: [u8; 580],
    out: [u8; 80],
    proof: GrothProofBytes,
}
fn with_out(o: &SOut, f: impl FnOnce(&mut OutParts)) -> SOut {
    let mut p = OutParts {
        cv: o.cv().clone(),
        cmu: *o.cmu(),
        epk: o.ephemeral_key().clone(),
        enc: *o.enc_ciphertext(),
        out: *o.out_ciphertext(),
        proof: *o.zkproof(),
    };
    f(&mut p);
    OutputDescription::from_parts(p.cv, p.cmu, p.epk, p.enc, p.out, p.proof)
}
struct ActParts {
    nf: orchard::note::Nullifier,
    rk: redpallas::VerificationKey<redpallas::SpendAuth>,
    cmx: orchard::note::ExtractedNoteCommitment,
    note: TransmittedNoteCiphertext,
    cv: orchard::value::ValueCommitment,
    sig: redpallas::Signature<redpallas::SpendAuth>,
}
fn with_act(a: &OAct, f: impl FnOnce(&mut ActParts)) -> OAct {
    let mut p = ActParts {
        nf: *a.nullifier(),
        rk: a.rk().clone(),
        cmx: *a.cmx(),
        note: a.encrypted_note().clone(),
        cv: a.cv_net().clone(),
        sig: a.authorization().clone(),
    };
    f(&mut p);
    Action::from_parts(p.nf, p.rk, p.cmx, p.note, p.cv, p.sig).expect("action parts")
}

fn flip(b: &mut [u8], rng: &mut Rng) {
    let i = rng.below(b.len() as u64) as usize;
    b[i] ^= 1 << rng.below(8);
}
fn flip_sig64<T: From<[u8; 64]>>(cur: [u8; 64], rng: &mut Rng) -> T {
    let mut b = cur;
    flip(&mut b, rng);
    T::from(b)
}
fn bump_balance(v: ZatBalance) -> ZatBalance {
    let x = i64::from(v);
    ZatBalance::from_i64(if x >= MAX_MONEY { x - 1 } else { x + 1 }).unwrap()
}
fn bump_zat(v: Zatoshis) -> Zatoshis {
    let x = u64::from(v);
    Zatoshis::from_u64(if x >= MAX_MONEY as u64 { x - 1 } else { x + 1 }).unwrap()
}
fn mutate_script(s: &Script, rng: &mut Rng) -> Script {
    let mut v = script_bytes(s).to_vec();
    match rng.below(3) {
        0 if !v.is_empty() => {
            flip(&mut v, rng);
        }
        1 if !v.is_empty() => {
            v.pop();
        }
        _ => v.push(rng.below(256) as u8),
    }
    script(v)
}

/// Field codes (kept in step with `field_class` in coq/C04/Spec.v).
/// Returns None when the field does not exist in this transaction.
fn mutate(g: &mut Gen, t: &MTx, coins: &[Coin], field: u32) -> Option<(MTx, Vec<Coin>, usize)> {
    let mut m = t.clone();
    let mut c = coins.to_vec();
    let mut which = 0usize;
    match field {
        1 => m.lock = m.lock.wrapping_add(1 + g.rng.below(5) as u32),
        2 => m.expiry ^= 1 << g.rng.below(32),
        3 => {
            let others: Vec<BranchId> = V5_BRANCHES.iter().copied().filter(|b| *b != m.branch).collect();
            m.branch = *g.rng.pick(&others);
        }
        4 => {
            if m.iron.is_some() {
                return None;
            }
            m.version = if m.is_v6() { TxVersion::V5 } else { TxVersion::V6 };
            // the Orchard slot of a v6 transaction needs a v6-representable bundle version and
            // vice versa; keep the data, change the slot's bundle version only when required
            if let Some(o) = &mut m.orch {
                let bv = if m.version == TxVersion::V6 { BundleVersion::orchard_v3() } else { BundleVersion::orchard_v2() };
                let byte = o.build().flag_byte();
                o.flags = Flags::from_byte(byte & 3, bv)?;
                o.bv = bv;
                if o.proof.len() != Proof::expected_proof_size(o.acts.len()) {
                    return None;
                }
            }
        }
        10..=13 => {
            let (vin, _) = m.transp.as_mut()?;
            if vin.is_empty() {
                return None;
            }
            let k = g.rng.below(vin.len() as u64) as usize;
            which = k;
            let i = &vin[k];
            let (mut hash, mut n, mut sig, mut seq) =
                (*i.prevout().hash(), i.prevout().n(), i.script_sig().clone(), i.sequence());
            match field {
                10 => flip(&mut hash, &mut g.rng),
                11 => n = n.wrapping_add(1),
                12 => sig = mutate_script(&sig, &mut g.rng),
                _ => seq ^= 1 << g.rng.below(32),
            }
            vin[k] = TxIn::from_parts(OutPoint::new(hash, n), sig, seq);
        }
        20 | 21 => {
            let (_, vout) = m.transp.as_mut()?;
            if vout.is_empty() {
                return None;
            }
            let k = g.rng.below(vout.len() as u64) as usize;
            which = k;
            let o = &vout[k];
            vout[k] = if field == 20 {
                TxOut::new(bump_zat(o.value()), o.script_pubkey().clone())
            } else {
                TxOut::new(o.value(), mutate_script(o.script_pubkey(), &mut g.rng))
            };
        }
        30..=35 => {
            let donor = g.spend();
            let s = m.sap.as_mut()?;
            if s.spends.is_empty() {
                return None;
            }
            let k = g.rng.below(s.spends.len() as u64) as usize;
            if field == 31 {
                // the shared anchor: change it on every spend
                let a = *donor.anchor();
                s.spends = s.spends.iter().map(|x| with_spend(x, |p| p.anchor = a)).collect();
            } else {
                let rng = &mut g.rng;
                s.spends[k] = with_spend(&s.spends[k], |p| match field {
                    30 => p.cv = donor.cv().clone(),
                    32 => p.nf = *donor.nullifier(),
                    33 => p.rk = *donor.rk(),
                    34 => flip(&mut p.proof, rng),
                    _ => p.sig = flip_sig64(<[u8; 64]>::from(p.sig), rng),
                });
            }
        }
        40..=47 => {
            let donor = g.output();
            let s = m.sap.as_mut()?;
            if s.outputs.is_empty() {
                return None;
            }
            let k = g.rng.below(s.outputs.len() as u64) as usize;
            let rng = &mut g.rng;
            s.outputs[k] = with_out(&s.outputs[k], |p| match field {
                40 => p.cv = donor.cv().clone(),
                41 => p.cmu = *donor.cmu(),
                42 => p.epk = donor.ephemeral_key().clone(),
                43 => flip(&mut p.enc[..52], rng),
                44 => flip(&mut p.enc[52..564], rng),
                45 => flip(&mut p.enc[564..], rng),
                46 => flip(&mut p.out, rng),
                _ => flip(&mut p.proof, rng),
            });
        }
        48 => {
            let s = m.sap.as_mut()?;
            s.vb = bump_balance(s.vb);
        }
        49 => {
            let s = m.sap.as_mut()?;
            s.bsig = flip_sig64(<[u8; 64]>::from(s.bsig), &mut g.rng);
        }
        50..=64 | 70..=84 => {
            let (donor, danchor, _) = g.oact();
            let iron = field >= 70;
            let f = if iron { field - 20 } else { field };
            let o = if iron { m.iron.as_mut()? } else { m.orch.as_mut()? };
            let k = g.rng.below(o.acts.len() as u64) as usize;
            let rng = &mut g.rng;
            match f {
                50..=59 => {
                    o.acts[k] = with_act(&o.acts[k], |p| match f {
                        50 => p.nf = *donor.nullifier(),
                        51 => p.cmx = *donor.cmx(),
                        52 => p.note.epk_bytes = donor.encrypted_note().epk_bytes,
                        53 => flip(&mut p.note.enc_ciphertext[..52], rng),
                        54 => flip(&mut p.note.enc_ciphertext[52..564], rng),
                        55 => p.cv = donor.cv_net().clone(),
                        56 => p.rk = donor.rk().clone(),
                        57 => flip(&mut p.note.enc_ciphertext[564..], rng),
                        58 => flip(&mut p.note.out_ciphertext, rng),
                        _ => p.sig = flip_sig64(<[u8; 64]>::from(&p.sig), rng),
                    })
                }
                60 => {
                    let byte = o.build().flag_byte();
                    o.flags = Flags::from_byte(byte ^ (1 << rng.below(2)), o.bv)?;
                }
                61 => o.vb = bump_balance(o.vb),
                62 => o.anchor = danchor,
                63 => {
                    if o.proof.is_empty() {
                        return None;
                    }
                    flip(&mut o.proof, rng)
                }
                _ => o.bsig = flip_sig64(<[u8; 64]>::from(&o.bsig), rng),
            }
        }
        85..=87 => {
            // JoinSplit data (only transactions read from the ZIP 143/243 vectors carry any)
            let b = m.sprout.as_mut()?;
            if b.joinsplits.is_empty() {
                return None;
            }
            match field {
                85 => {
                    let k = g.rng.below(b.joinsplits.len() as u64) as usize;
                    which = k;
                    let mut bytes = js_bytes(&b.joinsplits[k]);
                    let n = bytes.len();
                    flip(&mut bytes[n - 1202..], &mut g.rng);
                    b.joinsplits[k] = JsDescription::read(&bytes[..], n == 1698).ok()?;
                }
                86 => flip(&mut b.joinsplit_pubkey, &mut g.rng),
                _ => flip(&mut b.joinsplit_sig, &mut g.rng),
            }
        }
        _ => return None,
    }
    if c.len() != m.n_in() {
        c.truncate(m.n_in());
    }
    Some((m, c, which))
}

const TX_FIELDS: [u32; 64] = [
    1, 2, 3, 4, 10, 11, 12, 13, 20, 21, 30, 31, 32, 33, 34, 35, 40, 41, 42, 43, 44, 45, 46, 47, 48, 49, 50, 51, 52,
    53, 54, 55, 56, 57, 58, 59, 60, 61, 62, 63, 64, 70, 71, 72, 73, 74, 75, 76, 77, 78, 79, 80, 81, 82, 83, 84, 90,
    91, 92, 93, 94, 95, 96, 97,
];

fn all_reqs(t: &MTx, coins: &[Coin], idxs: &[usize]) -> Vec<Req> {
    let mut v = vec![];
    for &i in idxs {
        if i < t.n_in() {
            for ht in HASH_TYPES {
                v.push(Req { ht, idx: i, value: coins[i].0, spk: coins[i].1.clone(), code: coins[i].2.clone() });
            }
        }
    }
    v
}

/// Observe the implementation; `Err(true)` = the code under test panicked on a transaction the
/// generator could build, `Err(false)` = the generator itself could not build it (skipped).
fn observe_safe(t: &MTx, coins: &[Coin], reqs: &[Req]) -> Result<Obs, bool> {
    if catch(|| t.authorized()).is_none() || catch(|| t.signing(coins)).is_none() {
        return Err(false);
    }
    catch(|| observe(t, coins, reqs)).ok_or(true)
}
fn panic_case(t: &MTx) {
    match t.version {
        TxVersion::V5 | TxVersion::V6 => case(format!("CPanicTx {}", coq_tx(t))),
        TxVersion::V3 | TxVersion::V4 => case(format!("CPanicTx4 {}", coq_tx4(t))),
        _ => case("CPanicOther".to_string()),
    }
}

fn emit_ctx(tag: u32, t: &MTx, coins: &[Coin], reqs: &[Req]) -> Option<Obs> {
    let o = match observe_safe(t, coins, reqs) {
        Ok(o) => o,
        Err(code) => {
            if code {
                panic_case(t);
            }
            return None;
        }
    };
    case(format!(
        "CTx {} {} {} {} {} {} {} {}",
        tag,
        coq_tx(t),
        coq_coins(coins),
        list(o.parts.iter().map(|p| h(p))),
        h(&o.txid),
        h(&o.auth),
        h(&o.shsig),
        coq_sigs(reqs, &o)
    ));
    Some(o)
}

/// Mutation pair. Fields >= 90 mutate the signing context only.
fn emit_mut(g: &mut Gen, t: &MTx, coins: &[Coin], field: u32) -> bool {
    let n_in = t.n_in();
    let idx = if n_in > 0 { g.rng.below(n_in as u64) as usize } else { 0 };
    let reqs = all_reqs(t, coins, &[idx]);
    let (t2, coins2, reqs2): (MTx, Vec<Coin>, Vec<Req>) = if field < 90 {
        match mutate(g, t, coins, field) {
            Some((m, c, _)) => {
                let r = all_reqs(&m, &c, &[idx]);
                (m, c, r)
            }
            None => return false,
        }
    } else {
        if n_in == 0 || t.transp.as_ref().map_or(true, |b| b.0.len() == 1 && b.0[0].prevout().n() == u32::MAX && b.0[0].prevout().hash() == &[0u8; 32]) {
            return false;
        }
        let mut c = coins.to_vec();
        let mut r = reqs.clone();
        match field {
            90 => {
                // value of the coin being spent (as the wallet would: both in the coin list and in the input)
                c[idx].0 = bump_zat(c[idx].0);
                for x in r.iter_mut() {
                    x.value = c[idx].0;
                }
            }
            91 => {
                c[idx].1 = mutate_script(&c[idx].1, &mut g.rng);
                for x in r.iter_mut() {
                    x.spk = c[idx].1.clone();
                }
            }
            92 | 93 => {
                // another input's coin
                if n_in < 2 {
                    return false;
                }
                let k = (idx + 1 + g.rng.below(n_in as u64 - 1) as usize) % n_in;
                if field == 92 {
                    c[k].0 = bump_zat(c[k].0);
                } else {
                    c[k].1 = mutate_script(&c[k].1, &mut g.rng);
                }
            }
            94 => {
                // only the SignableInput's value (not the coin list)
                for x in r.iter_mut() {
                    x.value = bump_zat(x.value);
                }
            }
            95 => {
                for x in r.iter_mut() {
                    x.spk = mutate_script(&x.spk, &mut g.rng);
                }
            }
            97 => {
                // the script code: not covered by a v5/v6 signature hash
                c[idx].2 = mutate_script(&c[idx].2, &mut g.rng);
                for x in r.iter_mut() {
                    x.code = c[idx].2.clone();
                }
            }
            _ => {
                // hash type rotation / other index
                if g.rng.bool() || n_in < 2 {
                    for x in r.iter_mut() {
                        let p = HASH_TYPES.iter().position(|h| *h == x.ht).unwrap();
                        x.ht = HASH_TYPES[(p + 1 + g.rng.below(5) as usize) % 6];
                    }
                } else {
                    let k = (idx + 1 + g.rng.below(n_in as u64 - 1) as usize) % n_in;
                    for x in r.iter_mut() {
                        x.idx = k;
                    }
                }
            }
        }
        (t.clone(), c, r)
    };
    if field < 90 && coq_tx(t) == coq_tx(&t2) {
        // the donor value happened to equal the current one: not a mutation
        g.bump("mut_noop");
        return false;
    }
    let (o1, o2) = match (observe_safe(t, coins, &reqs), observe_safe(&t2, &coins2, &reqs2)) {
        (Ok(a), Ok(b)) => (a, b),
        (a, b) => {
            if a.err() == Some(true) {
                panic_case(t);
            }
            if b.err() == Some(true) {
                panic_case(&t2);
            }
            return false;
        }
    };
    case(format!(
        "CMut {} {} {} {} {} {} {}",
        field,
        coq_tx(t),
        coq_tx(&t2),
        coq_coins(coins),
        coq_coins(&coins2),
        coq_obs(&reqs, &o1),
        coq_obs(&reqs2, &o2)
    ));
    g.bump(&format!("mut_{}", field));
    true
}

// ---------------------------------------------------------------------------------------------
// v1-v4
// ---------------------------------------------------------------------------------------------

fn sha256d(b: &[u8]) -> [u8; 32] {
    Sha256::digest(Sha256::digest(b)).into()
}
fn ser(tx: &Transaction) -> Vec<u8> {
    let mut v = vec![];
    tx.write(&mut v).unwrap();
    v
}
fn ver_code(v: TxVersion) -> u32 {
    match v {
        TxVersion::Sprout(n) => n,
        TxVersion::V3 => 3,
        TxVersion::V4 => 4,
        TxVersion::V5 => 5,
        TxVersion::V6 => 6,
    }
}

fn emit_v4_mut(g: &mut Gen, t: &MTx, coins: &[Coin], field: u32, own: bool) -> bool {
    let n_in = t.n_in();
    let (m, c, which) = if field >= 90 {
        // signing context of input `which`: 94 value, 95 scriptPubKey, 97 script code
        if n_in == 0 {
            return false;
        }
        let k = g.rng.below(n_in as u64) as usize;
        let mut c = coins.to_vec();
        match field {
            94 => c[k].0 = bump_zat(c[k].0),
            95 => c[k].1 = mutate_script(&c[k].1, &mut g.rng),
            _ => c[k].2 = mutate_script(&c[k].2, &mut g.rng),
        }
        (t.clone(), c, k)
    } else {
        match mutate(g, t, coins, field) {
            Some(x) => x,
            None => return false,
        }
    };
    // sign the input/output position that was mutated (`own`) or another one
    let idx = if n_in == 0 { 0 } else if own { which.min(n_in - 1) } else { (which + 1) % n_in };
    if field < 90 && coq_tx4(t) == coq_tx4(&m) {
        return false;
    }
    let mut r1 = all_reqs(t, coins, &[idx]);
    let mut r2 = all_reqs(&m, &c, &[idx]);
    // raw pre-v5 hash-type bytes: undefined bits 0x20 / 0x40 on top of NONE / SINGLE, and any byte
    if idx < n_in {
        for _ in 0..3 {
            let ht = if g.rng.bool() {
                *g.rng.pick(&[0x22u8, 0x23, 0x42, 0x43, 0x62, 0x63, 0xa2, 0xa3, 0xc2, 0xc3, 0xe2, 0xe3])
            } else {
                g.rng.below(256) as u8
            };
            r1.push(Req { ht, idx, value: coins[idx].0, spk: coins[idx].1.clone(), code: coins[idx].2.clone() });
            r2.push(Req { ht, idx, value: c[idx].0, spk: c[idx].1.clone(), code: c[idx].2.clone() });
        }
    }
    let (o1, o2) = match (observe_safe(t, coins, &r1), observe_safe(&m, &c, &r2)) {
        (Ok(a), Ok(b)) => (a, b),
        (a, b) => {
            if a.err() == Some(true) {
                panic_case(t);
            }
            if b.err() == Some(true) {
                panic_case(&m);
            }
            return false;
        }
    };
    case(format!(
        "CV4Mut {} {} {} {} {}",
        field,
        coq_tx4(t),
        coq_tx4(&m),
        coq_obs4(t, &r1, &o1),
        coq_obs4(&m, &r2, &o2)
    ));
    g.bump(&format!("v4mut_{}", field));
    true
}

/// A reader that hands out at most `k` bytes per `read` call (a socket / pipe / chunked source).
struct Chunked<'a> {
    data: &'a [u8],
    pos: usize,
    k: usize,
}
impl<'a> std::io::Read for Chunked<'a> {
    fn read(&mut self, buf: &mut [u8]) -> std::io::Result<usize> {
        let n = buf.len().min(self.k).min(self.data.len() - self.pos);
        buf[..n].copy_from_slice(&self.data[self.pos..self.pos + n]);
        self.pos += n;
        Ok(n)
    }
}
/// Parse-path independence: the txid of a transaction parsed from `bytes` must not depend on how
/// the reader fragments them. `expected` = SHA-256d(bytes) before v5, the txid of the built
/// transaction from v5 on. Returns the number of cases printed.
fn reparse_cases(g: &mut Gen, ver: u32, bytes: &[u8], branch: BranchId, expected: &[u8; 32]) -> u64 {
    let mut n = 0;
    let r = 1 + g.rng.below(100) as usize;
    let r2 = 1 + g.rng.below(100) as usize;
    for k in [usize::MAX, 1, 31, 64, r, r2] {
        let kk = if k == usize::MAX { 0 } else { k };
        match catch(|| Transaction::read(Chunked { data: bytes, pos: 0, k }, branch)) {
            Some(Ok(tx)) => case(format!("CReparse {} {} {} {}", ver, kk, h(expected), h(tx.txid().as_ref()))),
            // a parse error that depends on the fragmentation is a failure too (empty observation)
            Some(Err(_)) => case(format!("CReparse {} {} {} {}", ver, kk, h(expected), h(&[]))),
            None => case("CPanicOther".to_string()),
        }
        n += 1;
    }
    g.bump("reparse");
    n
}

/// a published test-vector value against what the implementation computed
fn vec_case(zip: u32, expected: &[u8; 32], observed: &[u8; 32]) {
    case(format!("CVec {} {} {}", zip, h(expected), h(observed)));
}

fn emit_v4_tx(tag: u32, t: &MTx, coins: &[Coin], reqs: &[Req]) -> Option<Obs> {
    let o = match observe_safe(t, coins, reqs) {
        Ok(o) => o,
        Err(code) => {
            if code {
                panic_case(t);
            }
            return None;
        }
    };
    case(format!("CV4Tx {} {} {}", tag, coq_tx4(t), coq_obs4(t, reqs, &o)));
    Some(o)
}

// ---------------------------------------------------------------------------------------------
// main
// ---------------------------------------------------------------------------------------------

fn main() {
    let a = args();
    if std::env::var("C04_LOUD").is_err() {
        quiet_panics();
    }
    let mut g = Gen::new(a.seed, 4);
    let thorough = a.thorough() || a.search;
    let mut n_cases = 0u64;

    // --- probe (not part of the check): v6, anchor of a non-first Sapling spend ----------------
    if std::env::var("C04_PROBE").is_ok() {
        let mut gp = Gen::new(a.seed, 9);
        let (mut t, coins) = gp.tx(true, 2, false, true);
        t.sap = gp.sapling(2, 1, true);
        let donor = gp.spend();
        let mut m = t.clone();
        let s = m.sap.as_mut().unwrap();
        s.spends[1] = with_spend(&s.spends[1], |p| p.anchor = *donor.anchor());
        let (o1, o2) = (observe(&t, &coins, &[]), observe(&m, &coins, &[]));
        eprintln!(
            "probe v6 spends[1].anchor changed: txid_equal={} auth_equal={} shielded_sighash_equal={} serialisation_equal={}",
            o1.txid == o2.txid,
            o1.auth == o2.auth,
            o1.shsig == o2.shsig,
            ser(&t.authorized().freeze().unwrap()) == ser(&m.authorized().freeze().unwrap())
        );
        return;
    }

    // --- ZIP 244 vectors shipped in the repository -------------------------------------------
    {
        use zcash_primitives::transaction::tests::data::zip_0244;
        let mut used = 0;
        for tv in zip_0244::make_test_vectors() {
            let step = catch(|| {
                let tx = Transaction::read(&tv.tx[..], BranchId::Nu5).expect("vector parses");
                let t = MTx::of(&tx);
                let big = t.orch.as_ref().map_or(0, |o| o.acts.len()) + t.sap.as_ref().map_or(0, |s| s.spends.len() + s.outputs.len());
                if !thorough && (big > 3 || used >= 4) {
                    return;
                }
                let coins: Vec<Coin> = tv
                    .amounts
                    .iter()
                    .zip(tv.script_pubkeys.iter())
                    .map(|(v, s)| (Zatoshis::from_nonnegative_i64(*v).unwrap(), script(s.clone()), script(s.clone())))
                    .collect();
                let idxs: Vec<usize> = tv.transparent_input.iter().map(|i| *i as usize).collect();
                let reqs = all_reqs(&t, &coins, &idxs);
                // the implementation against the published vector values (judged by the checker, not here)
                if let Some(o) = emit_ctx(1, &t, &coins, &reqs) {
                    vec_case(244, &tv.txid, &o.txid);
                    vec_case(244, &tv.auth_digest, &o.auth);
                    vec_case(244, &tv.sighash_shielded, &o.shsig);
                    n_cases += 3;
                }
                used += 1;
                n_cases += 1;
            });
            if step.is_none() {
                g.bump("generator_step_panicked");
            }
        }
        g.stats.insert("zip244_vectors".into(), used);
    }

    // --- structured v5/v6 transactions ---------------------------------------------------------
    let n_tx = a.budget(100, 400);
    for k in 0..n_tx {
        let step = catch(|| {
            let v6 = k % 3 == 2;
            let big = thorough && k % 97 == 0;
            let uniform = k % 7 != 0;
            let max_n = if k % 11 == 0 { 3 } else { 2 };
            let (t, coins) = g.tx(v6, max_n, big, uniform);
            // every hash type for one input, one random hash type for the others
            let mut reqs = vec![];
            if t.n_in() > 0 {
                let full = g.rng.below(t.n_in() as u64) as usize;
                for i in 0..t.n_in() {
                    if i == full {
                        reqs.extend(all_reqs(&t, &coins, &[i]));
                    } else {
                        let ht = *g.rng.pick(&HASH_TYPES);
                        reqs.push(Req { ht, idx: i, value: coins[i].0, spk: coins[i].1.clone(), code: coins[i].2.clone() });
                    }
                }
                // the SignableInput's own value/script need not repeat the coin list
                if g.rng.chance(1, 4) {
                    let ht = *g.rng.pick(&HASH_TYPES);
                    let v = g.zat();
                    let s = g.script(false);
                    let c = g.script(false);
                    reqs.push(Req { ht, idx: full, value: v, spk: s, code: c });
                }
            }
            emit_ctx(if v6 { 3 } else { 2 }, &t, &coins, &reqs);
            g.bump(if v6 { "tx_v6" } else { "tx_v5" });
            // (only wire-expressible transactions: one anchor for all Sapling spends)
            if k % 4 == 0 && uniform {
                if let Some(Ok(tx)) = catch(|| t.authorized().freeze()) {
                    let mut bytes = vec![];
                    if tx.write(&mut bytes).is_ok() && Transaction::read(&bytes[..], t.branch).is_ok() {
                        let id: [u8; 32] = *tx.txid().as_ref();
                        n_cases += reparse_cases(&mut g, if v6 { 6 } else { 5 }, &bytes, t.branch, &id);
                    }
                }
            }
            for (name, present) in [
                ("with_transparent", t.transp.is_some()),
                ("with_sapling", t.sap.is_some()),
                ("with_orchard", t.orch.is_some()),
                ("with_ironwood", t.iron.is_some()),
            ] {
                if present {
                    g.bump(name);
                }
            }
            n_cases += 1;
        });
        if step.is_none() {
            g.bump("generator_step_panicked");
        }
    }

    // --- the crates' own strategies (large bundles) ---------------------------------------------
    let n_arb = a.budget(2, 12);
    for k in 0..n_arb {
        let step = catch(|| {
            let branch = if k % 2 == 0 { BranchId::Nu5 } else { BranchId::Nu6_3 };
            // keep the Coq cost bounded: retry until the transaction is small enough
            for _ in 0..200 {
                let tx = g.sample(arb_tx(branch));
                let t = MTx::of(&tx);
                let size = t.orch.as_ref().map_or(0, |o| o.acts.len())
                    + t.iron.as_ref().map_or(0, |o| o.acts.len())
                    + t.sap.as_ref().map_or(0, |s| s.spends.len() + s.outputs.len());
                if size > if thorough { 24 } else { 8 } {
                    continue;
                }
                let coins: Vec<Coin> = (0..t.n_in()).map(|_| g.coin()).collect();
                let reqs = if t.n_in() > 0 { all_reqs(&t, &coins, &[t.n_in() - 1]) } else { vec![] };
                emit_ctx(4, &t, &coins, &reqs);
                g.bump("tx_arb");
                n_cases += 1;
                break;
            }
        });
        if step.is_none() {
            g.bump("generator_step_panicked");
        }
    }

    // --- single-field mutations (v5 / v6) --------------------------------------------------------
    let rounds = a.budget(8, 36);
    let rounds_v6 = a.budget(2, 10);
    for r in 0..rounds {
        let step = catch(|| {
            for v6 in [false, true] {
                if v6 && r >= rounds_v6 {
                    continue;
                }
                // a transaction that has every bundle, two inputs, two outputs
                let (mut t, mut coins);
                loop {
                    let x = g.tx(v6, 2, false, true);
                    t = x.0;
                    coins = x.1;
                    let full = t.n_in() >= 1 + (r % 2) as usize
                        && t.n_out() >= 1
                        && t.sap.as_ref().map_or(false, |s| !s.spends.is_empty() && !s.outputs.is_empty())
                        && t.orch.is_some()
                        && (!v6 || t.iron.is_some());
                    if full || (r % 5 == 4 && t.n_in() > 0) {
                        break;
                    }
                }
                for f in TX_FIELDS {
                    let ok = if f == 4 {
                        // the version switch needs bundles that both formats can carry
                        let mut t4 = t.clone();
                        t4.orch = None;
                        t4.iron = None;
                        emit_mut(&mut g, &t4, &coins, f)
                    } else {
                        emit_mut(&mut g, &t, &coins, f)
                    };
                    if ok {
                        n_cases += 1;
                    }
                }
            }
        });
        if step.is_none() {
            g.bump("generator_step_panicked");
        }
    }

    // --- v1-v4 -----------------------------------------------------------------------------------
    let n_v4 = a.budget(40, 200);
    let old = [
        BranchId::Sprout,
        BranchId::Overwinter,
        BranchId::Sapling,
        BranchId::Blossom,
        BranchId::Heartwood,
        BranchId::Canopy,
    ];
    for k in 0..n_v4 {
        let step = catch(|| {
            let branch = old[(k % 6) as usize];
            let tx = g.sample(arb_tx(branch));
            let bytes = ser(&tx);
            case(format!(
                "CV4Txid {} {} {} {}",
                ver_code(tx.version()),
                u32::from(branch),
                h(tx.txid().as_ref()),
                h(&sha256d(&bytes))
            ));
            g.bump(&format!("v{}_txid", ver_code(tx.version())));
            n_cases += 1;
            // reading the bytes back, however the reader fragments them, gives the same txid
            n_cases += reparse_cases(&mut g, ver_code(tx.version()), &bytes, branch, &sha256d(&bytes));
        });
        if step.is_none() {
            g.bump("generator_step_panicked");
        }
    }
    {
        use zcash_primitives::transaction::tests::data::{zip_0143, zip_0243};
        let mut n = 0;
        let vecs: Vec<(Vec<u8>, BranchId, Script, Option<u32>, u32, i64, [u8; 32])> = zip_0143::make_test_vectors()
            .into_iter()
            .map(|v| (v.tx, v.consensus_branch_id, v.script_code, v.transparent_input, v.hash_type, v.amount, v.sighash))
            .chain(
                zip_0243::make_test_vectors()
                    .into_iter()
                    .map(|v| (v.tx, v.consensus_branch_id, v.script_code, v.transparent_input, v.hash_type, v.amount, v.sighash)),
            )
            .collect();
        let mut js_mut = 0;
        for (txb, br, code, tin, ht, amount, expected) in vecs {
            let step = catch(|| {
                let tx = Transaction::read(&txb[..], br).expect("vector parses");
                assert_eq!(ser(&tx), txb);
                case(format!(
                    "CV4Txid {} {} {} {}",
                    ver_code(tx.version()),
                    u32::from(br),
                    h(tx.txid().as_ref()),
                    h(&sha256d(&txb))
                ));
                n += 1;
                n_cases += 1;
                n_cases += reparse_cases(&mut g, ver_code(tx.version()), &txb, br, &sha256d(&txb));
                if !matches!(tx.version(), TxVersion::V3 | TxVersion::V4) {
                    return;
                }
                // the vector's own signature hash through the ZIP 143/243 model
                let t = MTx::of(&tx);
                let coins: Vec<Coin> = (0..t.n_in()).map(|_| g.coin()).collect();
                let value = Zatoshis::from_nonnegative_i64(amount).unwrap();
                let reqs: Vec<Req> = tin
                    .iter()
                    .map(|i| Req { ht: ht as u8, idx: *i as usize, value, spk: g.script(false), code: code.clone() })
                    .collect();
                if let Some(o) = emit_v4_tx(1, &t, &coins, &reqs) {
                    let zip = if br == BranchId::Overwinter { 143 } else { 243 };
                    match tin {
                        Some(_) => vec_case(zip, &expected, &o.sigs[0].unwrap_or([0; 32])),
                        None => vec_case(zip, &expected, &o.shsig),
                    }
                }
                n_cases += 2;
                // JoinSplit fields can only be mutated on these transactions
                if t.sprout.as_ref().map_or(false, |b| !b.joinsplits.is_empty()) && js_mut < a.budget(2, 8) {
                    js_mut += 1;
                    for f in [85u32, 86, 87] {
                        if emit_v4_mut(&mut g, &t, &coins, f, true) {
                            n_cases += 1;
                        }
                    }
                }
            });
            if step.is_none() {
                g.bump("generator_step_panicked");
            }
        }
        g.stats.insert("zip143_243_vectors".into(), n);
    }
    // v3/v4 single-field mutations (transparent + Sapling; txid and ZIP 143/243 sighash)
    let v4_rounds = a.budget(6, 24);
    for r in 0..v4_rounds {
        let step = catch(|| {
            let v4 = r % 3 != 0;
            let (mut t, mut coins);
            loop {
                let x = g.tx(false, 2, false, true);
                t = x.0;
                coins = x.1;
                if t.n_in() == 2 && t.n_out() >= 1 + (r % 2) as usize && t.sap.as_ref().map_or(false, |s| !s.spends.is_empty() && !s.outputs.is_empty()) {
                    break;
                }
            }
            t.orch = None;
            if v4 {
                t.version = TxVersion::V4;
                t.branch = *g.rng.pick(&[BranchId::Sapling, BranchId::Blossom, BranchId::Heartwood, BranchId::Canopy]);
            } else {
                t.version = TxVersion::V3;
                t.branch = BranchId::Overwinter;
                t.sap = None;
            }
            {
                let mut reqs = all_reqs(&t, &coins, &[(r % 2) as usize]);
                let ht = *g.rng.pick(&HASH_TYPES);
                let other = 1 - (r % 2) as usize;
                reqs.push(Req { ht, idx: other, value: coins[other].0, spk: coins[other].1.clone(), code: coins[other].2.clone() });
                emit_v4_tx(2, &t, &coins, &reqs);
                n_cases += 1;
            }
            if r < a.budget(2, 6) {
                // every raw hash-type byte for one input (32 per case to spread the evaluation);
                // a single Sapling spend keeps the 256 pre-images short
                let mut t = t.clone();
                if let Some(s) = t.sap.as_mut() {
                    s.outputs.clear();
                    s.spends.truncate(1);
                }
                let i = (r % 2) as usize;
                for chunk in 0..8u32 {
                    let reqs: Vec<Req> = (0..32u32)
                        .map(|j| Req {
                            ht: (chunk * 32 + j) as u8,
                            idx: i,
                            value: coins[i].0,
                            spk: coins[i].1.clone(),
                            code: coins[i].2.clone(),
                        })
                        .collect();
                    emit_v4_tx(3, &t, &coins, &reqs);
                    n_cases += 1;
                }
                g.bump("v4_all_raw_hash_types");
            }
            for f in [1u32, 2, 10, 11, 12, 13, 20, 21, 30, 31, 32, 33, 34, 35, 40, 41, 42, 43, 44, 45, 46, 47, 48, 49, 94, 95, 97] {
                for own in [true, false] {
                    if (own || (10..=21).contains(&f) || f >= 90) && emit_v4_mut(&mut g, &t, &coins, f, own) {
                        n_cases += 1;
                    }
                }
            }
        });
        if step.is_none() {
            g.bump("generator_step_panicked");
        }
    }

    let stats: Vec<String> = g.stats.iter().map(|(k, v)| format!("\"{}\": {}", k, v)).collect();
    stat(format!("{{\"cases\": {}, {}}}", n_cases, stats.join(", ")));
}
