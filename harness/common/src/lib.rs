//! Helpers shared by the harness binaries: argument parsing, the single PRNG every random
//! choice is derived from, panic capture, and printers producing Coq term syntax.
use rand_chacha::ChaCha8Rng;
use rand_core::{RngCore, SeedableRng};
use std::fmt::Write as _;
use std::panic::{catch_unwind, AssertUnwindSafe};

pub struct Args {
    pub tier: String,
    pub seed: u64,
    pub search: bool,
    pub rest: Vec<String>,
}

pub fn args() -> Args {
    let mut a = Args { tier: "quick".into(), seed: 0, search: false, rest: vec![] };
    let mut it = std::env::args().skip(1);
    while let Some(x) = it.next() {
        match x.as_str() {
            "--tier" => a.tier = it.next().expect("--tier value"),
            "--seed" => a.seed = it.next().expect("--seed value").parse().expect("seed"),
            "--search" => a.search = true,
            _ => a.rest.push(x),
        }
    }
    a
}

impl Args {
    pub fn thorough(&self) -> bool {
        self.tier == "thorough"
    }
    /// Case budget: quick `q`, thorough `t`, search 10x thorough-quick mix.
    pub fn budget(&self, q: usize, t: usize) -> usize {
        if self.search { t } else if self.thorough() { t } else { q }
    }
}

pub struct Rng(pub ChaCha8Rng);

impl Rng {
    pub fn new(seed: u64, stream: u64) -> Self {
        let mut r = ChaCha8Rng::seed_from_u64(seed ^ 0x5eed_0000_0000_0000);
        r.set_stream(stream);
        Rng(r)
    }
    pub fn u64(&mut self) -> u64 {
        self.0.next_u64()
    }
    pub fn below(&mut self, n: u64) -> u64 {
        if n == 0 { 0 } else { self.0.next_u64() % n }
    }
    pub fn range(&mut self, lo: u64, hi: u64) -> u64 {
        lo + self.below(hi - lo + 1)
    }
    pub fn bool(&mut self) -> bool {
        self.0.next_u64() & 1 == 1
    }
    pub fn chance(&mut self, num: u64, den: u64) -> bool {
        self.below(den) < num
    }
    pub fn pick<'a, T>(&mut self, xs: &'a [T]) -> &'a T {
        &xs[self.below(xs.len() as u64) as usize]
    }
    pub fn bytes(&mut self, n: usize) -> Vec<u8> {
        let mut v = vec![0u8; n];
        self.0.fill_bytes(&mut v);
        v
    }
}

/// Silence the default panic message; panics are outcomes here.
pub fn quiet_panics() {
    std::panic::set_hook(Box::new(|_| {}));
}

/// Run `f`, mapping a panic to `None`.
pub fn catch<T>(f: impl FnOnce() -> T) -> Option<T> {
    catch_unwind(AssertUnwindSafe(f)).ok()
}

// ---- Coq term printers -------------------------------------------------------------------

pub fn z(x: i128) -> String {
    if x < 0 { format!("({})", x) } else { format!("{}", x) }
}
pub fn zu(x: u128) -> String {
    format!("{}", x)
}
pub fn n(x: u128) -> String {
    format!("{}%N", x)
}
pub fn opt(x: Option<String>) -> String {
    match x {
        Some(s) => format!("(Some {})", s),
        None => "None".into(),
    }
}
pub fn list(xs: impl IntoIterator<Item = String>) -> String {
    let v: Vec<String> = xs.into_iter().collect();
    format!("[{}]", v.join("; "))
}
pub fn pair(a: String, b: String) -> String {
    format!("({}, {})", a, b)
}
pub fn hex(b: &[u8]) -> String {
    let mut s = String::with_capacity(b.len() * 2);
    for x in b {
        write!(s, "{:02x}", x).unwrap();
    }
    s
}
/// Bytes as `(hz "..")` (list Z) — the header of the cases file defines `hz`.
pub fn hz(b: &[u8]) -> String {
    format!("(hz \"{}\"%string)", hex(b))
}
/// Bytes as `(hex "..")` (list N).
pub fn hn(b: &[u8]) -> String {
    format!("(hex \"{}\"%string)", hex(b))
}
pub fn boolc(b: bool) -> String {
    if b { "true".into() } else { "false".into() }
}
pub fn ok(s: String) -> String {
    format!("(Ok {})", s)
}
pub fn err(s: &str) -> String {
    format!("(Err {})", s)
}
pub const PANIC: &str = "Panic";

/// Print one case line.
pub fn case(s: String) {
    println!("C {}", s);
}
/// Print one statistics line (JSON object).
pub fn stat(s: String) {
    println!("# {}", s);
}
