//! C10 harness: address strings (zcash_address, f4jumble, CompactSize).
//!
//! Prints Coq `case` terms (coq/C10/Corr.v): the inputs, the BLAKE2b outputs the F4Jumble rounds
//! need (computed here with blake2b_simd directly, not through the f4jumble crate), and the
//! observed outcome of the public API.
use std::convert::Infallible;
use std::io::Cursor;

use bech32::primitives::decode::UncheckedHrpstring;
use bech32::primitives::iter::{ByteIterExt, Fe32IterExt};
use bech32::{Bech32, Bech32m, Fe32, Hrp};
use vcommon::*;
use zcash_address::unified::{self, Bech32mZip316, Container, Encoding, Fvk, Ivk, Receiver};
use zcash_address::{ConversionError, ParseError, ToAddress, TryFromAddress, ZcashAddress};
use zcash_encoding::CompactSize;
use zcash_protocol::consensus::NetworkType;

// ---------------------------------------------------------------------------------------------
// printers

fn cstr(s: &str) -> String {
    if s.chars().all(|c| (' '..='~').contains(&c) && c != '"') {
        format!("(str \"{}\"%string)", s)
    } else {
        list(s.chars().map(|c| format!("{}", c as u32)))
    }
}
fn net(n: NetworkType) -> &'static str {
    match n {
        NetworkType::Main => "Main",
        NetworkType::Test => "Test",
        NetworkType::Regtest => "Regtest",
    }
}
const NETS: [NetworkType; 3] = [NetworkType::Main, NetworkType::Test, NetworkType::Regtest];
type It = (u32, Vec<u8>);
fn items(v: &[It]) -> String {
    list(v.iter().map(|(t, d)| format!("({}, {})", t, hn(d))))
}
fn uerr(e: &unified::ParseError) -> String {
    use unified::ParseError::*;
    match e {
        BothP2phkAndP2sh => "(Err EBoth)".into(),
        DuplicateTypecode(t) => format!("(Err (EDup {}))", u32::from(*t)),
        InvalidTypecodeValue(v) => format!("(Err (EInvTc {}))", v),
        InvalidEncoding(_) => "(Err EInvEnc)".into(),
        InvalidTypecodeOrder => "(Err EOrder)".into(),
        OnlyTransparent => "(Err EOnlyT)".into(),
        NotUnified => "(Err ENotUnified)".into(),
        UnknownPrefix(h) => format!("(Err (EUnkPrefix {}))", cstr(h)),
    }
}
fn perr(e: &ParseError) -> String {
    match e {
        ParseError::InvalidEncoding => "(Err PInvEnc)".into(),
        ParseError::NotZcash => "(Err PNotZcash)".into(),
        ParseError::Unified(u) => {
            let s = uerr(u);
            format!("(Err (PUnified {}))", &s[5..s.len() - 1])
        }
    }
}
fn sres(r: &Option<String>) -> String {
    match r {
        None => PANIC.into(),
        Some(s) => ok(cstr(s)),
    }
}

// ---------------------------------------------------------------------------------------------
// container kinds behind one interface

#[derive(Clone, Copy, PartialEq, Eq, Debug)]
enum K {
    Addr,
    Fvk,
    Ivk,
}
const KS: [K; 3] = [K::Addr, K::Fvk, K::Ivk];
impl K {
    fn coq(self) -> &'static str {
        match self {
            K::Addr => "KAddr",
            K::Fvk => "KFvk",
            K::Ivk => "KIvk",
        }
    }
    fn hrp(self, n: NetworkType) -> &'static str {
        match (self, n) {
            (K::Addr, NetworkType::Main) => "u",
            (K::Addr, NetworkType::Test) => "utest",
            (K::Addr, NetworkType::Regtest) => "uregtest",
            (K::Fvk, NetworkType::Main) => "uview",
            (K::Fvk, NetworkType::Test) => "uviewtest",
            (K::Fvk, NetworkType::Regtest) => "uviewregtest",
            (K::Ivk, NetworkType::Main) => "uivk",
            (K::Ivk, NetworkType::Test) => "uivktest",
            (K::Ivk, NetworkType::Regtest) => "uivkregtest",
        }
    }
    /// length of the known item with this typecode, if it exists for this kind
    fn known_len(self, tc: u32) -> Option<usize> {
        match (self, tc) {
            (K::Addr, 0) | (K::Addr, 1) => Some(20),
            (K::Addr, 2) | (K::Addr, 3) => Some(43),
            (K::Fvk, 0) | (K::Ivk, 0) => Some(65),
            (K::Fvk, 2) => Some(128),
            (K::Fvk, 3) => Some(96),
            (K::Ivk, 2) | (K::Ivk, 3) => Some(64),
            _ => None,
        }
    }
}

/// marker added to the printed typecode when an `Unknown` variant carries a known typecode
/// (cannot come out of the parser; the model would then disagree)
const BAD_UNKNOWN: u64 = 1 << 40;

fn rcv_to_it(r: &Receiver) -> (u64, Vec<u8>) {
    match r {
        Receiver::P2pkh(d) => (0, d.to_vec()),
        Receiver::P2sh(d) => (1, d.to_vec()),
        Receiver::Sapling(d) => (2, d.to_vec()),
        Receiver::Orchard(d) => (3, d.to_vec()),
        Receiver::Unknown { typecode, data } => (*typecode as u64 + if *typecode < 4 { BAD_UNKNOWN } else { 0 }, data.clone()),
    }
}
fn fvk_to_it(r: &Fvk) -> (u64, Vec<u8>) {
    match r {
        Fvk::P2pkh(d) => (0, d.to_vec()),
        Fvk::Sapling(d) => (2, d.to_vec()),
        Fvk::Orchard(d) => (3, d.to_vec()),
        Fvk::Unknown { typecode, data } => (*typecode as u64 + if *typecode < 4 { BAD_UNKNOWN } else { 0 }, data.clone()),
    }
}
fn ivk_to_it(r: &Ivk) -> (u64, Vec<u8>) {
    match r {
        Ivk::P2pkh(d) => (0, d.to_vec()),
        Ivk::Sapling(d) => (2, d.to_vec()),
        Ivk::Orchard(d) => (3, d.to_vec()),
        Ivk::Unknown { typecode, data } => (*typecode as u64 + if *typecode < 4 { BAD_UNKNOWN } else { 0 }, data.clone()),
    }
}
fn items64(v: &[(u64, Vec<u8>)]) -> String {
    list(v.iter().map(|(t, d)| format!("({}, {})", t, hn(d))))
}

/// Build the typed item; known typecodes with the right length become the known variant,
/// everything else an Unknown variant (callers keep unknown typecodes >= 4 in the valid streams).
fn mk_rcv(it: &It) -> Receiver {
    let (t, d) = it;
    match (*t, d.len()) {
        (0, 20) => Receiver::P2pkh(d[..].try_into().unwrap()),
        (1, 20) => Receiver::P2sh(d[..].try_into().unwrap()),
        (2, 43) => Receiver::Sapling(d[..].try_into().unwrap()),
        (3, 43) => Receiver::Orchard(d[..].try_into().unwrap()),
        _ => Receiver::Unknown { typecode: *t, data: d.clone() },
    }
}
fn mk_fvk(it: &It) -> Fvk {
    let (t, d) = it;
    match (*t, d.len()) {
        (0, 65) => Fvk::P2pkh(d[..].try_into().unwrap()),
        (2, 128) => Fvk::Sapling(d[..].try_into().unwrap()),
        (3, 96) => Fvk::Orchard(d[..].try_into().unwrap()),
        _ => Fvk::Unknown { typecode: *t, data: d.clone() },
    }
}
fn mk_ivk(it: &It) -> Ivk {
    let (t, d) = it;
    match (*t, d.len()) {
        (0, 65) => Ivk::P2pkh(d[..].try_into().unwrap()),
        (2, 64) => Ivk::Sapling(d[..].try_into().unwrap()),
        (3, 64) => Ivk::Orchard(d[..].try_into().unwrap()),
        _ => Ivk::Unknown { typecode: *t, data: d.clone() },
    }
}

enum Cont {
    A(unified::Address),
    F(unified::Ufvk),
    I(unified::Uivk),
}
impl Cont {
    fn items(&self) -> Vec<(u64, Vec<u8>)> {
        match self {
            Cont::A(c) => c.items_as_parsed().iter().map(rcv_to_it).collect(),
            Cont::F(c) => c.items_as_parsed().iter().map(fvk_to_it).collect(),
            Cont::I(c) => c.items_as_parsed().iter().map(ivk_to_it).collect(),
        }
    }
    fn encode(&self, n: NetworkType) -> Option<String> {
        catch(|| match self {
            Cont::A(c) => c.encode(&n),
            Cont::F(c) => c.encode(&n),
            Cont::I(c) => c.encode(&n),
        })
    }
}
fn try_from_items(k: K, its: &[It]) -> Option<Result<Cont, unified::ParseError>> {
    catch(|| match k {
        K::Addr => unified::Address::try_from_items(its.iter().map(mk_rcv).collect()).map(Cont::A),
        K::Fvk => unified::Ufvk::try_from_items(its.iter().map(mk_fvk).collect()).map(Cont::F),
        K::Ivk => unified::Uivk::try_from_items(its.iter().map(mk_ivk).collect()).map(Cont::I),
    })
}
fn decode(k: K, s: &str) -> Option<Result<(NetworkType, Cont), unified::ParseError>> {
    catch(|| match k {
        K::Addr => unified::Address::decode(s).map(|(n, c)| (n, Cont::A(c))),
        K::Fvk => unified::Ufvk::decode(s).map(|(n, c)| (n, Cont::F(c))),
        K::Ivk => unified::Uivk::decode(s).map(|(n, c)| (n, Cont::I(c))),
    })
}
fn ures(r: &Option<Result<(NetworkType, Cont), unified::ParseError>>) -> String {
    match r {
        None => PANIC.into(),
        Some(Ok((n, c))) => ok(format!("({}, {})", net(*n), items64(&c.items()))),
        Some(Err(e)) => uerr(e),
    }
}

// ---------------------------------------------------------------------------------------------
// F4Jumble round functions straight from BLAKE2b, and the table of the values used

fn h_pers(i: u8) -> [u8; 16] {
    let mut p = [0u8; 16];
    p[..13].copy_from_slice(b"UA_F4Jumble_H");
    p[13] = i;
    p
}
fn g_pers(i: u8, j: u16) -> [u8; 16] {
    let mut p = [0u8; 16];
    p[..13].copy_from_slice(b"UA_F4Jumble_G");
    p[13] = i;
    p[14] = (j & 0xff) as u8;
    p[15] = (j >> 8) as u8;
    p
}
struct Tbl(Vec<String>);
impl Tbl {
    fn new() -> Self {
        Tbl(vec![])
    }
    fn coq(&self) -> String {
        list(self.0.iter().cloned())
    }
    fn push(&mut self, e: String) {
        if !self.0.contains(&e) {
            self.0.push(e);
        }
    }
    fn h(&mut self, i: u8, l: &mut [u8], r: &[u8]) {
        let hash = blake2b_simd::Params::new().hash_length(l.len()).personal(&h_pers(i)).hash(r);
        self.push(format!("(0, {}, {}, {}, {})", i, l.len(), hn(r), hn(hash.as_bytes())));
        for (a, b) in l.iter_mut().zip(hash.as_bytes()) {
            *a ^= b;
        }
    }
    /// one entry per round: the outputs for j = 0, 1, .. concatenated
    fn g(&mut self, i: u8, l: &[u8], r: &mut [u8]) {
        let mut all = vec![];
        for (j, chunk) in r.chunks_mut(64).enumerate() {
            let hash = blake2b_simd::Params::new().hash_length(64).personal(&g_pers(i, j as u16)).hash(l);
            all.extend_from_slice(hash.as_bytes());
            for (a, b) in chunk.iter_mut().zip(hash.as_bytes()) {
                *a ^= b;
            }
        }
        self.push(format!("(1, {}, 0, {}, {})", i, hn(l), hn(&all)));
    }
    /// the Feistel network of ZIP 316 on a message of valid length; records every hash used
    fn jumble(&mut self, m: &[u8], inverse: bool) -> Option<Vec<u8>> {
        if m.len() < 48 || m.len() > 4194368 {
            return None;
        }
        let ll = std::cmp::min(64, m.len() / 2);
        let mut l = m[..ll].to_vec();
        let mut r = m[ll..].to_vec();
        if !inverse {
            self.g(0, &l, &mut r);
            self.h(0, &mut l, &r);
            self.g(1, &l, &mut r);
            self.h(1, &mut l, &r);
        } else {
            self.h(1, &mut l, &r);
            self.g(1, &l, &mut r);
            self.h(0, &mut l, &r);
            self.g(0, &l, &mut r);
        }
        l.extend_from_slice(&r);
        Some(l)
    }
    /// hashes needed to parse `s` as a unified container (if it gets as far as F4Jumble^-1)
    fn for_string(&mut self, s: &str) {
        let s = s.trim();
        if let Ok(u) = UncheckedHrpstring::new(s) {
            if u.has_valid_checksum::<Bech32mZip316>() {
                let c = u.remove_checksum::<Bech32mZip316>();
                let bytes: Vec<u8> = c.byte_iter().collect();
                self.jumble(&bytes, true);
            }
        }
    }
}

fn cs_bytes(n: u64) -> Vec<u8> {
    if n < 253 {
        vec![n as u8]
    } else if n <= 0xffff {
        let mut v = vec![253];
        v.extend_from_slice(&(n as u16).to_le_bytes());
        v
    } else if n <= 0xffff_ffff {
        let mut v = vec![254];
        v.extend_from_slice(&(n as u32).to_le_bytes());
        v
    } else {
        let mut v = vec![255];
        v.extend_from_slice(&n.to_le_bytes());
        v
    }
}
fn raw_items(its: &[It]) -> Vec<u8> {
    let mut v = vec![];
    for (t, d) in its {
        v.extend(cs_bytes(*t as u64));
        v.extend(cs_bytes(d.len() as u64));
        v.extend_from_slice(d);
    }
    v
}
fn pad(hrp: &str) -> Vec<u8> {
    let mut p = hrp.as_bytes().to_vec();
    p.resize(16, 0);
    p
}

// ---------------------------------------------------------------------------------------------
// ZcashAddress observation

struct Obs(String);
impl TryFromAddress for Obs {
    type Error = Infallible;
    fn try_from_sprout(n: NetworkType, d: [u8; 64]) -> Result<Self, ConversionError<Infallible>> {
        Ok(Obs(format!("(ARaw {} Sprout {})", net(n), hn(&d))))
    }
    fn try_from_sapling(n: NetworkType, d: [u8; 43]) -> Result<Self, ConversionError<Infallible>> {
        Ok(Obs(format!("(ARaw {} Sapling {})", net(n), hn(&d))))
    }
    fn try_from_unified(n: NetworkType, d: unified::Address) -> Result<Self, ConversionError<Infallible>> {
        Ok(Obs(format!("(AUni {} {})", net(n), items64(&Cont::A(d).items()))))
    }
    fn try_from_transparent_p2pkh(n: NetworkType, d: [u8; 20]) -> Result<Self, ConversionError<Infallible>> {
        Ok(Obs(format!("(ARaw {} P2pkh {})", net(n), hn(&d))))
    }
    fn try_from_transparent_p2sh(n: NetworkType, d: [u8; 20]) -> Result<Self, ConversionError<Infallible>> {
        Ok(Obs(format!("(ARaw {} P2sh {})", net(n), hn(&d))))
    }
    fn try_from_tex(n: NetworkType, d: [u8; 20]) -> Result<Self, ConversionError<Infallible>> {
        Ok(Obs(format!("(ARaw {} Tex {})", net(n), hn(&d))))
    }
}
fn obs(a: &ZcashAddress) -> String {
    a.clone().convert::<Obs>().map(|o| o.0).unwrap_or_else(|_| "(ARaw Main Sprout [])".into())
}
fn ares(r: &Option<Result<ZcashAddress, ParseError>>) -> String {
    match r {
        None => PANIC.into(),
        Some(Ok(a)) => ok(obs(a)),
        Some(Err(e)) => perr(e),
    }
}

// ---------------------------------------------------------------------------------------------
// case emitters

struct Ctx {
    n: usize,
    ok_parse: usize,
    err_parse: usize,
    classes: std::collections::BTreeMap<&'static str, usize>,
}
impl Ctx {
    fn bump(&mut self, k: &'static str) {
        *self.classes.entry(k).or_insert(0) += 1;
        self.n += 1;
    }
}

fn emit_jumble(cx: &mut Ctx, m: &[u8], inverse: bool) {
    let mut t = Tbl::new();
    let o = catch(|| if inverse { f4jumble::f4jumble_inv(m) } else { f4jumble::f4jumble(m) });
    let (os, back) = match &o {
        None => (PANIC.to_string(), "None".to_string()),
        Some(Err(_)) => ("(Err tt)".to_string(), "None".to_string()),
        Some(Ok(y)) => {
            t.jumble(m, inverse);
            t.jumble(y, !inverse);
            let b = catch(|| if inverse { f4jumble::f4jumble(y) } else { f4jumble::f4jumble_inv(y) });
            let bs = match b {
                None => PANIC.to_string(),
                Some(Err(_)) => "(Err tt)".to_string(),
                Some(Ok(z)) => ok(hn(&z)),
            };
            (ok(hn(y)), format!("(Some {})", bs))
        }
    };
    case(format!("{} {} {} {} {}", if inverse { "CJumbleInv" } else { "CJumble" }, hn(m), t.coq(), os, back));
    cx.bump(if inverse { "jumble_inv" } else { "jumble" });
}

fn emit_cs_read(cx: &mut Ctx, b: &[u8]) {
    let r = catch(|| {
        let mut c = Cursor::new(b);
        CompactSize::read(&mut c).map(|v| (v, c.position()))
    });
    let o = match r {
        None => PANIC.to_string(),
        Some(Ok((v, p))) => ok(format!("({}, {})", v, p)),
        Some(Err(e)) => {
            if e.kind() == std::io::ErrorKind::UnexpectedEof {
                err("CsEof")
            } else if e.to_string().contains("non-canonical") {
                err("CsNonCanonical")
            } else {
                err("CsTooLarge")
            }
        }
    };
    case(format!("CCsRead {} {}", hn(b), o));
    cx.bump("cs_read");
}
fn emit_cs_write(cx: &mut Ctx, n: u64) {
    let r = catch(|| {
        let mut v = vec![];
        CompactSize::write(&mut v, n as usize).map(|_| v)
    });
    let o = match r {
        None => PANIC.to_string(),
        Some(Ok(v)) => ok(hn(&v)),
        Some(Err(_)) => "(Err tt)".to_string(),
    };
    case(format!("CCsWrite {} {}", n, o));
    cx.bump("cs_write");
}

/// try_from_items, and when accepted: encode for `n`, decode back
fn emit_container(cx: &mut Ctx, k: K, its: &[It], n: NetworkType, strings: &mut Vec<(K, String)>) {
    let r = try_from_items(k, its);
    let o = match &r {
        None => PANIC.to_string(),
        Some(Ok(c)) => ok(items64(&c.items())),
        Some(Err(e)) => uerr(e),
    };
    case(format!("CFromItems {} {} {}", k.coq(), items(its), o));
    cx.bump("from_items");
    if let Some(Ok(c)) = r {
        emit_uenc(cx, k, &c, n, strings);
    }
}
fn emit_uenc(cx: &mut Ctx, k: K, c: &Cont, n: NetworkType, strings: &mut Vec<(K, String)>) {
    let its = c.items();
    let its32: Vec<It> = its.iter().map(|(t, d)| (*t as u32, d.clone())).collect();
    let mut t = Tbl::new();
    let mut raw = raw_items(&its32);
    raw.extend(pad(k.hrp(n)));
    let jum = t.jumble(&raw, false);
    let s = c.encode(n);
    let back = match &s {
        None => "None".to_string(),
        Some(s) => {
            if let Some(j) = &jum {
                t.jumble(j, true);
            }
            strings.push((k, s.clone()));
            format!("(Some {})", ures(&decode(k, s)))
        }
    };
    case(format!("CUEnc {} {} {} {} {} {}", k.coq(), net(n), items64(&its), t.coq(), sres(&s), back));
    cx.bump("uenc");
}
fn emit_udec(cx: &mut Ctx, k: K, s: &str) {
    let mut t = Tbl::new();
    t.for_string(s);
    let r = decode(k, s);
    let re = match &r {
        Some(Ok((n, c))) => {
            // forward table for the re-encoding
            let its: Vec<It> = c.items().iter().map(|(t, d)| (*t as u32, d.clone())).collect();
            let mut raw = raw_items(&its);
            raw.extend(pad(k.hrp(*n)));
            t.jumble(&raw, false);
            format!("(Some {})", sres(&c.encode(*n)))
        }
        _ => "None".to_string(),
    };
    case(format!("CUDec {} {} {} {} {}", k.coq(), cstr(s), t.coq(), ures(&r), re));
    cx.bump("udec");
}
fn emit_parse(cx: &mut Ctx, s: &str) {
    let mut t = Tbl::new();
    t.for_string(s);
    let r = catch(|| ZcashAddress::try_from_encoded(s));
    let re = match &r {
        Some(Ok(a)) => {
            cx.ok_parse += 1;
            if let Ok((n, ua)) = unified::Address::decode(s.trim()) {
                let its: Vec<It> = Cont::A(ua).items().iter().map(|(t, d)| (*t as u32, d.clone())).collect();
                let mut raw = raw_items(&its);
                raw.extend(pad(K::Addr.hrp(n)));
                t.jumble(&raw, false);
            }
            format!("(Some {})", sres(&catch(|| a.encode())))
        }
        _ => {
            cx.err_parse += 1;
            "None".to_string()
        }
    };
    case(format!("CParse {} {} {} {}", cstr(s), t.coq(), ares(&r), re));
    cx.bump("parse");
}
fn emit_enc(cx: &mut Ctx, a: &ZcashAddress, ua_items: Option<(NetworkType, Vec<It>)>, strings: &mut Vec<String>) {
    let mut t = Tbl::new();
    if let Some((n, its)) = &ua_items {
        let mut raw = raw_items(its);
        raw.extend(pad(K::Addr.hrp(*n)));
        if let Some(j) = t.jumble(&raw, false) {
            t.jumble(&j, true);
        }
    }
    let s = catch(|| a.encode());
    let back = match &s {
        None => "None".to_string(),
        Some(s) => {
            strings.push(s.clone());
            format!("(Some {})", ares(&catch(|| ZcashAddress::try_from_encoded(s))))
        }
    };
    case(format!("CEnc {} {} {} {}", obs(a), t.coq(), sres(&s), back));
    cx.bump("enc");
}

/// `convert_if_network(expected)` through the recording converter
fn emit_conv(cx: &mut Ctx, a: &ZcashAddress, expected: NetworkType) {
    let r = catch(|| a.clone().convert_if_network::<Obs>(expected));
    let o = match r {
        None => PANIC.to_string(),
        Some(Ok(x)) => ok(x.0),
        Some(Err(ConversionError::IncorrectNetwork { expected: e, actual: act })) => format!("(Err ({}, {}))", net(e), net(act)),
        Some(Err(_)) => PANIC.to_string(), // the recording converter never fails: would be a model disagreement
    };
    case(format!("CConv {} {} {}", obs(a), net(expected), o));
    cx.bump("conv");
}

// ---------------------------------------------------------------------------------------------
// generators

const UNK_TCS: [u32; 12] = [4, 5, 6, 0xfc, 0xfd, 0xfe, 0xff, 0xffff, 0x10000, 0xfffa, 0x01ff_ffff, 0x0200_0000];

fn rand_unknown(r: &mut Rng) -> It {
    let t = if r.chance(3, 4) { *r.pick(&UNK_TCS) } else { r.range(4, 0x0200_0000) as u32 };
    let l = match r.below(6) {
        0 => 0,
        1 => r.range(1, 8) as usize,
        2 => r.range(250, 256) as usize,
        _ => r.range(9, 90) as usize,
    };
    (t, r.bytes(l))
}
/// a well-formed item set for kind k (ascending, composition rules satisfied)
fn rand_valid_items(r: &mut Rng, k: K) -> Vec<It> {
    loop {
        let mut v: Vec<It> = vec![];
        let transparent = r.below(4);
        match (k, transparent) {
            (_, 0) => v.push((0, r.bytes(k.known_len(0).unwrap()))),
            (K::Addr, 1) => v.push((1, r.bytes(20))),
            _ => {}
        }
        if r.chance(2, 3) {
            v.push((2, r.bytes(k.known_len(2).unwrap())));
        }
        if r.chance(2, 3) {
            v.push((3, r.bytes(k.known_len(3).unwrap())));
        }
        let nu = match r.below(5) {
            0 => 1,
            1 => 2,
            _ => 0,
        };
        for _ in 0..nu {
            v.push(rand_unknown(r));
        }
        v.sort();
        v.dedup_by_key(|x| x.0);
        if v.iter().any(|x| x.0 >= 2) {
            return v;
        }
    }
}
fn shuffle<T>(r: &mut Rng, v: &mut Vec<T>) {
    for i in (1..v.len()).rev() {
        let j = r.below(i as u64 + 1) as usize;
        v.swap(i, j);
    }
}

fn bech32_string<Ck: bech32::Checksum>(hrp: &str, fes: &[Fe32]) -> String {
    let h = Hrp::parse_unchecked(hrp);
    fes.iter().copied().with_checksum::<Ck>(&h).chars().collect()
}
fn to_fes(b: &[u8]) -> Vec<Fe32> {
    b.iter().copied().bytes_to_fes().collect()
}
fn fe(x: u64) -> Fe32 {
    Fe32::try_from(x as u8 & 31).unwrap()
}

/// raw (un-jumbled) container encodings that violate exactly one rule, or none
fn raw_variants(r: &mut Rng, k: K, hrp: &str) -> Vec<Vec<u8>> {
    let its = rand_valid_items(r, k);
    let good = raw_items(&its);
    let p = pad(hrp);
    let with_pad = |body: &[u8], p: &[u8]| {
        let mut v = body.to_vec();
        v.extend_from_slice(p);
        v
    };
    let mut out = vec![with_pad(&good, &p)];
    // permuted
    if its.len() > 1 {
        let mut q = its.clone();
        q.swap(0, its.len() - 1);
        out.push(with_pad(&raw_items(&q), &p));
    }
    // duplicated item
    {
        let mut q = its.clone();
        let i = r.below(its.len() as u64) as usize;
        q.insert(i, its[i].clone());
        out.push(with_pad(&raw_items(&q), &p));
    }
    // both P2PKH and P2SH / P2SH in a key container
    {
        let mut q: Vec<It> = its.iter().filter(|x| x.0 > 1).cloned().collect();
        q.insert(0, (1, r.bytes(20)));
        q.insert(0, (0, r.bytes(k.known_len(0).unwrap())));
        out.push(with_pad(&raw_items(&q), &p));
        let mut q2: Vec<It> = its.iter().filter(|x| x.0 > 1).cloned().collect();
        q2.insert(0, (1, r.bytes(20)));
        out.push(with_pad(&raw_items(&q2), &p));
    }
    // only transparent, padded with zeros up to a valid length by a long enough item? (only P2PKH is 22/67 bytes)
    {
        let q: Vec<It> = vec![(0, r.bytes(k.known_len(0).unwrap()))];
        let mut body = raw_items(&q);
        if k == K::Addr {
            let q2: Vec<It> = vec![(1, r.bytes(20))];
            if r.bool() {
                body = raw_items(&q2);
            }
        }
        out.push(with_pad(&body, &p));
    }
    // wrong padding: other hrp, a flipped byte, non-zero tail
    {
        let mut p2 = p.clone();
        let i = r.below(16) as usize;
        p2[i] ^= 1 << r.below(8);
        out.push(with_pad(&good, &p2));
        out.push(with_pad(&good, &pad(if hrp == "u" { "utest" } else { "u" })));
    }
    // non-canonical CompactSize for the first typecode or length
    {
        let (t, d) = &its[0];
        let mut v = vec![253, *t as u8, 0];
        if *t >= 253 {
            v = vec![254];
            v.extend_from_slice(&(*t).to_le_bytes());
        }
        if *t >= 0x10000 {
            v = vec![255];
            v.extend_from_slice(&(*t as u64).to_le_bytes());
        }
        v.extend(cs_bytes(d.len() as u64));
        v.extend_from_slice(d);
        v.extend(raw_items(&its[1..]));
        out.push(with_pad(&v, &p));
        let mut v = cs_bytes(*t as u64);
        v.push(253);
        v.extend_from_slice(&(d.len() as u16).to_le_bytes());
        if d.len() >= 253 {
            v.pop();
            v.pop();
            v.pop();
            v.push(254);
            v.extend_from_slice(&(d.len() as u32).to_le_bytes());
        }
        v.extend_from_slice(d);
        v.extend(raw_items(&its[1..]));
        out.push(with_pad(&v, &p));
    }
    // truncated last item / length beyond the end / huge length
    {
        let mut v = good.clone();
        let cut = r.range(1, std::cmp::min(10, v.len() as u64 - 1)) as usize;
        v.truncate(v.len() - cut);
        out.push(with_pad(&v, &p));
        let mut v = raw_items(&its[..its.len() - 1]);
        v.extend(cs_bytes(its[its.len() - 1].0 as u64));
        v.extend(cs_bytes(*r.pick(&[0x0200_0000u64, 0x0200_0001, 0xffff_ffff, u64::MAX, 300])));
        v.extend_from_slice(&its[its.len() - 1].1);
        out.push(with_pad(&v, &p));
        // lone typecode byte at the end
        let mut v = good.clone();
        v.push(r.below(256) as u8);
        out.push(with_pad(&v, &p));
    }
    // typecode above MAX_COMPACT_SIZE
    {
        let mut v = good.clone();
        v.push(254);
        v.extend_from_slice(&r.pick(&[0x0200_0001u32, 0xffff_ffff]).to_le_bytes());
        v.push(1);
        v.push(7);
        out.push(with_pad(&v, &p));
    }
    // wrong length for a known item
    {
        let mut q = its.clone();
        let i = r.below(q.len() as u64) as usize;
        if q[i].0 < 4 {
            if r.bool() {
                q[i].1.push(0)
            } else {
                q[i].1.pop();
            }
        } else {
            let ql = r.range(0, 60) as usize;
            q[i] = (2, r.bytes(ql));
            q.sort();
        }
        out.push(with_pad(&raw_items(&q), &p));
    }
    // empty container (padding only, padded to 48 with an unknown item is not "empty": use 32 zero bytes + pad)
    out.push(with_pad(&[], &p));
    out
}

fn mutate_char(r: &mut Rng, s: &str) -> String {
    let mut c: Vec<char> = s.chars().collect();
    if c.is_empty() {
        return "1".into();
    }
    let i = r.below(c.len() as u64) as usize;
    match r.below(7) {
        0 => c[i] = *r.pick(&['q', 'p', 'z', 'r', 'y', '9', 'x', '8', 'g', 'f', '2', 't', 'v', 'd', 'w', '0', 's', '3', 'j', 'n', '5', '4', 'k', 'h', 'c', 'e', '6', 'm', 'u', 'a', '7', 'l']),
        1 => c[i] = *r.pick(&['b', 'i', 'o', '1', 'O', 'I', 'l', '0', ' ', '-', '_', 'é', '\u{2003}', '\u{0}', 'Z', 'Q']),
        2 => {
            c.remove(i);
        }
        3 => c.insert(i, *r.pick(&['q', 'a', '1', 'B', '2'])),
        4 => c[i] = c[i].to_ascii_uppercase(),
        5 => c.swap(i, r.below(s.chars().count() as u64) as usize),
        _ => c.truncate(i),
    }
    c.into_iter().collect()
}

fn main() {
    let a = args();
    quiet_panics();
    let mut r = Rng::new(a.seed, 10);
    let mut cx = Ctx { n: 0, ok_parse: 0, err_parse: 0, classes: Default::default() };
    let scale = a.budget(1, 8);

    // ---- F4Jumble on every length class -------------------------------------------------
    let mut lens: Vec<usize> = vec![0, 1, 16, 47, 48, 49, 50, 63, 64, 65, 95, 96, 97, 126, 127, 128, 129, 130, 191, 192, 193, 255, 256, 257, 320, 321, 513];
    for _ in 0..(24 * scale) {
        lens.push(r.range(48, 330) as usize);
    }
    if a.thorough() || a.search {
        lens.extend([2048, 4095, 4096, 8191, 8192]); // longer messages overflow Coq's parser stack (one string literal per hash input)
    }
    let mut jl = std::collections::BTreeMap::new();
    for l in &lens {
        for inv in [false, true] {
            let m = match r.below(4) {
                0 => vec![0u8; *l],
                1 => vec![0xffu8; *l],
                _ => r.bytes(*l),
            };
            emit_jumble(&mut cx, &m, inv);
        }
        *jl.entry(if *l < 48 { "lt48" } else if *l <= 128 { "48..128" } else if *l <= 192 { "129..192" } else { "gt192" }).or_insert(0) += 2;
    }

    // ---- CompactSize ---------------------------------------------------------------------
    let vals: Vec<u64> = vec![0, 1, 127, 252, 253, 254, 255, 256, 0xfffe, 0xffff, 0x10000, 0x10001, 0x01ff_ffff, 0x0200_0000, 0x0200_0001,
        0xffff_fffe, 0xffff_ffff, 0x1_0000_0000, 0x1_0000_0001, u64::MAX - 1, u64::MAX];
    for v in &vals {
        emit_cs_write(&mut cx, *v);
        let mut b = cs_bytes(*v);
        emit_cs_read(&mut cx, &b);
        b.extend(r.bytes(3));
        emit_cs_read(&mut cx, &b);
        // every other width (non-canonical when wider than needed)
        for (flag, w) in [(253u8, 2usize), (254, 4), (255, 8)] {
            let mut nb = vec![flag];
            nb.extend_from_slice(&v.to_le_bytes()[..w]);
            emit_cs_read(&mut cx, &nb);
            nb.pop();
            emit_cs_read(&mut cx, &nb); // truncated
        }
    }
    emit_cs_read(&mut cx, &[]);
    for _ in 0..(150 * scale) {
        let v = match r.below(5) {
            0 => r.below(300),
            1 => r.range(0xff00, 0x10100),
            2 => r.range(0x01ff_ff00, 0x0200_0100),
            3 => r.u64() >> r.below(64),
            _ => r.range(0xffff_ff00, 0x1_0000_0100),
        };
        emit_cs_write(&mut cx, v);
        let l = r.range(0, 10) as usize;
        emit_cs_read(&mut cx, &r.bytes(l));
        let mut b = cs_bytes(v);
        let bl = r.below(3) as usize;
        b.extend(r.bytes(bl));
        emit_cs_read(&mut cx, &b);
    }

    // ---- containers: try_from_items / encode / decode ----------------------------------------
    let mut ustrings: Vec<(K, String)> = vec![];
    // known finding witness (always first): a container with one short unknown item
    emit_container(&mut cx, K::Addr, &[(0xffff, vec![1, 2, 3])], NetworkType::Main, &mut ustrings);
    for k in KS {
        // boundary of the encodable class: padded raw encoding of 47 / 48 bytes
        emit_container(&mut cx, k, &[(4, vec![0; 29])], NetworkType::Test, &mut ustrings);
        emit_container(&mut cx, k, &[(4, vec![0; 30])], NetworkType::Regtest, &mut ustrings);
        emit_container(&mut cx, k, &[], NetworkType::Main, &mut ustrings);
        for _ in 0..(70 * scale) {
            let mut its = rand_valid_items(&mut r, k);
            match r.below(10) {
                0 => {
                    // duplicate typecode (same or different data)
                    let i = r.below(its.len() as u64) as usize;
                    let mut d = its[i].clone();
                    if r.bool() && d.0 >= 4 {
                        d.1 = r.bytes(d.1.len());
                    }
                    its.push(d);
                }
                1 => {
                    its.retain(|x| x.0 > 1);
                    its.push((0, r.bytes(k.known_len(0).unwrap())));
                    if k == K::Addr {
                        its.push((1, r.bytes(20)));
                    }
                }
                2 => its.retain(|x| x.0 < 2),
                _ => {}
            }
            shuffle(&mut r, &mut its);
            let n = *r.pick(&NETS);
            emit_container(&mut cx, k, &its, n, &mut ustrings);
        }
    }
    // decode: valid strings of every kind against every decoder kind, and raw-level violations
    let mut dec_inputs: Vec<(K, String)> = vec![];
    for (k, s) in ustrings.iter().take(90 * scale) {
        dec_inputs.push((*k, s.clone()));
        if r.chance(1, 6) {
            dec_inputs.push((*r.pick(&KS), s.clone()));
        }
        if r.chance(1, 4) {
            dec_inputs.push((*k, mutate_char(&mut r, s)));
        }
        if r.chance(1, 10) {
            dec_inputs.push((*k, s.to_ascii_uppercase()));
        }
        if r.chance(1, 10) {
            dec_inputs.push((*k, format!(" {}", s)));
        }
    }
    for k in KS {
        for _ in 0..(7 * scale) {
            let n = *r.pick(&NETS);
            let hrp = k.hrp(n);
            for raw in raw_variants(&mut r, k, hrp) {
                // jumble with the crate when the length allows it, else encode the raw bytes as they are
                let j = f4jumble::f4jumble(&raw).unwrap_or(raw.clone());
                let fes = to_fes(&j);
                dec_inputs.push((k, bech32_string::<Bech32mZip316>(hrp, &fes)));
                if r.chance(1, 12) {
                    dec_inputs.push((k, bech32_string::<Bech32>(hrp, &fes))); // other checksum variant
                }
                if r.chance(1, 12) {
                    dec_inputs.push((k, bech32_string::<Bech32mZip316>(*r.pick(&["ux", "v", "uview1", "UTEST", "tex"]), &fes)));
                }
                if r.chance(1, 12) {
                    // not jumbled at all
                    dec_inputs.push((k, bech32_string::<Bech32mZip316>(hrp, &to_fes(&raw))));
                }
                if (fes.len() * 5) % 8 == 0 && r.chance(1, 2) {
                    // exactly five zero padding bits: one whole surplus character
                    let mut f2 = fes.clone();
                    f2.push(fe(0));
                    dec_inputs.push((k, bech32_string::<Bech32mZip316>(hrp, &f2)));
                }
                if r.chance(1, 8) {
                    // non-zero padding bits / an extra data character
                    let mut f2 = fes.clone();
                    let pb = (f2.len() * 5) % 8;
                    if pb > 0 && r.bool() {
                        let l = f2.len() - 1;
                        f2[l] = fe(f2[l].to_u8() as u64 | (1 << r.below(pb as u64)));
                    } else {
                        f2.push(fe(r.below(32)));
                    }
                    dec_inputs.push((k, bech32_string::<Bech32mZip316>(hrp, &f2)));
                }
            }
        }
    }
    for (k, s) in &dec_inputs {
        emit_udec(&mut cx, *k, s);
    }

    // ---- ZcashAddress: constructors, encode, parse ---------------------------------------------
    let mut strings: Vec<String> = vec![];
    let reps = 12 * scale;
    for n in NETS {
        for rep in 0..reps {
            let fill = |r: &mut Rng, l: usize| match rep {
                0 => vec![0u8; l],
                1 => vec![0xff; l],
                _ => r.bytes(l),
            };
            let d64: [u8; 64] = fill(&mut r, 64).try_into().unwrap();
            let d43: [u8; 43] = fill(&mut r, 43).try_into().unwrap();
            let d20: [u8; 20] = fill(&mut r, 20).try_into().unwrap();
            let vs: Vec<(&str, Vec<u8>, ZcashAddress)> = vec![
                ("Sprout", d64.to_vec(), ZcashAddress::from_sprout(n, d64)),
                ("Sapling", d43.to_vec(), ZcashAddress::from_sapling(n, d43)),
                ("P2pkh", d20.to_vec(), ZcashAddress::from_transparent_p2pkh(n, d20)),
                ("P2sh", d20.to_vec(), ZcashAddress::from_transparent_p2sh(n, d20)),
                ("Tex", d20.to_vec(), ZcashAddress::from_tex(n, d20)),
            ];
            for (k, d, za) in vs {
                case(format!("CCtor {} {} {} {}", net(n), k, hn(&d), obs(&za)));
                cx.bump("ctor");
                emit_enc(&mut cx, &za, None, &mut strings);
                if rep < 4 {
                    // every kind x network of the value x expected network
                    for e in NETS {
                        emit_conv(&mut cx, &za, e);
                    }
                }
            }
        }
        for _ in 0..(30 * scale) {
            let its = rand_valid_items(&mut r, K::Addr);
            if let Some(Ok(Cont::A(ua))) = try_from_items(K::Addr, &its) {
                let za = ZcashAddress::from_unified(n, ua);
                emit_enc(&mut cx, &za, Some((n, its.clone())), &mut strings);
                if r.chance(1, 6) {
                    for e in NETS {
                        emit_conv(&mut cx, &za, e);
                    }
                }
            }
        }
    }
    // known-finding witness through the top-level encoder as well
    if let Some(Ok(Cont::A(ua))) = try_from_items(K::Addr, &[(5, vec![9; 10])]) {
        let za = ZcashAddress::from_unified(NetworkType::Main, ua);
        emit_enc(&mut cx, &za, Some((NetworkType::Main, vec![(5, vec![9; 10])])), &mut strings);
    }

    // parsed addresses converted for each expected network (e.g. a testnet TEX string on regtest)
    for s in strings.iter().step_by(std::cmp::max(1, strings.len() / (40 * scale))) {
        if let Ok(za) = ZcashAddress::try_from_encoded(s) {
            for e in NETS {
                emit_conv(&mut cx, &za, e);
            }
        }
    }
    // strings to parse: the valid ones, unified strings of all three kinds, and near-valid ones
    let mut inputs: Vec<String> = vec![];
    for s in &strings {
        inputs.push(s.clone());
        match r.below(12) {
            0 => inputs.push(format!("  {}\n", s)),
            1 => inputs.push(format!("\u{2003}{}\u{a0}\t", s)),
            2 => inputs.push(s.to_ascii_uppercase()),
            3 | 4 | 5 => inputs.push(mutate_char(&mut r, s)),
            6 => {
                let m = mutate_char(&mut r, s);
                inputs.push(mutate_char(&mut r, &m));
            }
            _ => {}
        }
    }
    for (_, s) in dec_inputs.iter().take(50 * scale) {
        inputs.push(s.clone());
    }
    // unified address strings that violate one rule (the tail of dec_inputs holds the raw variants)
    for (_, s) in dec_inputs.iter().rev().filter(|(k, _)| *k == K::Addr).take(110 * scale) {
        inputs.push(s.clone());
    }
    // Bech32 / Bech32m with wrong variant, wrong HRP, wrong payload length, bad padding
    for _ in 0..(60 * scale) {
        let n = *r.pick(&NETS);
        let (hs, ht) = match n {
            NetworkType::Main => ("zs", "tex"),
            NetworkType::Test => ("ztestsapling", "textest"),
            NetworkType::Regtest => ("zregtestsapling", "texregtest"),
        };
        let l43 = *r.pick(&[43usize, 43, 43, 42, 44, 0, 20, 64]);
        let l20 = *r.pick(&[20usize, 20, 20, 19, 21, 0, 43]);
        let d43 = r.bytes(l43);
        let d20 = r.bytes(l20);
        let mut f43 = to_fes(&d43);
        let mut f20 = to_fes(&d20);
        match r.below(8) {
            0 => {
                inputs.push(bech32_string::<Bech32m>(hs, &f43)); // wrong variant for Sapling
                inputs.push(bech32_string::<Bech32>(ht, &f20)); // wrong variant for TEX
            }
            1 => {
                inputs.push(bech32_string::<Bech32>(*r.pick(&["zs1", "zx", "bc", "ZS", "zviews", "u"]), &f43));
                inputs.push(bech32_string::<Bech32m>(*r.pick(&["te", "texx", "bc", "uview", "uivktest"]), &f20));
            }
            2 => {
                // non-zero padding bits
                if let Some(l) = f43.last_mut() {
                    let pb = (to_fes(&d43).len() * 5) % 8;
                    if pb > 0 {
                        *l = fe(l.to_u8() as u64 | (1 << r.below(pb as u64)));
                    }
                }
                inputs.push(bech32_string::<Bech32>(hs, &f43));
                f20.push(fe(r.below(32)));
                inputs.push(bech32_string::<Bech32m>(ht, &f20)); // whole extra character
            }
            3 => {
                f43.push(fe(r.below(32)));
                inputs.push(bech32_string::<Bech32>(hs, &f43));
                f20.push(fe(0));
                f20.push(fe(0));
                inputs.push(bech32_string::<Bech32m>(ht, &f20));
            }
            _ => {
                inputs.push(bech32_string::<Bech32>(hs, &f43));
                inputs.push(bech32_string::<Bech32m>(ht, &f20));
            }
        }
    }
    // TEX payload followed by one surplus all-zero character (exactly five zero padding bits)
    for (n, ht) in [("Main", "tex"), ("Test", "textest"), ("Regtest", "texregtest")] {
        for _ in 0..3 {
            let mut f = to_fes(&r.bytes(20));
            f.push(fe(0));
            inputs.push(bech32_string::<Bech32m>(ht, &f));
        }
        let _ = n;
    }
    // long Bech32m strings around the 1023 code length with a TEX prefix
    for l in [620usize, 630, 635, 636, 637, 640] {
        inputs.push(bech32_string::<Bech32m>("tex", &to_fes(&r.bytes(l))));
    }
    // Base58Check: wrong length, unknown prefix, bad checksum, too short
    for _ in 0..(40 * scale) {
        let prefix: [u8; 2] = *r.pick(&[[0x16, 0x9a], [0x1c, 0xb8], [0x1c, 0xbd], [0x16, 0xb6], [0x1d, 0x25], [0x1c, 0xba], [0x00, 0x00], [0x1c, 0xb9], [0x80, 0x01]]);
        let l = *r.pick(&[20usize, 20, 64, 64, 19, 21, 63, 65, 0, 1, 32]);
        let mut b = prefix.to_vec();
        b.extend(r.bytes(l));
        if r.chance(1, 6) {
            b.truncate(r.below(3) as usize);
        }
        if r.chance(1, 5) {
            b.insert(0, 0);
        }
        let s = bs58::encode(&b).with_check().into_string();
        inputs.push(s.clone());
        if r.chance(1, 4) {
            inputs.push(bs58::encode(&b).into_string()); // no checksum
        }
        if r.chance(1, 4) {
            inputs.push(mutate_char(&mut r, &s));
        }
    }
    for s in ["", " ", "1", "11", "111111", "u1", "zs1", "tex1", "1qqqqqq", "u1qqqqqq", "\u{3000}", "u1\u{e9}qqqqqq", "t1", "zc", "3QJmnh", "é", "😀1qqqqqq", "z", "tex1qqqqqq", "TEX1QQQQQQ"] {
        inputs.push(s.to_string());
    }
    for _ in 0..(60 * scale) {
        let l = r.range(1, 90) as usize;
        let alphabet: Vec<char> = match r.below(3) {
            0 => "qpzry9x8gf2tvdw0s3jn54khce6mua7l1".chars().collect(),
            1 => "123456789ABCDEFGHJKLMNPQRSTUVWXYZabcdefghijkmnopqrstuvwxyz".chars().collect(),
            _ => (' '..='~').collect(),
        };
        inputs.push((0..l).map(|_| *r.pick(&alphabet)).collect());
    }
    for s in &inputs {
        emit_parse(&mut cx, s);
    }

    stat(format!(
        "{{\"cases\":{},\"by_op\":{:?},\"jumble_length_classes\":{:?},\"parse_ok\":{},\"parse_err\":{},\"tier\":\"{}\",\"seed\":{}}}",
        cx.n, cx.classes, jl, cx.ok_parse, cx.err_parse, a.tier, a.seed
    ).replace("{\"", "{\"").replace("\": ", "\":"));
}
