use vcommon::*;
use zcash_address::unified::{self, Container, Encoding, Receiver};
use zcash_address::ZcashAddress;
use zcash_protocol::consensus::NetworkType;
use bech32::{Bech32, Bech32m, Hrp};

fn main() {
    quiet_panics();
    // 1. padding bits
    let data = [0u8; 43];
    let hrp = Hrp::parse("zs").unwrap();
    let good = bech32::encode::<Bech32>(hrp, &data).unwrap();
    println!("good {} -> {:?}", good, ZcashAddress::try_from_encoded(&good).map(|a| a.encode()));
    // build fes manually: 69 fes with last bit set
    use bech32::primitives::iter::{ByteIterExt, Fe32IterExt};
    use bech32::Fe32;
    let mut fes: Vec<Fe32> = data.iter().copied().bytes_to_fes().collect();
    println!("nfes {}", fes.len());
    let l = fes.len();
    fes[l - 1] = Fe32::try_from(1u8).unwrap();
    let s: String = fes.iter().copied().with_checksum::<Bech32>(&hrp).chars().collect();
    println!("padbit {} -> {:?}", s, ZcashAddress::try_from_encoded(&s).map(|a| a.encode()));
    fes.push(Fe32::try_from(21u8).unwrap());
    let s: String = fes.iter().copied().with_checksum::<Bech32>(&hrp).chars().collect();
    println!("extra fe {} -> {:?}", s, ZcashAddress::try_from_encoded(&s).map(|a| a.encode()));
    // TEX with an extra fe
    let hrp = Hrp::parse("tex").unwrap();
    let mut fes: Vec<Fe32> = [7u8; 20].iter().copied().bytes_to_fes().collect();
    fes.push(Fe32::try_from(9u8).unwrap());
    let s: String = fes.iter().copied().with_checksum::<Bech32m>(&hrp).chars().collect();
    println!("tex extra {} -> {:?}", s, ZcashAddress::try_from_encoded(&s).map(|a| a.encode()));
    // 2. encode panic
    let r = catch(|| unified::Address::try_from_items(vec![Receiver::Unknown { typecode: 0xffff, data: vec![1, 2, 3] }]).map(|a| a.encode(&NetworkType::Main)));
    println!("tiny unknown-only UA: {:?}", r);
    let r = catch(|| unified::Address::try_from_items(vec![Receiver::Unknown { typecode: 4, data: vec![0; 29] }]).map(|a| a.encode(&NetworkType::Main)));
    println!("47: {:?}", r);
    let r = catch(|| unified::Address::try_from_items(vec![Receiver::Unknown { typecode: 4, data: vec![0; 30] }]).map(|a| a.encode(&NetworkType::Main)));
    println!("48: {:?}", r.map(|x| x.map(|s| s.len())));
    let r = catch(|| unified::Address::try_from_items(vec![Receiver::Unknown { typecode: 4, data: vec![0; 2_700_000] }]).map(|a| a.encode(&NetworkType::Main)));
    println!("2.7MB: {:?}", r.map(|x| x.map(|s| s.len())));
    let r = catch(|| unified::Address::try_from_items(vec![Receiver::Sapling([0;43]), Receiver::Unknown { typecode: 0x02000001, data: vec![0; 3] }]).map(|a| { let s = a.encode(&NetworkType::Main); (unified::Address::decode(&s).map(|x| x.1 == a)) }));
    println!("big typecode: {:?}", r);
    let r = catch(|| unified::Address::try_from_items(vec![Receiver::Unknown { typecode: 2, data: vec![0; 43] }]).map(|a| { let s = a.encode(&NetworkType::Main); (unified::Address::decode(&s).map(|x| x.1 == a)) }));
    println!("unknown with known typecode: {:?}", r);
}
