//! C20 harness: zcash_history trees (V1/V2/V3) and the CompactSize/node/entry codecs through
//! their public API.  Prints Coq `case` terms (inputs + observed outcome).
//!
//! The harness plays the role of the database: it keeps the array representation (`db`) by
//! reading back the entries an append returns, and loads partial views (`Tree::new(length,
//! peaks, extra)`) from it.  For every node the implementation creates it records the triple
//! (branch id, serialised left || serialised right, commitment found in the node) so that the
//! model can be run with the very same hash values; the check driver re-verifies every triple
//! with an independent BLAKE2b.
use primitive_types::U256;
use std::collections::BTreeSet;
use vcommon::*;
use zcash_encoding::CompactSize;
use zcash_history::{Entry, EntryLink, Error, NodeData, NodeDataV2, NodeDataV3, Tree, Version, V1, V2, V3};

#[derive(Clone, Debug, PartialEq)]
struct G {
    bid: u32, c: [u8; 32], st: u32, et: u32, sta: u32, eta: u32, ss: [u8; 32], es: [u8; 32], w: U256,
    sh: u64, eh: u64, stx: u64, so: [u8; 32], eo: [u8; 32], otx: u64, si: [u8; 32], ei: [u8; 32], itx: u64,
}

trait VK: Version {
    const NAME: &'static str;
    const K: u8;
    fn mk(g: &G) -> Self::NodeData;
    fn un(d: &Self::NodeData) -> G;
}
fn mk1(g: &G) -> NodeData {
    NodeData { consensus_branch_id: g.bid, subtree_commitment: g.c, start_time: g.st, end_time: g.et, start_target: g.sta,
        end_target: g.eta, start_sapling_root: g.ss, end_sapling_root: g.es, subtree_total_work: g.w,
        start_height: g.sh, end_height: g.eh, sapling_tx: g.stx }
}
fn mk2(g: &G) -> NodeDataV2 {
    NodeDataV2 { v1: mk1(g), start_orchard_root: g.so, end_orchard_root: g.eo, orchard_tx: g.otx }
}
fn un1(d: &NodeData) -> G {
    G { bid: d.consensus_branch_id, c: d.subtree_commitment, st: d.start_time, et: d.end_time, sta: d.start_target,
        eta: d.end_target, ss: d.start_sapling_root, es: d.end_sapling_root, w: d.subtree_total_work, sh: d.start_height,
        eh: d.end_height, stx: d.sapling_tx, so: [0; 32], eo: [0; 32], otx: 0, si: [0; 32], ei: [0; 32], itx: 0 }
}
fn un2(d: &NodeDataV2) -> G {
    let mut g = un1(&d.v1);
    g.so = d.start_orchard_root; g.eo = d.end_orchard_root; g.otx = d.orchard_tx;
    g
}
impl VK for V1 {
    const NAME: &'static str = "V1";
    const K: u8 = 1;
    fn mk(g: &G) -> NodeData { mk1(g) }
    fn un(d: &NodeData) -> G { un1(d) }
}
impl VK for V2 {
    const NAME: &'static str = "V2";
    const K: u8 = 2;
    fn mk(g: &G) -> NodeDataV2 { mk2(g) }
    fn un(d: &NodeDataV2) -> G { un2(d) }
}
impl VK for V3 {
    const NAME: &'static str = "V3";
    const K: u8 = 3;
    fn mk(g: &G) -> NodeDataV3 {
        NodeDataV3 { v2: mk2(g), start_ironwood_root: g.si, end_ironwood_root: g.ei, ironwood_tx: g.itx }
    }
    fn un(d: &NodeDataV3) -> G {
        let mut g = un2(&d.v2);
        g.si = d.start_ironwood_root; g.ei = d.end_ironwood_root; g.itx = d.ironwood_tx;
        g
    }
}

/// does plain `+` on u64 panic in this build (debug profile) or wrap (release)?
fn oc() -> bool {
    static OC: std::sync::OnceLock<bool> = std::sync::OnceLock::new();
    *OC.get_or_init(|| catch(|| std::hint::black_box(u64::MAX) + std::hint::black_box(1u64)).is_none())
}

// ---- printers ------------------------------------------------------------------------------
fn u256s(w: &U256) -> String {
    format!("{}", w)
}
fn pd(k: u8, g: &G) -> String {
    let base = format!("{} {} {} {} {} {} {} {} {} {} {} {}", g.bid, hz(&g.c), g.st, g.et, g.sta, g.eta, hz(&g.ss), hz(&g.es),
        u256s(&g.w), g.sh, g.eh, g.stx);
    match k {
        1 => format!("(D1 {})", base),
        2 => format!("(D2 {} {} {} {})", base, hz(&g.so), hz(&g.eo), g.otx),
        _ => format!("(D3 {} {} {} {} {} {} {})", base, hz(&g.so), hz(&g.eo), g.otx, hz(&g.si), hz(&g.ei), g.itx),
    }
}
fn plink(l: EntryLink) -> String {
    match l {
        EntryLink::Stored(i) => format!("(Stored {})", i),
        EntryLink::Generated(i) => format!("(Generated {})", i),
    }
}
#[derive(Clone, Debug, PartialEq)]
enum K { Leaf, Node(EntryLink2, EntryLink2) }
#[derive(Clone, Copy, Debug, PartialEq)]
enum EntryLink2 { S(u32), Gn(u32) }
fn l2(l: EntryLink) -> EntryLink2 { match l { EntryLink::Stored(i) => EntryLink2::S(i), EntryLink::Generated(i) => EntryLink2::Gn(i) } }
fn l1(l: EntryLink2) -> EntryLink { match l { EntryLink2::S(i) => EntryLink::Stored(i), EntryLink2::Gn(i) => EntryLink::Generated(i) } }
fn kind_of<V: VK>(e: &Entry<V>) -> K {
    if e.leaf() { K::Leaf } else { K::Node(l2(e.left().unwrap()), l2(e.right().unwrap())) }
}
fn pkind(k: &K) -> String {
    match k { K::Leaf => "Leaf".into(), K::Node(a, b) => format!("(Node {} {})", plink(l1(*a)), plink(l1(*b))) }
}
fn pentry(vk: u8, k: &K, g: &G) -> String {
    format!("(mkEntry {} {})", pkind(k), pd(vk, g))
}
fn mk_entry<V: VK>(k: &K, g: &G) -> Entry<V> {
    match k { K::Leaf => Entry::new_leaf(V::mk(g)), K::Node(a, b) => Entry::new(V::mk(g), l1(*a), l1(*b)) }
}
fn perr(e: &Error) -> String {
    match e {
        Error::ExpectedInMemory(l) => format!("(ExpectedInMemory {})", plink(*l)),
        Error::ExpectedNode(None) => "(ExpectedNode None)".into(),
        Error::ExpectedNode(Some(l)) => format!("(ExpectedNode (Some {}))", plink(*l)),
    }
}
fn ioerr(e: &corez::io::Error) -> String {
    match e.kind() {
        corez::io::ErrorKind::UnexpectedEof => err("Eof"),
        corez::io::ErrorKind::InvalidInput => err("InvalidInput"),
        corez::io::ErrorKind::InvalidData => err("InvalidData"),
        _ => err("OTHER"),
    }
}
fn b2(pers_bid: u32, data: &[u8]) -> [u8; 32] {
    let mut p = [0u8; 16];
    p[..12].copy_from_slice(b"ZcashHistory");
    p[12..].copy_from_slice(&pers_bid.to_le_bytes());
    let h = blake2b_simd::Params::new().hash_length(32).personal(&p).to_state().update(data).finalize();
    let mut r = [0u8; 32];
    r.copy_from_slice(h.as_bytes());
    r
}

struct Out { lines: Vec<String>, n: usize, kinds: std::collections::BTreeMap<&'static str, usize>, max_leaves: usize, ops: usize, panics: usize, errs: usize, views: usize, tbl_entries: usize }
impl Out {
    fn c(&mut self, kind: &'static str, s: String) {
        self.n += 1;
        *self.kinds.entry(kind).or_insert(0) += 1;
        self.lines.push(s);
    }
}

// ---- generators ----------------------------------------------------------------------------
fn arr32(r: &mut Rng) -> [u8; 32] {
    let mut a = [0u8; 32];
    match r.below(4) {
        0 => {}
        1 => a = [r.below(256) as u8; 32],
        _ => a.copy_from_slice(&r.bytes(32)),
    }
    a
}
const U64_EDGES: [u64; 18] = [0, 1, 2, 252, 253, 254, 255, 256, 0xFFFF, 0x10000, 0x0200_0000, 0x0200_0001, 0xFFFF_FFFF,
    0x1_0000_0000, 0x1_0000_0001, u64::MAX / 2, u64::MAX - 1, u64::MAX];
fn counter(r: &mut Rng, extreme: bool) -> u64 {
    if extreme {
        match r.below(6) { 0 => *r.pick(&U64_EDGES), 1 => u64::MAX / 4, 2 => r.u64(), 3 => r.below(1 << 40), _ => r.below(5000) }
    } else {
        match r.below(8) { 0 => 0, 1 => r.below(1 << 34), 2 => 0x0200_0000 + r.below(3), _ => r.below(3000) }
    }
}
fn work(r: &mut Rng, extreme: bool) -> U256 {
    if extreme {
        match r.below(6) {
            0 => U256::MAX, 1 => U256::MAX / 2, 2 => U256::from_little_endian(&r.bytes(32)), 3 => U256::one() << 255,
            _ => U256::from(r.u64()),
        }
    } else {
        match r.below(5) { 0 => U256::from(r.u64()) << 64, 1 => U256::zero(), _ => U256::from(r.below(1 << 50)) }
    }
}
fn leaf(r: &mut Rng, bid: u32, h: u64, extreme: bool) -> G {
    G { bid, c: arr32(r), st: r.u64() as u32, et: r.u64() as u32, sta: r.u64() as u32, eta: r.u64() as u32, ss: arr32(r), es: arr32(r),
        w: work(r, extreme), sh: h, eh: h, stx: counter(r, extreme), so: arr32(r), eo: arr32(r), otx: counter(r, extreme),
        si: arr32(r), ei: arr32(r), itx: counter(r, extreme) }
}
/// zero the fields a version does not have (the model keeps them at their defaults)
fn norm(k: u8, mut g: G) -> G {
    if k < 2 { g.so = [0; 32]; g.eo = [0; 32]; g.otx = 0; }
    if k < 3 { g.si = [0; 32]; g.ei = [0; 32]; g.itx = 0; }
    g
}
fn any_data(r: &mut Rng, k: u8) -> G {
    let bid = r.u64() as u32;
    let mut g = leaf(r, bid, 0, true);
    g.sh = counter(r, true);
    g.eh = match r.below(4) { 0 => g.sh, 1 => g.sh.saturating_add(r.below(1000)), 2 => counter(r, true), _ => u64::MAX };
    norm(k, g)
}
fn start_height(r: &mut Rng, room: u64) -> u64 {
    match r.below(8) {
        0 => 0, 1 => u64::MAX - room - r.below(3), 2 => 0xFFFF_FFFF - r.below(room + 1), 3 => 252 - r.below(4), 4 => 0xFFFF - r.below(8),
        _ => r.below(3_000_000),
    }
}

// ---- codec cases ---------------------------------------------------------------------------
fn cs_read_case(o: &mut Out, b: &[u8]) {
    let res = catch(|| { let mut cur = corez::io::Cursor::new(b); let v = CompactSize::read_unbounded(&mut cur); (v, cur.position() as usize) });
    let s = match res {
        None => PANIC.into(),
        Some((Ok(v), pos)) => ok(pair(zu(v as u128), hz(&b[pos..]))),
        Some((Err(e), _)) => ioerr(&e),
    };
    o.c("cs_read", format!("CCsRead {} {}", hz(b), s));
}
fn cs_write_case(o: &mut Out, x: u64) {
    let mut w = vec![];
    CompactSize::write_unbounded(&mut w, x).unwrap();
    o.c("cs_write", format!("CCsWrite {} {}", x, hz(&w)));
    cs_read_case(o, &w);
}
fn node_write_case<V: VK>(o: &mut Out, g: &G) -> Vec<u8> {
    let d = V::mk(g);
    let w = V::to_bytes(&d);
    o.c("node_write", format!("CNodeWrite {} {} {}", V::NAME, pd(V::K, g), hz(&w)));
    w
}
fn node_read_case<V: VK>(o: &mut Out, bid: u32, b: &[u8]) {
    let s = match catch(|| V::from_bytes(bid, b)) {
        None => PANIC.into(),
        Some(Ok(d)) => ok(pd(V::K, &V::un(&d))),
        Some(Err(e)) => ioerr(&e),
    };
    o.c("node_read", format!("CNodeRead {} {} {} {}", V::NAME, bid, hz(b), s));
}
fn entry_write_case<V: VK>(o: &mut Out, k: &K, g: &G) -> Option<Vec<u8>> {
    let e: Entry<V> = mk_entry(k, g);
    let mut w = vec![];
    let r = e.write(&mut w);
    let s = match &r { Ok(()) => ok(hz(&w)), Err(e) => ioerr(e) };
    o.c("entry_write", format!("CEntryWrite {} {} {}", V::NAME, pentry(V::K, k, g), s));
    r.ok().map(|_| w)
}
fn entry_read_case<V: VK>(o: &mut Out, bid: u32, b: &[u8]) {
    let s = match catch(|| Entry::<V>::from_bytes(bid, b)) {
        None => PANIC.into(),
        Some(Ok(e)) => ok(pentry(V::K, &kind_of(&e), &V::un(e.data()))),
        Some(Err(e)) => ioerr(&e),
    };
    o.c("entry_read", format!("CEntryRead {} {} {} {}", V::NAME, bid, hz(b), s));
}
fn mutate(r: &mut Rng, b: &[u8]) -> Vec<u8> {
    let mut m = b.to_vec();
    match r.below(5) {
        0 => { let n = r.below(m.len() as u64 + 1) as usize; m.truncate(n); }
        1 => { if !m.is_empty() { let i = r.below(m.len() as u64) as usize; m[i] = *r.pick(&[0u8, 1, 2, 252, 253, 254, 255]); } }
        2 => { if !m.is_empty() { let i = (m.len() - 1).saturating_sub(r.below(40) as usize); m[i] = *r.pick(&[0u8, 252, 253, 254, 255]); } }
        3 => { let k = r.below(12) as usize; m.extend(r.bytes(k)); }
        _ => { if !m.is_empty() { let i = r.below(m.len() as u64) as usize; m[i] ^= 1 << r.below(8); } }
    }
    m
}
fn codec_cases<V: VK>(o: &mut Out, r: &mut Rng, n: usize) {
    // counters on the whole CompactSize lattice in every counter position
    for &x in U64_EDGES.iter() {
        let mut g = norm(V::K, leaf(r, 7, 5, false));
        g.stx = x; g.otx = if V::K >= 2 { x } else { 0 }; g.itx = if V::K >= 3 { x } else { 0 };
        g.sh = x / 2; g.eh = x;
        let w = node_write_case::<V>(o, &g);
        node_read_case::<V>(o, g.bid, &w);
    }
    for _ in 0..n {
        let g = any_data(r, V::K);
        let w = node_write_case::<V>(o, &g);
        node_read_case::<V>(o, g.bid, &w);
        for _ in 0..2 { let m = mutate(r, &w); node_read_case::<V>(o, g.bid, &m); }
        let k = match r.below(5) {
            0 => K::Leaf,
            1 => K::Node(EntryLink2::Gn(r.below(9) as u32), EntryLink2::S(r.u64() as u32)),
            2 => K::Node(EntryLink2::S(r.u64() as u32), EntryLink2::Gn(r.u64() as u32)),
            _ => K::Node(EntryLink2::S(r.u64() as u32), EntryLink2::S(*r.pick(&[0u32, 1, 255, 256, u32::MAX]))),
        };
        if let Some(w) = entry_write_case::<V>(o, &k, &g) {
            entry_read_case::<V>(o, g.bid, &w);
            let mut m = mutate(r, &w);
            if r.chance(1, 3) && !m.is_empty() { m[0] = *r.pick(&[0u8, 1, 2, 3, 255]); }
            entry_read_case::<V>(o, g.bid, &m);
        }
    }
}
fn leaf_count_case(o: &mut Out, g: &G) {
    let g = norm(1, g.clone());
    let e: Entry<V1> = Entry::new_leaf(mk1(&g));
    let s = match catch(|| (e.leaf_count(), e.complete())) { None => PANIC.into(), Some((n, c)) => ok(pair(zu(n as u128), boolc(c))) };
    o.c("leaf_count", format!("CLeafCount {} {}", pd(1, &g), s));
}

// ---- hash table ----------------------------------------------------------------------------
#[derive(Default)]
struct Tbl { seen: BTreeSet<Vec<u8>>, ents: Vec<(u32, Vec<u8>, [u8; 32])> }
impl Tbl {
    fn add(&mut self, bid: u32, pre: Vec<u8>, dg: [u8; 32]) {
        let mut key = pre.clone();
        key.extend_from_slice(&dg);
        if self.seen.insert(key) { self.ents.push((bid, pre, dg)); }
    }
    fn print(&self) -> String {
        list(self.ents.iter().map(|(b, p, d)| format!("({}, {}, {})", b, hz(p), hz(d))))
    }
}
fn combine_case<V: VK>(o: &mut Out, l: &G, r_: &G) {
    let (ld, rd) = (V::mk(l), V::mk(r_));
    let res = catch(|| V::combine(&ld, &rd));
    let mut t = Tbl::default();
    let s = match &res {
        None => PANIC.into(),
        Some(d) => {
            let g = V::un(d);
            let mut pre = V::to_bytes(&ld);
            pre.extend(V::to_bytes(&rd));
            t.add(l.bid, pre, g.c);
            ok(pd(V::K, &g))
        }
    };
    o.c("combine", format!("CCombine {} {} {} {} {} {}", V::NAME, boolc(oc()), t.print(), pd(V::K, l), pd(V::K, r_), s));
}

// ---- trees ---------------------------------------------------------------------------------
/// record the hash triple of node `link` (if it is an inner node whose children resolve)
fn note<V: VK>(tree: &Tree<V>, link: EntryLink, tbl: &mut Tbl, db: &[(K, G)]) -> bool {
    let n = match tree.resolve_link(link) { Ok(n) => n, Err(_) => return false };
    let e = n.node();
    if e.leaf() { return true; }
    // a child that is not loaded in the view is read from the database
    let get = |l: EntryLink| -> Option<Vec<u8>> {
        match (tree.resolve_link(l), l) {
            (Ok(c), _) => Some(V::to_bytes(c.data())),
            (Err(_), EntryLink::Stored(i)) if (i as usize) < db.len() => Some(V::to_bytes(&V::mk(&db[i as usize].1))),
            _ => None,
        }
    };
    let (l, r) = (e.left().unwrap(), e.right().unwrap());
    let (lb, rb) = match (get(l), get(r)) { (Some(a), Some(b)) => (a, b), _ => return false };
    let mut pre = lb;
    pre.extend(rb);
    let g = V::un(e.data());
    let ok_ = b2(g.bid, &pre) == g.c;
    tbl.add(g.bid, pre, g.c);
    ok_
}
fn note_generated<V: VK>(tree: &Tree<V>, gen_seen: &mut u32, tbl: &mut Tbl, db: &[(K, G)]) {
    while tree.resolve_link(EntryLink::Generated(*gen_seen)).is_ok() {
        note(tree, EntryLink::Generated(*gen_seen), tbl, db);
        *gen_seen += 1;
    }
}
/// positions of the peak roots for `n` leaves, and the heights
fn peak_pos(n: usize) -> Vec<(u32, u32)> {
    let mut out = vec![];
    let mut off = 0u64;
    for h in (0..32).rev() {
        if n & (1 << h) != 0 { let size = (1u64 << (h + 1)) - 1; out.push(((off + size - 1) as u32, h as u32)); off += size; }
    }
    out
}
fn spine_pos(p: u32, h: u32) -> Vec<u32> {
    let mut out = vec![p];
    let (mut p, mut h) = (p, h);
    while h > 0 {
        out.push(p - (1u32 << h));      // left child root: skip the right subtree (2^h - 1 nodes) and the node itself
        p -= 1; h -= 1;
        out.push(p);
    }
    out
}

struct Seq {
    hk: bool,
    /// how the view is provisioned: 0 = exactly what the first operation needs, 1 = plus random extra nodes,
    /// 2 = peaks only (a truncation may then fail with ExpectedInMemory)
    prov: u8,
}

/// Run `ops` on a view of the tree whose array representation is `db` (over `leaves`).
fn tree_case<V: VK>(o: &mut Out, r: &mut Rng, sq: &Seq, leaves: &[G], db: &mut Vec<(K, G)>, ops: &[Option<G>], commit: bool) -> usize {
    let n = leaves.len();
    let full = n == 1;
    let pk = peak_pos(n);
    let peaks_idx: Vec<u32> = pk.iter().map(|p| p.0).collect();
    let mut extra_idx: Vec<u32> = vec![];
    if !full {
        let first_trunc = matches!(ops.first(), Some(None));
        if first_trunc && sq.prov != 2 { let (p, h) = *pk.last().unwrap(); extra_idx.extend(spine_pos(p, h).into_iter().filter(|i| !peaks_idx.contains(i))); }
        if sq.prov == 1 { for _ in 0..r.below(6) { extra_idx.push(r.below(db.len() as u64) as u32); } }
    }
    // the database no longer matches the leaves (an earlier case has recorded the discrepancy): stop here
    if peaks_idx.iter().chain(extra_idx.iter()).any(|&i| i as usize >= db.len()) { return 0; }
    let peaks: Vec<(u32, Entry<V>)> = peaks_idx.iter().map(|&i| (i, mk_entry::<V>(&db[i as usize].0, &db[i as usize].1))).collect();
    let extra: Vec<(u32, Entry<V>)> = extra_idx.iter().map(|&i| (i, mk_entry::<V>(&db[i as usize].0, &db[i as usize].1))).collect();
    let p_s = list(peaks_idx.iter().map(|&i| pair(format!("{}", i), pentry(V::K, &db[i as usize].0, &db[i as usize].1))));
    let e_s = list(extra_idx.iter().map(|&i| pair(format!("{}", i), pentry(V::K, &db[i as usize].0, &db[i as usize].1))));
    let length = db.len() as u32;
    let mut tbl = Tbl::default();
    let mut gen_seen = 0u32;
    let mut obs: Vec<String> = vec![];
    let mut local_db = db.clone();
    let new = catch(move || Tree::<V>::new(length, peaks, extra));
    let nobs;
    let mut ran = 0usize;
    let mut done = 0usize;
    match new {
        None => { nobs = "NPanic".to_string(); o.panics += 1; }
        Some(mut tree) => {
            note_generated(&tree, &mut gen_seen, &mut tbl, &local_db);
            let hok = note(&tree, tree.root(), &mut tbl, &local_db);
            nobs = match tree.root_node() {
                Ok(rt) => format!("(NOk {} {} {} {})", tree.len(), plink(tree.root()), pd(V::K, &V::un(rt.data())), boolc(hok)),
                Err(_) => "NPanic".to_string(),
            };
            for op in ops {
                if nobs == "NPanic" { break; }
                ran += 1;
                o.ops += 1;
                let res = match op {
                    Some(g) => { let d = V::mk(g); catch(|| tree.append_leaf(d).map(|l| (l, 0u32))) }
                    None => catch(|| tree.truncate_leaf().map(|c| (vec![], c))),
                };
                match res {
                    None => { obs.push("SPanic".into()); o.panics += 1; break; }
                    Some(Err(e)) => { obs.push(format!("(SErr {})", perr(&e))); o.errs += 1; break; }
                    Some(Ok((links, cnt))) => {
                        let snap = local_db.clone();
                        let mut lost = false;
                        for l in &links {
                            note(&tree, *l, &mut tbl, &local_db);
                            match tree.resolve_link(*l) {
                                Ok(nd) => local_db.push((kind_of(nd.node()), V::un(nd.data()))),
                                Err(_) => lost = true,
                            }
                        }
                        if op.is_none() { let nl = local_db.len().saturating_sub(cnt as usize); local_db.truncate(nl); }
                        note_generated(&tree, &mut gen_seen, &mut tbl, &local_db);
                        let hok = note(&tree, tree.root(), &mut tbl, &local_db);
                        let rt = match (tree.root_node(), lost) {
                            (Ok(rt), false) => rt,
                            // the operation succeeded but the view does not hold the new root (its record cannot be
                            // observed): the history ends before this operation
                            (Err(_), false) => { local_db = snap; ran -= 1; break; }
                            (Err(_), true) => { obs.push("SPanic".into()); break; }
                            (_, true) => { obs.push("SPanic".into()); break; }
                        };
                        let tail = format!("{} {} {} {}", tree.len(), plink(tree.root()), pd(V::K, &V::un(rt.data())), boolc(hok));
                        done += 1;
                        obs.push(match op {
                            Some(_) => format!("(SAppend {} {})", list(links.iter().map(|l| plink(*l))), tail),
                            None => format!("(STrunc {} {})", cnt, tail),
                        });
                    }
                }
            }
        }
    }
    let ops_s = list(ops[..ran].iter().map(|op| match op { Some(g) => format!("(OpAppend {})", pd(V::K, g)), None => "OpTruncate".into() }));
    let t_s = if sq.hk { tbl.print() } else { "[]".into() };
    if sq.hk { o.tbl_entries += tbl.ents.len(); }
    if !full { o.views += 1; }
    o.max_leaves = o.max_leaves.max(n + ops.iter().filter(|x| x.is_some()).count());
    o.c(if full { "tree_full" } else { "tree_view" }, format!("CTree {} {} {} {} {} {} {} {} {} {} {}", V::NAME, boolc(oc()), boolc(sq.hk), t_s,
        list(leaves.iter().map(|g| pd(V::K, g))), length, p_s, e_s, nobs, ops_s, list(obs)));
    if commit { *db = local_db; }
    done
}

/// A history: one leaf, then a random walk of appends/truncations; the full tree is exercised in one case, and along
/// the way partial views are loaded from the array representation for single operations.
fn history<V: VK>(o: &mut Out, r: &mut Rng, hk: bool, max_ops: usize, extreme: bool, views: bool) {
    let bid = r.u64() as u32;
    let h0 = start_height(r, max_ops as u64 + 2);
    let l0 = norm(V::K, leaf(r, bid, h0, extreme));
    let mut leaves = vec![l0.clone()];
    let mut ops: Vec<Option<G>> = vec![];
    let up = 50 + r.below(45);
    let burst = r.chance(1, 3);
    for i in 0..max_ops {
        let trunc = if burst && i > max_ops / 2 { r.chance(70, 100) } else { r.below(100) >= up };
        if trunc && leaves.len() > 1 { leaves.pop(); ops.push(None); }
        else if trunc && r.chance(1, 10) { ops.push(None); break; }      // removing the only leaf: refused
        else { let g = norm(V::K, leaf(r, bid, h0 + leaves.len() as u64, extreme)); leaves.push(g.clone()); ops.push(Some(g)); }
    }
    // full tree: Tree::new(1, [(0, leaf)], []) then all operations
    let mut db = vec![(K::Leaf, l0.clone())];
    tree_case::<V>(o, r, &Seq { hk, prov: 0 }, &[l0.clone()], &mut db, &ops, false);
    if !views { return; }
    // replay step by step through minimal views loaded from the database
    let mut cur = vec![l0];
    let mut i = 0;
    while i < ops.len() {
        let k = if r.chance(1, 4) { 1 + r.below(3) as usize } else { 1 }.min(ops.len() - i);
        let prov = match r.below(10) { 0 => 2, 1 | 2 => 1, _ => 0 };
        let done = tree_case::<V>(o, r, &Seq { hk, prov }, &cur.clone(), &mut db, &ops[i..i + k], true);
        for op in &ops[i..i + done] { match op { Some(g) => cur.push(g.clone()), None => { cur.pop(); } } }
        i += done;
        if done < k {
            // the operation at `i` failed on that view: once more on a sufficient view
            let d2 = tree_case::<V>(o, r, &Seq { hk, prov: 0 }, &cur.clone(), &mut db, &ops[i..i + 1], true);
            if d2 == 0 { break; }
            match &ops[i] { Some(g) => cur.push(g.clone()), None => { cur.pop(); } }
            i += 1;
        }
    }
}

/// Exhaustive: for every n in 1..=max, a view of the n-leaf tree and each single operation.
fn exhaustive_views<V: VK>(o: &mut Out, r: &mut Rng, max: usize, hk: bool) {
    let bid = r.u64() as u32;
    let h0 = start_height(r, max as u64 + 2);
    let l0 = norm(V::K, leaf(r, bid, h0, false));
    let mut db = vec![(K::Leaf, l0.clone())];
    let mut cur = vec![l0];
    for n in 1..=max {
        assert_eq!(cur.len(), n);
        // truncation on a view (not committed), then the append that advances the database
        let mut scratch = db.clone();
        tree_case::<V>(o, r, &Seq { hk, prov: 0 }, &cur.clone(), &mut scratch, &[None], false);
        let g = norm(V::K, leaf(r, bid, h0 + n as u64, false));
        if tree_case::<V>(o, r, &Seq { hk, prov: 0 }, &cur.clone(), &mut db, &[Some(g.clone())], true) == 0 { return; }
        cur.push(g);
    }
}

fn known_finding_witnesses(o: &mut Out, r: &mut Rng) {
    // plain `+` on the per-pool counters and on the total work
    let mut a = norm(1, leaf(r, 1, 10, false));
    let mut b = norm(1, leaf(r, 1, 11, false));
    a.stx = u64::MAX; b.stx = 1;
    combine_case::<V1>(o, &a, &b);
    a.stx = 5; a.w = U256::MAX; b.w = U256::one();
    combine_case::<V1>(o, &a, &b);
    let mut a3 = norm(3, leaf(r, 1, 10, false));
    let mut b3 = norm(3, leaf(r, 1, 11, false));
    a3.itx = u64::MAX - 1; b3.itx = 2;
    combine_case::<V3>(o, &a3, &b3);
    let mut a2 = norm(2, leaf(r, 1, 10, false));
    let mut b2_ = norm(2, leaf(r, 1, 11, false));
    a2.otx = 1 << 63; b2_.otx = 1 << 63;
    combine_case::<V2>(o, &a2, &b2_);
    // the same through the tree
    let mut l0 = norm(1, leaf(r, 9, 100, false));
    let mut l1_ = norm(1, leaf(r, 9, 101, false));
    l0.stx = u64::MAX; l1_.stx = 1;
    let mut db = vec![(K::Leaf, l0.clone())];
    tree_case::<V1>(o, r, &Seq { hk: true, prov: 0 }, &[l0], &mut db, &[Some(l1_)], false);
}

fn main() {
    let a = args();
    quiet_panics();
    let mut r = Rng::new(a.seed, 20);
    let mut o = Out { lines: vec![], n: 0, kinds: Default::default(), max_leaves: 0, ops: 0, panics: 0, errs: 0, views: 0, tbl_entries: 0 };
    // --search (after something broke): a bounded, larger-than-quick budget with another seed
    let big = a.thorough() && !a.search;
    let bud = |q: usize, t: usize| if a.search { 2 * q } else if a.thorough() { t } else { q };

    known_finding_witnesses(&mut o, &mut r);

    // CompactSize lattice: every boundary value +-2, every flag byte with every short/long tail
    for &x in U64_EDGES.iter() { for d in [-2i128, -1, 0, 1, 2] { let y = x as i128 + d; if y >= 0 && y <= u64::MAX as i128 { cs_write_case(&mut o, y as u64); } } }
    for flag in [0u8, 1, 252, 253, 254, 255] {
        for tail_len in 0..=9usize {
            for fill in [0u8, 1, 252, 253, 255] {
                let mut b = vec![flag];
                b.extend(std::iter::repeat(fill).take(tail_len));
                cs_read_case(&mut o, &b);
                if tail_len > 0 { let mut c = b.clone(); let l = c.len(); c[l - 1] = 1; c[1] = 0; cs_read_case(&mut o, &c); }
            }
        }
    }
    cs_read_case(&mut o, &[]);
    for _ in 0..bud(150, 2000) { cs_write_case(&mut o, counter(&mut r, true)); let n = r.below(11) as usize; let b = r.bytes(n); cs_read_case(&mut o, &b); }

    // node / entry codecs
    let nc = bud(40, 300);
    codec_cases::<V1>(&mut o, &mut r, nc);
    codec_cases::<V2>(&mut o, &mut r, nc);
    codec_cases::<V3>(&mut o, &mut r, nc);
    for _ in 0..bud(80, 500) { let g = any_data(&mut r, 1); leaf_count_case(&mut o, &g); }
    for (s, e) in [(0u64, u64::MAX), (1, u64::MAX), (0, u64::MAX - 1), (5, 4), (u64::MAX, u64::MAX), (u64::MAX, 0), (0, 0), (7, 8), (4, 7), (0, 1 << 63)] {
        let mut g = any_data(&mut r, 1); g.sh = s; g.eh = e; leaf_count_case(&mut o, &g);
        let w = node_write_case::<V1>(&mut o, &g); node_read_case::<V1>(&mut o, g.bid, &w);
        let g3 = { let mut x = any_data(&mut r, 3); x.sh = s; x.eh = e; x };
        let w = node_write_case::<V3>(&mut o, &g3); node_read_case::<V3>(&mut o, g3.bid, &w);
    }

    // combine: mostly fitting, some on the overflow boundary, some with different branch ids
    for i in 0..bud(90, 800) {
        let ext = i % 3 == 0;
        macro_rules! go { ($v:ty, $k:expr) => {{
            let l = norm($k, leaf(&mut r, 3, 10, ext));
            let mut rr = norm($k, leaf(&mut r, 3, 11, ext));
            if i % 17 == 0 { rr.bid = 4; }
            if i % 5 == 0 { rr.stx = (u64::MAX - l.stx).wrapping_add(r.below(3)).wrapping_sub(1); }
            if i % 7 == 0 { rr.w = (U256::MAX - l.w).overflowing_add(U256::from(r.below(3))).0.overflowing_sub(U256::one()).0; }
            combine_case::<$v>(&mut o, &l, &rr);
        }}; }
        match i % 3 { 0 => go!(V1, 1), 1 => go!(V2, 2), _ => go!(V3, 3) }
    }

    // trees: exhaustive single operations on views for every size, short histories with hash tables,
    // long histories (several hundred leaves) with structure and non-hash fields
    let ex = if big { 100 } else { 33 };
    catch(|| exhaustive_views::<V1>(&mut o, &mut r, ex, true));
    catch(|| exhaustive_views::<V2>(&mut o, &mut r, if big { ex } else { 17 }, ex <= 40));
    catch(|| exhaustive_views::<V3>(&mut o, &mut r, ex, big));
    for i in 0..bud(24, 200) {
        let ext = i % 4 == 0;
        let m = 2 + r.below(22) as usize;
        match i % 3 { 0 => { catch(|| history::<V1>(&mut o, &mut r, true, m, ext, i % 2 == 0)); }, 1 => { catch(|| history::<V2>(&mut o, &mut r, true, m, ext, i % 2 == 0)); }, _ => { catch(|| history::<V3>(&mut o, &mut r, true, m, ext, i % 2 == 0)); } }
    }
    for i in 0..bud(3, 12) {
        let m = if big { *r.pick(&[70usize, 130, 260, 300, 520]) } else { [300usize, 130, 70][i % 3] };
        match i % 3 { 0 => { catch(|| history::<V1>(&mut o, &mut r, false, m, false, false)); }, 1 => { catch(|| history::<V2>(&mut o, &mut r, false, m, false, false)); }, _ => { catch(|| history::<V3>(&mut o, &mut r, false, m, i % 2 == 0, false)); } }
    }

    // The driver evaluates the cases in shards of SHARD consecutive lines, in parallel: spread the heavy cases evenly
    // (longest first, each to the currently lightest shard that still has room).
    const SHARD: usize = 230;
    let nsh = (o.lines.len() + SHARD - 1) / SHARD;
    let mut order: Vec<usize> = (0..o.lines.len()).collect();
    order.sort_by_key(|&i| std::cmp::Reverse(o.lines[i].len()));
    let mut buckets: Vec<(usize, Vec<usize>)> = vec![(0, vec![]); nsh];
    for i in order {
        let cap = |b: usize| if b + 1 == nsh { o.lines.len() - SHARD * (nsh - 1) } else { SHARD };
        let b = (0..nsh).filter(|&b| buckets[b].1.len() < cap(b)).min_by_key(|&b| buckets[b].0).unwrap();
        buckets[b].0 += o.lines[i].len();
        buckets[b].1.push(i);
    }
    for (_, b) in &buckets { for &i in b { case(o.lines[i].clone()); } }
    let kinds: Vec<String> = o.kinds.iter().map(|(k, v)| format!("\"{}\": {}", k, v)).collect();
    stat(format!("{{\"cases\": {}, \"kinds\": {{{}}}, \"tree_ops\": {}, \"max_leaves\": {}, \"partial_views\": {}, \"panics\": {}, \"errors\": {}, \"hash_triples\": {}, \"overflow_checks\": {}}}",
        o.n, kinds.join(", "), o.ops, o.max_leaves, o.views, o.panics, o.errs, o.tbl_entries, oc()));
}
