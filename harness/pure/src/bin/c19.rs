//! C19 harness: `equihash::is_valid_solution` on (a) solutions found by an independent Wagner
//! solver written here, (b) every single-bit mutation of solution / input / nonce, (c) index-list
//! mutations (swapped siblings, swapped subtrees, duplicated indices, copied subtrees, near
//! solutions), (d) random byte strings of every length 0..2*len, (e) the (n,k) parameter grid.
//! Each case carries the table of BLAKE2b digests the verifier needs, computed here directly with
//! `blake2b_simd` (not through the equihash crate), so the Coq model can run with `H := table`.
use blake2b_simd::Params as B2Params;
use std::collections::BTreeMap;
use vcommon::*;

#[derive(Clone)]
struct Inst {
    n: u32,
    k: u32,
    input: Vec<u8>,
    nonce: Vec<u8>,
}

/// Parameter pairs for which the harness can compute digests and decode indices
/// (deliberately wider than what the crate accepts).
fn plausible(n: u32, k: u32) -> bool {
    n % 8 == 0 && n >= 8 && n <= 512 && k >= 1 && k < 64 && (k + 1) <= n && n / (k + 1) + 1 <= 32
}

impl Inst {
    fn c(&self) -> u32 {
        self.n / (self.k + 1)
    }
    fn iph(&self) -> u32 {
        512 / self.n
    }
    fn dlen(&self) -> usize {
        (self.iph() * self.n / 8) as usize
    }
    fn digest(&self, g: u32) -> Vec<u8> {
        let mut p = Vec::from(&b"ZcashPoW"[..]);
        p.extend_from_slice(&self.n.to_le_bytes());
        p.extend_from_slice(&self.k.to_le_bytes());
        let mut st = B2Params::new().hash_length(self.dlen()).personal(&p).to_state();
        st.update(&self.input);
        st.update(&self.nonce);
        st.update(&g.to_le_bytes());
        st.finalize().as_bytes().to_vec()
    }
    fn x(&self, i: u32) -> Vec<u8> {
        let d = self.digest(i / self.iph());
        let w = (self.n / 8) as usize;
        let s = (i % self.iph()) as usize * w;
        d[s..s + w].to_vec()
    }
    fn soln_len(&self) -> usize {
        ((1usize << self.k) * (self.c() as usize + 1)) / 8
    }
}

/// Independent bit unpacking: floor(8*len / w) big-endian w-bit numbers.
fn decode(w: u32, s: &[u8]) -> Vec<u32> {
    let mut out = vec![];
    let total = s.len() * 8;
    let mut pos = 0usize;
    while pos + w as usize <= total {
        let mut v: u64 = 0;
        for b in pos..pos + w as usize {
            v = (v << 1) | ((s[b / 8] >> (7 - b % 8)) & 1) as u64;
        }
        out.push(v as u32);
        pos += w as usize;
    }
    out
}
fn encode(w: u32, idx: &[u32]) -> Vec<u8> {
    let total = idx.len() * w as usize;
    let mut out = vec![0u8; (total + 7) / 8];
    let mut pos = 0usize;
    for i in idx {
        for b in (0..w).rev() {
            if (i >> b) & 1 == 1 {
                out[pos / 8] |= 1 << (7 - pos % 8);
            }
            pos += 1;
        }
    }
    out
}

// ---- printers ----------------------------------------------------------------------------
fn bw(b: &[u8]) -> String {
    let mut ws = vec![];
    for ch in b.chunks(7) {
        let mut v: u64 = 0;
        for j in 0..7 {
            v = (v << 8) | (*ch.get(j).unwrap_or(&0) as u64);
        }
        ws.push(format!("0x{:x}", v));
    }
    format!("(bw {} [{}])", b.len(), ws.join(";"))
}

#[derive(Default)]
struct Stats {
    by_stream: BTreeMap<String, BTreeMap<String, u64>>,
    params: BTreeMap<String, u64>,
    solutions: BTreeMap<String, u64>,
    soln_len: BTreeMap<usize, u64>,
    cases: u64,
}

struct Ctx {
    st: Stats,
}

impl Ctx {
    /// Run the implementation on one input and print the case.
    fn run(&mut self, stream: &str, inst: &Inst, soln: &[u8]) -> String {
        let (n, k) = (inst.n, inst.k);
        let r = catch(|| equihash::is_valid_solution(n, k, &inst.input, &inst.nonce, soln));
        let (o, cls) = match r {
            None => (PANIC.to_string(), "panic"),
            Some(Ok(())) => ("(Ok tt)".to_string(), "ok"),
            Some(Err(e)) => {
                let s = format!("{}", e);
                let kind = if s.ends_with("invalid parameters") {
                    ("EInvalidParams", "invalid_params")
                } else if s.ends_with("invalid collision length between StepRows") {
                    ("ECollision", "collision")
                } else if s.ends_with("Index tree incorrectly ordered") {
                    ("EOutOfOrder", "out_of_order")
                } else if s.ends_with("duplicate indices") {
                    ("EDuplicateIdxs", "duplicate")
                } else if s.ends_with("root hash of tree is non-zero") {
                    ("ENonZeroRootHash", "nonzero_root")
                } else {
                    ("EOther", "other")
                };
                (err(kind.0), kind.1)
            }
        };
        // digest table for the indices the solution decodes to
        let mut tab: BTreeMap<u32, Vec<u8>> = BTreeMap::new();
        if plausible(n, k) && inst.k <= 12 && soln.len() == inst.soln_len() {
            for i in decode(inst.c() + 1, soln) {
                let g = i / inst.iph();
                tab.entry(g).or_insert_with(|| inst.digest(g));
            }
        }
        let t = list(tab.iter().map(|(g, d)| format!("({}, {})", n_(*g as u128), bw(d))));
        case(format!(
            "Eh {} {} {} {} {} {} {}",
            n_(n as u128),
            n_(k as u128),
            bw(&inst.input),
            bw(&inst.nonce),
            bw(soln),
            t,
            o
        ));
        *self.st.by_stream.entry(stream.into()).or_default().entry(cls.into()).or_default() += 1;
        *self.st.soln_len.entry(soln.len()).or_default() += 1;
        self.st.cases += 1;
        cls.to_string()
    }
}
fn n_(x: u128) -> String {
    n(x)
}

// ---- independent Wagner solver (n <= 128) -------------------------------------------------
#[derive(Clone)]
struct Row {
    v: u128,
    idx: Vec<u32>,
}
fn disjoint(a: &[u32], b: &[u32]) -> bool {
    a.iter().all(|x| !b.contains(x))
}
fn join(a: &Row, b: &Row, v: u128) -> Row {
    let mut idx = Vec::with_capacity(a.idx.len() * 2);
    if a.idx[0] < b.idx[0] {
        idx.extend_from_slice(&a.idx);
        idx.extend_from_slice(&b.idx);
    } else {
        idx.extend_from_slice(&b.idx);
        idx.extend_from_slice(&a.idx);
    }
    Row { v, idx }
}
struct Solved {
    solutions: Vec<Vec<u32>>,
    near: Vec<Vec<u32>>,  // every level collides, final segment does not
    halves: Vec<Vec<u32>>, // valid level k-1 subtrees
}
fn solve(inst: &Inst) -> Solved {
    solve_with(inst, true)
}
/// May two rows be joined?  With `filter` (the real solver): only when they share no index.
/// Without: whenever their first indices differ, so that ordering and collision conditions hold
/// at every level but an index may occur in both subtrees (pseudo-solutions).
fn joinable(a: &Row, b: &Row, filter: bool) -> bool {
    if filter { disjoint(&a.idx, &b.idx) } else { a.idx[0] != b.idx[0] }
}
fn has_repeat(idx: &[u32]) -> bool {
    let mut s = idx.to_vec();
    s.sort();
    s.windows(2).any(|w| w[0] == w[1])
}
/// For every level and aligned block whose halves share an index: is `left.last < right.first`?
/// Returns (number of sharing blocks, number of those with left.last < right.first).
fn sharing_blocks(idx: &[u32]) -> (usize, usize) {
    let (mut sh, mut lt) = (0, 0);
    let mut sz = 2;
    while sz <= idx.len() {
        for blk in idx.chunks(sz) {
            let (l, r) = blk.split_at(sz / 2);
            if !disjoint(l, r) {
                sh += 1;
                if l[l.len() - 1] < r[0] {
                    lt += 1;
                }
            }
        }
        sz *= 2;
    }
    (sh, lt)
}
fn solve_with(inst: &Inst, filter: bool) -> Solved {
    let (n, k, c) = (inst.n, inst.k, inst.c());
    assert!(n <= 128);
    let mut rows: Vec<Row> = (0..(1u32 << (c + 1)))
        .map(|i| {
            let mut v: u128 = 0;
            for b in inst.x(i) {
                v = (v << 8) | b as u128;
            }
            Row { v, idx: vec![i] }
        })
        .collect();
    let mut bits = n;
    for _r in 1..k {
        rows.sort_by(|a, b| (a.v >> (bits - c)).cmp(&(b.v >> (bits - c))).then(a.idx.cmp(&b.idx)));
        let mask: u128 = (1u128 << (bits - c)) - 1;
        let mut next = vec![];
        let mut i = 0;
        while i < rows.len() {
            let mut j = i;
            while j < rows.len() && (rows[j].v >> (bits - c)) == (rows[i].v >> (bits - c)) {
                j += 1;
            }
            let hi = j.min(i + 8);
            for a in i..hi {
                for b in a + 1..hi {
                    if joinable(&rows[a], &rows[b], filter) {
                        next.push(join(&rows[a], &rows[b], (rows[a].v ^ rows[b].v) & mask));
                    }
                }
            }
            i = j;
        }
        rows = next;
        bits -= c;
    }
    // bits == 2c: collide on everything
    let mut out = Solved { solutions: vec![], near: vec![], halves: vec![] };
    rows.sort_by(|a, b| a.v.cmp(&b.v).then(a.idx.cmp(&b.idx)));
    for r in rows.iter().take(8) {
        out.halves.push(r.idx.clone());
    }
    let mut i = 0;
    while i < rows.len() {
        let mut j = i;
        while j < rows.len() && (rows[j].v >> c) == (rows[i].v >> c) {
            j += 1;
        }
        let hi = j.min(i + 8);
        for a in i..hi {
            for b in a + 1..hi {
                if joinable(&rows[a], &rows[b], filter) {
                    let r = join(&rows[a], &rows[b], rows[a].v ^ rows[b].v);
                    if !filter {
                        // pseudo-solutions: total XOR zero and some index used more than once
                        if r.v == 0 && has_repeat(&r.idx) {
                            out.solutions.push(r.idx);
                        }
                    } else if r.v == 0 {
                        out.solutions.push(r.idx);
                    } else if out.near.len() < 4 {
                        out.near.push(r.idx);
                    }
                }
            }
        }
        i = j;
    }
    out
}

fn flip(b: &[u8], bit: usize) -> Vec<u8> {
    let mut v = b.to_vec();
    v[bit / 8] ^= 1 << (bit % 8);
    v
}

const V200: &[u32] = &[4313, 223176, 448870, 1692641, 214911, 551567, 1696002, 1768726, 500589, 938660, 724628, 1319625, 632093, 1474613, 665376, 1222606, 244013, 528281, 1741992, 1779660, 313314, 996273, 435612, 1270863, 337273, 1385279, 1031587, 1147423, 349396, 734528, 902268, 1678799, 10902, 1231236, 1454381, 1873452, 120530, 2034017, 948243, 1160178, 198008, 1704079, 1087419, 1734550, 457535, 698704, 649903, 1029510, 75564, 1860165, 1057819, 1609847, 449808, 527480, 1106201, 1252890, 207200, 390061, 1557573, 1711408, 396772, 1026145, 652307, 1712346, 10680, 1027631, 232412, 974380, 457702, 1827006, 1316524, 1400456, 91745, 2032682, 192412, 710106, 556298, 1963798, 1329079, 1504143, 102455, 974420, 639216, 1647860, 223846, 529637, 425255, 680712, 154734, 541808, 443572, 798134, 322981, 1728849, 1306504, 1696726, 57884, 913814, 607595, 1882692, 236616, 1439683, 420968, 943170, 1014827, 1446980, 1468636, 1559477, 1203395, 1760681, 1439278, 1628494, 195166, 198686, 349906, 1208465, 917335, 1361918, 937682, 1885495, 494922, 1745948, 1320024, 1826734, 847745, 894084, 1484918, 1523367, 7981, 1450024, 861459, 1250305, 226676, 329669, 339783, 1935047, 369590, 1564617, 939034, 1908111, 1147449, 1315880, 1276715, 1428599, 168956, 1442649, 766023, 1171907, 273361, 1902110, 1169410, 1786006, 413021, 1465354, 707998, 1134076, 977854, 1604295, 1369720, 1486036, 330340, 1587177, 502224, 1313997, 400402, 1667228, 889478, 946451, 470672, 2019542, 1023489, 2067426, 658974, 876859, 794443, 1667524, 440815, 1099076, 897391, 1214133, 953386, 1932936, 1100512, 1362504, 874364, 975669, 1277680, 1412800, 1227580, 1857265, 1312477, 1514298, 12478, 219890, 534265, 1351062, 65060, 651682, 627900, 1331192, 123915, 865936, 1218072, 1732445, 429968, 1097946, 947293, 1323447, 157573, 1212459, 923792, 1943189, 488881, 1697044, 915443, 2095861, 333566, 732311, 336101, 1600549, 575434, 1978648, 1071114, 1473446, 50017, 54713, 367891, 2055483, 561571, 1714951, 715652, 1347279, 584549, 1642138, 1002587, 1125289, 1364767, 1382627, 1387373, 2054399, 97237, 1677265, 707752, 1265819, 121088, 1810711, 1755448, 1858538, 444653, 1130822, 514258, 1669752, 578843, 729315, 1164894, 1691366, 15609, 1917824, 173620, 587765, 122779, 2024998, 804857, 1619761, 110829, 1514369, 410197, 493788, 637666, 1765683, 782619, 1186388, 494761, 1536166, 1582152, 1868968, 825150, 1709404, 1273757, 1657222, 817285, 1955796, 1014018, 1961262, 873632, 1689675, 985486, 1008905, 130394, 897076, 419669, 535509, 980696, 1557389, 1244581, 1738170, 197814, 1879515, 297204, 1165124, 883018, 1677146, 1545438, 2017790, 345577, 1821269, 761785, 1014134, 746829, 751041, 930466, 1627114, 507500, 588000, 1216514, 1501422, 991142, 1378804, 1797181, 1976685, 60742, 780804, 383613, 645316, 770302, 952908, 1105447, 1878268, 504292, 1961414, 693833, 1198221, 906863, 1733938, 1315563, 2049718, 230826, 2064804, 1224594, 1434135, 897097, 1961763, 993758, 1733428, 306643, 1402222, 532661, 627295, 453009, 973231, 1746809, 1857154, 263652, 1683026, 1082106, 1840879, 768542, 1056514, 888164, 1529401, 327387, 1708909, 961310, 1453127, 375204, 878797, 1311831, 1969930, 451358, 1229838, 583937, 1537472, 467427, 1305086, 812115, 1065593, 532687, 1656280, 954202, 1318066, 1164182, 1963300, 1232462, 1722064, 17572, 923473, 1715089, 2079204, 761569, 1557392, 1133336, 1183431, 175157, 1560762, 418801, 927810, 734183, 825783, 1844176, 1951050, 317246, 336419, 711727, 1630506, 634967, 1595955, 683333, 1461390, 458765, 1834140, 1114189, 1761250, 459168, 1897513, 1403594, 1478683, 29456, 1420249, 877950, 1371156, 767300, 1848863, 1607180, 1819984, 96859, 1601334, 171532, 2068307, 980009, 2083421, 1329455, 2030243, 69434, 1965626, 804515, 1339113, 396271, 1252075, 619032, 2080090, 84140, 658024, 507836, 772757, 154310, 1580686, 706815, 1024831, 66704, 614858, 256342, 957013, 1488503, 1615769, 1515550, 1888497, 245610, 1333432, 302279, 776959, 263110, 1523487, 623933, 2013452, 68977, 122033, 680726, 1849411, 426308, 1292824, 460128, 1613657, 234271, 971899, 1320730, 1559313, 1312540, 1837403, 1690310, 2040071, 149918, 380012, 785058, 1675320, 267071, 1095925, 1149690, 1318422, 361557, 1376579, 1587551, 1715060, 1224593, 1581980, 1354420, 1850496, 151947, 748306, 1987121, 2070676, 273794, 981619, 683206, 1485056, 766481, 2047708, 930443, 2040726, 1136227, 1945705, 1722044, 1971986];
const V144: &[u32] = &[592534, 16727887, 7453057, 25925862, 3112444, 22940957, 11281555, 31775301, 1334223, 20443726, 11070438, 27290152, 4163350, 8213747, 9315696, 19739115, 1204738, 23545872, 1776094, 13506389, 6697536, 27749507, 11388567, 14622750, 4026870, 14622947, 8538779, 27133048, 11652285, 21221152, 22429643, 26529065];

fn main() {
    let a = args();
    quiet_panics();
    let mut rng = Rng::new(a.seed, 19);
    let mut cx = Ctx { st: Stats::default() };
    let big = a.thorough() || a.search;

    // ---- (a)-(c): solver-derived streams -------------------------------------------------
    let mut sets: Vec<(u32, u32, usize)> = vec![(48, 5, 2), (72, 5, 1), (96, 5, 1), (64, 3, 2), (40, 4, 2), (32, 3, 3), (80, 4, 1), (120, 7, 1)];
    if big {
        sets = vec![(48, 5, 6), (72, 5, 4), (96, 5, 3), (64, 3, 4), (40, 4, 5), (32, 3, 5), (56, 6, 4), (96, 7, 1), (80, 4, 2), (88, 7, 1), (72, 3, 1), (104, 7, 1), (72, 8, 1), (120, 7, 2)];
    }
    for (n, k, reps) in sets {
        let mut full_mut_done = false;
        let mut with_solutions = 0;
        for attempt in 0..reps + 6 {
            if attempt >= reps && with_solutions > 0 {
                break;
            }
            let ilen = rng.below(if big { 141 } else { 33 }) as usize;
            let nlen = if rng.chance(3, 4) { 32 } else { rng.below(40) as usize };
            let inst = Inst { n, k, input: rng.bytes(ilen), nonce: rng.bytes(nlen) };
            let w = inst.c() + 1;
            let s = solve(&inst);
            if !s.solutions.is_empty() {
                with_solutions += 1;
            }
            *cx.st.params.entry(format!("{},{}", n, k)).or_default() += 1;
            *cx.st.solutions.entry(format!("{},{}", n, k)).or_default() += s.solutions.len() as u64;
            for (si, idx) in s.solutions.iter().enumerate() {
                let soln = encode(w, idx);
                assert_eq!(soln.len(), inst.soln_len());
                let cls = cx.run("valid", &inst, &soln);
                let _ = cls;
                // single-bit mutations: all of them for the first solution of a parameter set (and for every
                // solution in thorough), a sample otherwise
                // single-bit mutations: every bit for the first solution of a small parameter set (small digest
                // tables), a sample otherwise
                let first = !full_mut_done || (big && si == 0);
                if si == 0 {
                    full_mut_done = true;
                }
                let small = k <= 4;
                let all = first && k <= 3;
                let all_soln = first && (small || (n, k) == (48, 5) || (big && k <= 5));
                let den = if k >= 7 && !big { 100 } else if k >= 6 { 40 } else if first { if k >= 5 { 16 } else { 8 } } else { 32 };
                let nbits = soln.len() * 8;
                for bit in 0..nbits {
                    if all_soln || rng.chance(1, den) {
                        cx.run("soln_bit", &inst, &flip(&soln, bit));
                    }
                }
                for bit in 0..inst.input.len() * 8 {
                    if all || rng.chance(1, 2 * den) {
                        let mut i2 = inst.clone();
                        i2.input = flip(&inst.input, bit);
                        cx.run("input_bit", &i2, &soln);
                    }
                }
                for bit in 0..inst.nonce.len() * 8 {
                    if all || rng.chance(1, 2 * den) {
                        let mut i2 = inst.clone();
                        i2.nonce = flip(&inst.nonce, bit);
                        cx.run("nonce_bit", &i2, &soln);
                    }
                }
                // input/nonce length changes
                {
                    let mut i2 = inst.clone();
                    i2.input.push(0);
                    cx.run("input_len", &i2, &soln);
                    let mut i3 = inst.clone();
                    i3.nonce.push(0);
                    cx.run("input_len", &i3, &soln);
                    if !inst.input.is_empty() {
                        // moving a byte from the input to the nonce keeps the hashed string: still valid
                        let mut i4 = inst.clone();
                        let b = i4.input.pop().unwrap();
                        i4.nonce.insert(0, b);
                        cx.run("input_nonce_boundary", &i4, &soln);
                    }
                }
                // (c) index-list mutations
                let len = idx.len();
                for r in 1..=k {
                    let sz = 1usize << r;
                    for b in 0..(len / sz) {
                        let mut m = idx.clone();
                        for j in 0..sz / 2 {
                            m.swap(b * sz + j, b * sz + sz / 2 + j);
                        }
                        if (first && k <= 5) || r >= k - 1 || rng.chance(1, if k >= 7 && !big { 12 } else { 4 }) {
                            cx.run("swap_siblings", &inst, &encode(w, &m));
                        }
                        // copy the left half over the right half and vice versa
                        if all || rng.chance(1, if k >= 7 && !big { 24 } else { 6 }) {
                            let mut m = idx.clone();
                            for j in 0..sz / 2 {
                                m[b * sz + sz / 2 + j] = m[b * sz + j];
                            }
                            cx.run("copy_subtree", &inst, &encode(w, &m));
                            let mut m = idx.clone();
                            for j in 0..sz / 2 {
                                m[b * sz + j] = m[b * sz + sz / 2 + j];
                            }
                            cx.run("copy_subtree", &inst, &encode(w, &m));
                        }
                    }
                }
                for _ in 0..(if k >= 7 && !big { 3 } else if first { 12 } else { 4 }) {
                    // swap two subtrees that are not siblings
                    let r = rng.below(k as u64) as usize;
                    let sz = 1usize << r;
                    let cnt = len / sz;
                    let p = rng.below(cnt as u64) as usize;
                    let q = rng.below(cnt as u64) as usize;
                    if p != q && p / 2 != q / 2 {
                        let mut m = idx.clone();
                        for j in 0..sz {
                            m.swap(p * sz + j, q * sz + j);
                        }
                        cx.run("swap_subtrees", &inst, &encode(w, &m));
                    }
                    // duplicate one index
                    let p = rng.below(len as u64) as usize;
                    let q = rng.below(len as u64) as usize;
                    if p != q {
                        let mut m = idx.clone();
                        m[p] = m[q];
                        cx.run("dup_index", &inst, &encode(w, &m));
                    }
                    // off-by-one index
                    let mut m = idx.clone();
                    let p = rng.below(len as u64) as usize;
                    m[p] = (m[p] ^ 1) & ((1u32 << w) - 1);
                    cx.run("index_neighbour", &inst, &encode(w, &m));
                }
                let mut m = idx.clone();
                m.reverse();
                cx.run("reverse", &inst, &encode(w, &m));
                let mut m = idx.clone();
                m.rotate_left(1);
                cx.run("rotate", &inst, &encode(w, &m));
                let mut m = idx.clone();
                m.sort();
                cx.run("sorted", &inst, &encode(w, &m));
                // right indices, wrong length
                let mut t = soln.clone();
                t.push(0);
                cx.run("len_plus_1", &inst, &t);
                t.pop();
                t.pop();
                cx.run("len_minus_1", &inst, &t);
            }
            for idx in s.near.iter() {
                cx.run("near_solution", &inst, &encode(w, idx));
            }
            for h in s.halves.iter().take(if big { 8 } else { 3 }) {
                // (L, L): every level of L is valid, the root XOR is zero, only distinctness fails
                let mut m = h.clone();
                m.extend_from_slice(h);
                cx.run("half_twice", &inst, &encode(w, &m));
            }
            if s.halves.len() >= 2 {
                // two valid halves that do not collide
                let (h0, h1) = (&s.halves[0], &s.halves[1]);
                let mut m = if h0[0] < h1[0] { h0.clone() } else { h1.clone() };
                m.extend_from_slice(if h0[0] < h1[0] { h1 } else { h0 });
                cx.run("two_halves", &inst, &encode(w, &m));
            }
            // (d) random strings of every length 0..2*len, several of the right length
            let l = inst.soln_len();
            if l <= 80 || big {
                for len in 0..=(2 * l).min(420) {
                    cx.run("random_len", &inst, &rng.bytes(len));
                }
            }
            for _ in 0..(if big { 30 } else if k >= 7 { 3 } else { 8 }) {
                cx.run("random_right_len", &inst, &rng.bytes(l));
                // random distinct indices arranged so that every ordering check passes
                let mut m: Vec<u32> = vec![];
                while m.len() < (1usize << k) {
                    let x = rng.below(1u64 << w) as u32;
                    if !m.contains(&x) {
                        m.push(x);
                    }
                }
                m.sort();
                cx.run("random_sorted_distinct", &inst, &encode(w, &m));
            }
            cx.run("zeros", &inst, &vec![0u8; l]);
            cx.run("ones", &inst, &vec![0xffu8; l]);
        }
    }

    // ---- pseudo-solutions with repeated indices ------------------------------------------------
    // The solver without its distinctness filter: collision and ordering hold at every level and the
    // total XOR is zero, but some index occurs in both halves of a block (its two copies cancel).
    // Only `distinct_indices` rejects these.  Kept apart: those where in every sharing block the left
    // half ends below the right half's first index (a subtree's first index is its minimum, its last
    // is not its maximum).
    for (n, k, tries) in [(32u32, 3u32, if big { 12000 } else { 5000 }), (40, 4, if big { 5000 } else { 1500 }), (48, 5, if big { 2500 } else { 700 })] {
        let want = if big { 12 } else { 5 };
        let (mut n_lt, mut n_other, mut tried) = (0usize, 0usize, 0u64);
        let input = rng.bytes(3);
        for t in 0..tries as u32 {
            if n_lt >= want && n_other >= want {
                break;
            }
            tried += 1;
            let inst = Inst { n, k, input: input.clone(), nonce: t.to_le_bytes().to_vec() };
            let w = inst.c() + 1;
            for idx in solve_with(&inst, false).solutions {
                let (sh, lt) = sharing_blocks(&idx);
                let all_lt = sh > 0 && sh == lt;
                if all_lt && n_lt < 2 * want {
                    n_lt += 1;
                    cx.run("pseudo_dup_left_ends_below_right", &inst, &encode(w, &idx));
                    // hand-shaped variants: move the repeated index to the end of the left half / make
                    // the left half end above the right half's first index
                    let h = idx.len() / 2;
                    let mut m = idx.clone();
                    m.swap(h - 1, h - 2);
                    cx.run("pseudo_dup_variant", &inst, &encode(w, &m));
                    let mut m = idx.clone();
                    m.swap(h + 1, idx.len() - 1);
                    cx.run("pseudo_dup_variant", &inst, &encode(w, &m));
                } else if !all_lt && n_other < want {
                    n_other += 1;
                    cx.run("pseudo_dup", &inst, &encode(w, &idx));
                }
            }
        }
        *cx.st.params.entry(format!("pseudo {},{} instances tried", n, k)).or_default() += tried;
        *cx.st.solutions.entry(format!("pseudo {},{} left_ends_below", n, k)).or_default() += n_lt as u64;
        *cx.st.solutions.entry(format!("pseudo {},{} other", n, k)).or_default() += n_other as u64;
    }
    // hand-shaped lists of the same form [.., x, .., l | f, .., x, ..] with l < f <= x (no hash conditions)
    for (n, k) in [(32u32, 3u32), (40, 4), (48, 5)] {
        let inst = Inst { n, k, input: rng.bytes(3), nonce: rng.bytes(4) };
        let w = inst.c() + 1;
        let sz = 1usize << k;
        let mut m: Vec<u32> = (0..sz as u32).map(|i| 2 * i + 1).collect(); // increasing, distinct
        let x = m[sz - 1];
        m[1] = x; // x inside the left half, left half still ends below the right half's first index
        cx.run("shaped_dup", &inst, &encode(w, &m));
    }

    // ---- vectors from the Zcash test suite at the production and the widest parameters -------
    for (n, k, v) in [(200u32, 9u32, V200), (144, 5, V144)] {
        let inst = Inst { n, k, input: b"block header".to_vec(), nonce: vec![0u8; 32] };
        let w = inst.c() + 1;
        let soln = encode(w, v);
        cx.run("valid_vector", &inst, &soln);
        let nb = soln.len() * 8;
        for j in 0..(if big { 64 } else { 6 }) {
            cx.run("soln_bit", &inst, &flip(&soln, (j * 7919 + 3) % nb));
        }
        let mut m = v.to_vec();
        let h = m.len() / 2;
        for j in 0..h {
            m.swap(j, h + j);
        }
        cx.run("swap_siblings", &inst, &encode(w, &m));
        let mut m = v.to_vec();
        m.swap(0, 1);
        cx.run("swap_siblings", &inst, &encode(w, &m));
        let mut m = v[..h].to_vec();
        m.extend_from_slice(&v[..h]);
        cx.run("half_twice", &inst, &encode(w, &m));
        let mut i2 = inst.clone();
        i2.nonce[31] ^= 0x80;
        cx.run("nonce_bit", &i2, &soln);
        cx.run("random_right_len", &inst, &rng.bytes(soln.len()));
        cx.run("zeros", &inst, &vec![0u8; soln.len()]);
    }

    // byte-aligned index widths (c + 1 = 16 and 24, where unpacking only inserts the padding bytes):
    // a pair of leaves colliding on the first segment, found by a birthday search, placed first in
    // either order: [j, i, ..] must fail the ordering check, [i, j, ..] the next collision check.
    for (n, k) in [(120u32, 7u32), (184, 7)] {
        let inst = Inst { n, k, input: rng.bytes(5), nonce: rng.bytes(32) };
        let (c, w) = (inst.c(), inst.c() + 1);
        let mut seen: std::collections::HashMap<u64, u32> = std::collections::HashMap::new();
        let mut pair = None;
        for i in 0..(1u32 << w).min(1 << 15) {
            let x = inst.x(i);
            let mut top: u64 = 0;
            for b in &x[..4] {
                top = (top << 8) | *b as u64;
            }
            let key = top >> (32 - c);
            if let Some(j) = seen.get(&key) {
                pair = Some((*j, i));
                break;
            }
            seen.insert(key, i);
        }
        if let Some((i, j)) = pair {
            // the other indices: distinct, increasing, above both
            let sz = 1usize << k;
            let mut rest: Vec<u32> = (0..sz as u32 - 2).map(|t| j + 1 + 3 * t).collect();
            let mut m = vec![j, i];
            m.append(&mut rest.clone());
            cx.run("aligned_first_pair_swapped", &inst, &encode(w, &m));
            let mut m = vec![i, j];
            m.append(&mut rest);
            cx.run("aligned_first_pair", &inst, &encode(w, &m));
            let m = vec![i; sz];
            cx.run("aligned_first_pair", &inst, &encode(w, &m));
        }
        for _ in 0..2 {
            cx.run("random_right_len", &inst, &rng.bytes(inst.soln_len()));
        }
    }

    // one index per digest (n > 256): the only such parameter pair with a short solution is (264, 10)
    {
        let inst = Inst { n: 264, k: 10, input: rng.bytes(8), nonce: rng.bytes(32) };
        let l = inst.soln_len();
        cx.run("one_index_per_digest", &inst, &rng.bytes(l));
        let mut m: Vec<u32> = (0..1024u32).map(|i| i * 3 + 1).collect();
        cx.run("one_index_per_digest", &inst, &encode(25, &m));
        m[1] = m[0];
        cx.run("one_index_per_digest", &inst, &encode(25, &m));
    }

    // ---- (e) parameter grid ---------------------------------------------------------------------
    let ginst = |n: u32, k: u32| Inst { n, k, input: b"C19".to_vec(), nonce: vec![7u8; 4] };
    let mut grid: Vec<(u32, u32)> = vec![];
    for n in 0..=256u32 {
        for k in 0..=16u32 {
            grid.push((n, k));
        }
    }
    for n in (264..=600u32).step_by(8) {
        for k in 0..=75u32 {
            grid.push((n, k));
        }
    }
    if big {
        for n in 257..=600u32 {
            for k in 0..=16u32 {
                if n % 8 != 0 {
                    grid.push((n, k));
                }
            }
        }
        for n in (8..=256u32).step_by(8) {
            for k in 17..=75u32 {
                grid.push((n, k));
            }
        }
    }
    let ext: [u32; 14] = [0, 1, 2, 3, 7, 8, 9, 511, 512, 513, 520, 1 << 16, 1 << 31, u32::MAX];
    for n in ext {
        for k in ext {
            grid.push((n, k));
        }
    }
    grid.push((u32::MAX - 7, 3));
    grid.push((u32::MAX - 7, 7));
    grid.push((1 << 31, (1 << 31) - 1));
    let mut panicking: Vec<(u32, u32, usize)> = vec![];
    for (n, k) in grid {
        let inst = ginst(n, k);
        let mut lens: Vec<usize> = vec![0];
        if (n as u64 + k as u64) % 5 == 0 {
            lens.push(1);
        }
        // the length the verifier expects, when it is computable and small
        if k < 40 && k.checked_add(1).map_or(false, |k1| k1 != 0) {
            let c1 = (n / (k + 1)) as u128 + 1;
            let l = ((1u128 << k) * c1) / 8;
            if l <= 4096 && l > 1 {
                lens.push(l as usize);
                if (n as u64 + k as u64) % 3 == 0 {
                    lens.push(l as usize + 1);
                }
            }
        }
        for l in lens {
            let cls = cx.run("grid", &inst, &vec![0u8; l]);
            if cls == "panic" {
                panicking.push((n, k, l));
            }
            if l > 1 && l <= 512 && cls != "panic" && cls != "invalid_params" {
                cx.run("grid_random", &inst, &rng.bytes(l));
            }
        }
    }

    let js = |m: &BTreeMap<String, u64>| format!("{{{}}}", m.iter().map(|(k, v)| format!("\"{}\":{}", k, v)).collect::<Vec<_>>().join(","));
    stat(format!(
        "{{\"cases\":{},\"instances_per_params\":{},\"solutions_found\":{},\"streams\":{{{}}},\"distinct_soln_lengths\":{},\"max_soln_len\":{},\"panicking_grid_points\":[{}]}}",
        cx.st.cases,
        js(&cx.st.params),
        js(&cx.st.solutions),
        cx.st.by_stream.iter().map(|(k, v)| format!("\"{}\":{}", k, js(v))).collect::<Vec<_>>().join(","),
        cx.st.soln_len.len(),
        cx.st.soln_len.keys().max().copied().unwrap_or(0),
        panicking.iter().map(|(n, k, l)| format!("[{},{},{}]", n, k, l)).collect::<Vec<_>>().join(",")
    ));
}
