//! C09 harness: every public operator of zcash_protocol::value on the boundary lattice
//! (exhaustively) and on random values; prints Coq `case` terms with the observed outcome.
use std::num::NonZeroU64;
use vcommon::*;
use zcash_protocol::value::{BalanceError, ZatBalance, Zatoshis, MAX_MONEY};

const M: i128 = MAX_MONEY as i128;

fn be(e: BalanceError) -> String {
    match e {
        BalanceError::Overflow => err("Overflow"),
        BalanceError::Underflow => err("Underflow"),
    }
}
fn zb(v: ZatBalance) -> i128 {
    i64::from(v) as i128
}
fn zt(v: Zatoshis) -> i128 {
    v.into_u64() as i128
}
fn res_zb(r: Option<Result<ZatBalance, BalanceError>>) -> String {
    match r {
        None => PANIC.into(),
        Some(Ok(v)) => ok(z(zb(v))),
        Some(Err(e)) => be(e),
    }
}
fn res_zt(r: Option<Result<Zatoshis, BalanceError>>) -> String {
    match r {
        None => PANIC.into(),
        Some(Ok(v)) => ok(z(zt(v))),
        Some(Err(e)) => be(e),
    }
}
fn ores_zb(r: Option<Option<ZatBalance>>) -> String {
    match r {
        None => PANIC.into(),
        Some(o) => ok(opt(o.map(|v| z(zb(v))))),
    }
}
fn ores_zt(r: Option<Option<Zatoshis>>) -> String {
    match r {
        None => PANIC.into(),
        Some(o) => ok(opt(o.map(|v| z(zt(v))))),
    }
}
fn zlist(b: &[u8]) -> String {
    hz(b)
}

fn i64_lattice() -> Vec<i64> {
    let m = MAX_MONEY as i64;
    let mut v = vec![0, 1, 2, 3, 149, 150, 10_000, 100_000_000, m / 2, m / 2 + 1, m - 2, m - 1, m, m + 1, m + 2,
        2 * m - 1, 2 * m, 2 * m + 1, 4 * m, i64::MAX - 1, i64::MAX, (1 << 32) - 1, 1 << 32, (1 << 53) + 1];
    let neg: Vec<i64> = v.iter().map(|x| -*x).collect();
    v.extend(neg);
    v.push(i64::MIN);
    v.push(i64::MIN + 1);
    v.sort();
    v.dedup();
    v
}
fn u64_lattice() -> Vec<u64> {
    let m = MAX_MONEY;
    let mut v = vec![0, 1, 2, 3, 5, 7, 10, 255, 256, 21_000_000, 100_000_000, m / 3, m / 2, m / 2 + 1, m - 1, m, m + 1, 2 * m, 2 * m + 1,
        i64::MAX as u64 - 1, i64::MAX as u64, i64::MAX as u64 + 1, i64::MAX as u64 + 2, u64::MAX - 1, u64::MAX,
        (1 << 32) - 1, 1 << 32, 1 << 63, 4392, 8784];
    v.sort();
    v.dedup();
    v
}

fn rand_i64(r: &mut Rng) -> i64 {
    match r.below(6) {
        0 => r.u64() as i64,
        1 => (r.below(2 * MAX_MONEY + 1) as i64) - MAX_MONEY as i64,
        2 => (r.below(4 * MAX_MONEY) as i64) - 2 * MAX_MONEY as i64,
        3 => { let l = i64_lattice(); r.pick(&l).wrapping_add(r.below(5) as i64 - 2) }
        4 => (r.below(1 << 20) as i64) - (1 << 19),
        _ => {
            let base = *r.pick(&[MAX_MONEY as i64, -(MAX_MONEY as i64), 0]);
            base.wrapping_add(r.below(2001) as i64 - 1000)
        }
    }
}
fn rand_u64(r: &mut Rng) -> u64 {
    match r.below(5) {
        0 => r.u64(),
        1 => r.below(MAX_MONEY + 1),
        2 => r.below(2 * MAX_MONEY),
        3 => MAX_MONEY.wrapping_add(r.below(2001)).wrapping_sub(1000),
        _ => r.below(1 << 20),
    }
}

struct Out {
    n: usize,
}
impl Out {
    fn c(&mut self, s: String) {
        self.n += 1;
        case(s);
    }
}

fn ctor_cases(o: &mut Out, x: i64) {
    o.c(format!("ZbFromI64 {} {}", z(x as i128), res_zb(catch(|| ZatBalance::from_i64(x)))));
    o.c(format!("ZbFromNonnegI64 {} {}", z(x as i128), res_zb(catch(|| ZatBalance::from_nonnegative_i64(x)))));
    o.c(format!("ZatFromNonnegI64 {} {}", z(x as i128), res_zt(catch(|| Zatoshis::from_nonnegative_i64(x)))));
    // TryFrom<i64> is from_i64
    o.c(format!("ZbFromI64 {} {}", z(x as i128), res_zb(catch(|| ZatBalance::try_from(x)))));
}
fn nres_zb(r: Option<ZatBalance>) -> String {
    match r { None => PANIC.into(), Some(v) => ok(z(zb(v))) }
}
fn nres_zt(r: Option<Zatoshis>) -> String {
    match r { None => PANIC.into(), Some(v) => ok(z(zt(v))) }
}
fn bl(b: bool) -> &'static str { if b { "true" } else { "false" } }
/// `const fn` constructors: `assert!` on the range, observed through catch_unwind.
fn const_i_cases(o: &mut Out, x: i64) {
    o.c(format!("ZbConstFromI64 {} {}", z(x as i128), nres_zb(catch(|| ZatBalance::const_from_i64(x)))));
}
fn const_u_cases(o: &mut Out, x: u64) {
    o.c(format!("ZbConstFromU64 {} {}", zu(x as u128), nres_zb(catch(|| ZatBalance::const_from_u64(x)))));
    o.c(format!("ZatConstFromU64 {} {}", zu(x as u128), nres_zt(catch(|| Zatoshis::const_from_u64(x)))));
}
fn uctor_cases(o: &mut Out, x: u64) {
    o.c(format!("ZbFromU64 {} {}", zu(x as u128), res_zb(catch(|| ZatBalance::from_u64(x)))));
    o.c(format!("ZatFromU64 {} {}", zu(x as u128), res_zt(catch(|| Zatoshis::from_u64(x)))));
    o.c(format!("ZatFromU64 {} {}", zu(x as u128), res_zt(catch(|| Zatoshis::try_from(x)))));
}
fn bytes_cases(o: &mut Out, b: [u8; 8]) {
    o.c(format!("ZbFromI64Le {} {}", zlist(&b), res_zb(catch(|| ZatBalance::from_i64_le_bytes(b)))));
    o.c(format!("ZbFromNonnegI64Le {} {}", zlist(&b), res_zb(catch(|| ZatBalance::from_nonnegative_i64_le_bytes(b)))));
    o.c(format!("ZbFromU64Le {} {}", zlist(&b), res_zb(catch(|| ZatBalance::from_u64_le_bytes(b)))));
    o.c(format!("ZatFromU64Le {} {}", zlist(&b), res_zt(catch(|| Zatoshis::from_u64_le_bytes(b)))));
    o.c(format!("ZatFromNonnegI64Le {} {}", zlist(&b), res_zt(catch(|| Zatoshis::from_nonnegative_i64_le_bytes(b)))));
}
fn read_case(o: &mut Out, b: &[u8]) {
    let r = catch(|| {
        let mut cur = corez::io::Cursor::new(b);
        let v = Zatoshis::read(&mut cur);
        (v, cur.position() as usize)
    });
    let s = match r {
        None => PANIC.into(),
        Some((Ok(v), pos)) => ok(pair(z(zt(v)), zlist(&b[pos..]))),
        Some((Err(e), _)) => match e.kind() {
            corez::io::ErrorKind::UnexpectedEof => err("Eof"),
            corez::io::ErrorKind::InvalidData => err("InvalidData"),
            _ => err("OTHER"),
        },
    };
    o.c(format!("ZatRead {} {}", zlist(b), s));
}
fn unary_zb(o: &mut Out, a: ZatBalance) {
    let av = z(zb(a));
    o.c(format!("ZbToI64Le {} {}", av, zlist(&a.to_i64_le_bytes())));
    o.c(format!("ZbNeg {} {}", av, match catch(|| -a) { None => PANIC.into(), Some(v) => ok(z(zb(v))) }));
    o.c(format!("ZbTryIntoU64 {} {}", av, match catch(|| u64::try_from(a)) {
        None => PANIC.into(), Some(Ok(v)) => ok(zu(v as u128)), Some(Err(e)) => be(e) }));
    o.c(format!("ZatTryFromZb {} {}", av, res_zt(catch(|| Zatoshis::try_from(a)))));
    o.c(format!("ZbIsPositive {} {}", av, bl(a.is_positive())));
    o.c(format!("ZbIsNegative {} {}", av, bl(a.is_negative())));
}
fn unary_zt(o: &mut Out, t: Zatoshis) {
    let tv = z(zt(t));
    o.c(format!("ZbFromZat {} {}", tv, z(zb(ZatBalance::from(t)))));
    o.c(format!("ZatToI64Le {} {}", tv, zlist(&t.to_i64_le_bytes())));
    o.c(format!("ZatToU64Le {} {}", tv, zlist(&t.to_u64_le_bytes())));
    let mut w = vec![];
    t.write(&mut w).unwrap();
    o.c(format!("ZatWrite {} {}", tv, zlist(&w)));
    o.c(format!("ZatNeg {} {}", tv, match catch(|| -t) { None => PANIC.into(), Some(v) => ok(z(zb(v))) }));
    o.c(format!("ZatIsZero {} {}", tv, bl(t.is_zero())));
    o.c(format!("ZatIsPositive {} {}", tv, bl(t.is_positive())));
}
fn bin_zb(o: &mut Out, a: ZatBalance, b: ZatBalance) {
    let (av, bv) = (z(zb(a)), z(zb(b)));
    o.c(format!("ZbAdd {} {} {}", av, bv, ores_zb(catch(|| a + b))));
    o.c(format!("ZbSub {} {} {}", av, bv, ores_zb(catch(|| a - b))));
    o.c(format!("ZbOptAdd (Some {}) {} {}", av, bv, ores_zb(catch(|| Some(a) + b))));
    o.c(format!("ZbOptSub (Some {}) {} {}", av, bv, ores_zb(catch(|| Some(a) - b))));
}
fn bin_zb_zt(o: &mut Out, a: ZatBalance, t: Zatoshis) {
    let (av, tv) = (z(zb(a)), z(zt(t)));
    o.c(format!("ZbAddZat {} {} {}", av, tv, ores_zb(catch(|| a + t))));
    o.c(format!("ZbSubZat {} {} {}", av, tv, ores_zb(catch(|| a - t))));
    o.c(format!("ZbOptAddZat (Some {}) {} {}", av, tv, ores_zb(catch(|| Some(a) + t))));
    o.c(format!("ZbOptSubZat (Some {}) {} {}", av, tv, ores_zb(catch(|| Some(a) - t))));
}
fn bin_zt(o: &mut Out, a: Zatoshis, b: Zatoshis) {
    let (av, bv) = (z(zt(a)), z(zt(b)));
    o.c(format!("ZatAdd {} {} {}", av, bv, ores_zt(catch(|| a + b))));
    o.c(format!("ZatSub {} {} {}", av, bv, ores_zt(catch(|| a - b))));
    o.c(format!("ZatOptAdd (Some {}) {} {}", av, bv, ores_zt(catch(|| Some(a) + b))));
    o.c(format!("ZatOptSub (Some {}) {} {}", av, bv, ores_zt(catch(|| Some(a) - b))));
}
fn mul_cases(o: &mut Out, a: ZatBalance, t: Zatoshis, n: u64) {
    o.c(format!("ZbMulUsize {} {} {}", z(zb(a)), zu(n as u128), ores_zb(catch(|| a * (n as usize)))));
    o.c(format!("ZatMulU64 {} {} {}", z(zt(t)), zu(n as u128), ores_zt(catch(|| t * n))));
    o.c(format!("ZatMulUsize {} {} {}", z(zt(t)), zu(n as u128), ores_zt(catch(|| t * (n as usize)))));
    if let Some(d) = NonZeroU64::new(n) {
        o.c(format!("ZatDiv {} {} {}", z(zt(t)), zu(n as u128), match catch(|| t / d) { None => PANIC.into(), Some(v) => ok(z(zt(v))) }));
        o.c(format!("ZatDivRem {} {} {}", z(zt(t)), zu(n as u128), match catch(|| { let q = t.div_with_remainder(d); (*q.quotient(), *q.remainder()) }) {
            None => PANIC.into(), Some((q, r)) => ok(pair(z(zt(q)), z(zt(r)))) }));
    }
}
fn sum_cases(o: &mut Out, zs: &[ZatBalance], ts: &[Zatoshis]) {
    o.c(format!("ZbSum {} {}", list(zs.iter().map(|v| z(zb(*v)))), ores_zb(catch(|| ZatBalance::sum(zs.iter().copied())))));
    o.c(format!("ZbSum {} {}", list(zs.iter().map(|v| z(zb(*v)))), ores_zb(catch(|| zs.iter().sum::<Option<ZatBalance>>()))));
    o.c(format!("ZatSum {} {}", list(ts.iter().map(|v| z(zt(*v)))), ores_zt(catch(|| ts.iter().copied().sum::<Option<Zatoshis>>()))));
    o.c(format!("ZatSum {} {}", list(ts.iter().map(|v| z(zt(*v)))), ores_zt(catch(|| ts.iter().sum::<Option<Zatoshis>>()))));
}

fn main() {
    let a = args();
    quiet_panics();
    let mut r = Rng::new(a.seed, 9);
    let mut o = Out { n: 0 };
    let il = i64_lattice();
    let ul = u64_lattice();
    // constructors may themselves be broken: never let a panic in them kill the harness
    let zbs: Vec<ZatBalance> = il.iter().filter_map(|x| catch(|| ZatBalance::from_i64(*x).ok()).flatten()).collect();
    let zts: Vec<Zatoshis> = ul.iter().filter_map(|x| catch(|| Zatoshis::from_u64(*x).ok()).flatten()).collect();

    // --- exhaustive over the boundary lattice --------------------------------------------
    for x in &il { ctor_cases(&mut o, *x); const_i_cases(&mut o, *x); }
    for x in &ul { uctor_cases(&mut o, *x); const_u_cases(&mut o, *x); }
    for x in &il {
        let b = x.to_le_bytes();
        bytes_cases(&mut o, b);
        // every single-byte variation of the boundary encodings (a few replacement values)
        for i in 0..8 {
            for v in [0u8, 1, 0x7f, 0x80, 0xff, b[i].wrapping_add(1), b[i].wrapping_sub(1)] {
                if v != b[i] { let mut c = b; c[i] = v; bytes_cases(&mut o, c); }
            }
        }
    }
    for x in &ul { bytes_cases(&mut o, x.to_le_bytes()); }
    for a_ in &zbs { unary_zb(&mut o, *a_); }
    for t in &zts { unary_zt(&mut o, *t); }
    for a_ in &zbs { for b in &zbs { bin_zb(&mut o, *a_, *b); } }
    for a_ in &zbs { for t in &zts { bin_zb_zt(&mut o, *a_, *t); } }
    for s in &zts { for t in &zts { bin_zt(&mut o, *s, *t); } }
    for b in &zbs { o.c(format!("ZbOptAdd None {} {}", z(zb(*b)), ores_zb(catch(|| None::<ZatBalance> + *b))));
                    o.c(format!("ZbOptSub None {} {}", z(zb(*b)), ores_zb(catch(|| None::<ZatBalance> - *b)))); }
    for t in &zts { o.c(format!("ZbOptAddZat None {} {}", z(zt(*t)), ores_zb(catch(|| None::<ZatBalance> + *t))));
                    o.c(format!("ZbOptSubZat None {} {}", z(zt(*t)), ores_zb(catch(|| None::<ZatBalance> - *t))));
                    o.c(format!("ZatOptAdd None {} {}", z(zt(*t)), ores_zt(catch(|| None::<Zatoshis> + *t))));
                    o.c(format!("ZatOptSub None {} {}", z(zt(*t)), ores_zt(catch(|| None::<Zatoshis> - *t)))); }
    for (i, a_) in zbs.iter().enumerate() {
        let t = zts[i % zts.len()];
        for n in &ul { mul_cases(&mut o, *a_, t, *n); }
    }
    for t in &zts { for n in &ul { mul_cases(&mut o, zbs[0], *t, *n); } }
    // reads of every length 0..=17 over boundary encodings
    for x in &ul {
        let mut b = x.to_le_bytes().to_vec();
        b.extend_from_slice(&[0xaa, 0xbb, 0xcc]);
        for l in [0usize, 1, 7, 8, 9, 11] { read_case(&mut o, &b[..l]); }
    }
    // sums: every ordered triple from a small boundary subset (prefix discipline matters)
    let m = MAX_MONEY as i64;
    let small: Vec<ZatBalance> = [0, 1, -1, m, -m, m - 1, 1 - m].iter().map(|x| ZatBalance::from_i64(*x).unwrap()).collect();
    let smallt: Vec<Zatoshis> = [0u64, 1, MAX_MONEY, MAX_MONEY - 1, MAX_MONEY / 2, MAX_MONEY / 2 + 1].iter().map(|x| Zatoshis::from_u64(*x).unwrap()).collect();
    for x in &small { for y in &small { for w in &small {
        let ts = [smallt[o.n % smallt.len()], smallt[(o.n / 7) % smallt.len()], smallt[(o.n / 49) % smallt.len()]];
        sum_cases(&mut o, &[*x, *y, *w], &ts);
    } } }
    sum_cases(&mut o, &[], &[]);
    // long sums of one repeated value: the exact total passes 2^63 / 2^64 only after thousands of
    // terms (2^64 / MAX_MONEY ~ 8784.1), far beyond pairwise boundary tests
    for (v, ns) in [(MAX_MONEY, vec![1u64, 2, 4391, 4392, 4393, 8783, 8784, 8785, 8786, 17570]),
                    (MAX_MONEY / 2 + 1, vec![2, 3, 8785, 17568, 17569, 17570]),
                    (1u64 << 44, vec![119, 120, 524288, 1048576, 1048577]), (0, vec![20000]), (1, vec![20000])] {
        for n in ns {
            if let Some(Ok(t)) = catch(|| Zatoshis::from_u64(v)) {
                let ts: Vec<Zatoshis> = vec![t; n as usize];
                o.c(format!("ZatSumRep {} {} {}", zu(v as u128), vcommon::n(n as u128), ores_zt(catch(|| ts.iter().copied().sum::<Option<Zatoshis>>()))));
                o.c(format!("ZatSumRep {} {} {}", zu(v as u128), vcommon::n(n as u128), ores_zt(catch(|| ts.iter().sum::<Option<Zatoshis>>()))));
            }
            for sign in [1i64, -1] {
                if let Some(Ok(b)) = catch(|| ZatBalance::from_i64(sign * (v as i64))) {
                    let bs: Vec<ZatBalance> = vec![b; n as usize];
                    o.c(format!("ZbSumRep {} {} {}", z(zb(b)), vcommon::n(n as u128), ores_zb(catch(|| bs.iter().copied().sum::<Option<ZatBalance>>()))));
                    o.c(format!("ZbSumRep {} {} {}", z(zb(b)), vcommon::n(n as u128), ores_zb(catch(|| ZatBalance::sum(bs.iter().copied())))));
                }
            }
        }
    }
    let lattice_cases = o.n;

    // --- random ------------------------------------------------------------------------------
    let budget = a.budget(6_000, 120_000);
    let mut k = 0;
    while k < budget {
      let _ = catch(std::panic::AssertUnwindSafe(|| {
        let x = rand_i64(&mut r);
        let u = rand_u64(&mut r);
        ctor_cases(&mut o, x);
        uctor_cases(&mut o, u);
        const_i_cases(&mut o, x);
        const_u_cases(&mut o, u);
        bytes_cases(&mut o, r.u64().to_le_bytes());
        bytes_cases(&mut o, x.to_le_bytes());
        let a1 = ZatBalance::from_i64(((r.below(2 * MAX_MONEY + 1)) as i64) - m).unwrap();
        let a2 = ZatBalance::from_i64(((r.below(2 * MAX_MONEY + 1)) as i64) - m).unwrap();
        let t1 = Zatoshis::from_u64(r.below(MAX_MONEY + 1)).unwrap();
        let t2 = Zatoshis::from_u64(r.below(MAX_MONEY + 1)).unwrap();
        unary_zb(&mut o, a1);
        unary_zt(&mut o, t1);
        bin_zb(&mut o, a1, a2);
        bin_zb_zt(&mut o, a1, t1);
        bin_zt(&mut o, t1, t2);
        let n = if r.bool() { r.below(64) } else { rand_u64(&mut r) };
        mul_cases(&mut o, a1, t1, n);
        let len = r.below(9) as usize;
        let zs: Vec<ZatBalance> = (0..len).map(|_| if r.chance(1, 3) { *r.pick(&small) } else { ZatBalance::from_i64((r.below(2 * MAX_MONEY + 1) as i64) - m).unwrap() }).collect();
        let ts: Vec<Zatoshis> = (0..len).map(|_| if r.chance(1, 3) { *r.pick(&smallt) } else { Zatoshis::from_u64(r.below(MAX_MONEY / 3)).unwrap() }).collect();
        sum_cases(&mut o, &zs, &ts);
        let rl = r.below(20) as usize;
        let mut rb = r.bytes(rl);
        if rl >= 8 && r.bool() { rb[..8].copy_from_slice(&r.below(MAX_MONEY + 2).to_le_bytes()); }
        read_case(&mut o, &rb);
      }));
        k += 70;
    }
    stat(format!("{{\"lattice_cases\": {}, \"random_cases\": {}, \"i64_lattice\": {}, \"u64_lattice\": {}, \"exhaustive_lattice\": true}}",
        lattice_cases, o.n - lattice_cases, il.len(), ul.len()));
}
